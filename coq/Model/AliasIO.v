(* Model/AliasIO.v — harness-facing wrapper for Model/Alias.v *)
From Coq Require Import ZArith List Bool Arith.
From RD Require Import Model.Tree Model.Uniform Model.TreeIO Model.Alias.
Import ListNotations.
Open Scope Z_scope.

(* what the crate printed: result of new, aliases, no_alias_odds, weights(), samples *)
Inductive anew := ANErr (e : werr) | ANPanic | ANOk (aliases odds : list Z) (weights : option (list Z)).

Definition anew_eqb (a b : anew) : bool :=
  match a, b with
  | ANErr x, ANErr y => werr_eqb x y
  | ANPanic, ANPanic => true
  | ANOk a1 o1 w1, ANOk a2 o2 w2 =>
      zlist_eqb a1 a2 && zlist_eqb o1 o2 &&
      match w1, w2 with Some x, Some y => zlist_eqb x y | None, None => true | _, _ => false end
  | _, _ => false
  end.

Definition amodel (ty : aty) (ws : list Z) : anew :=
  match alias_new ty ws with
  | Err e => ANErr e
  | Panic => ANPanic
  | Ok t => ANOk (t_al t) (t_odds t) (alias_weights ty t)
  end.

(* samples: list of (words, (index, words used)) *)
Fixpoint asamples_ok (k : sbits) (t : atab) (l : list (list Z * (Z * Z))) : bool :=
  match l with
  | [] => true
  | (words, (i, n)) :: r =>
    match alias_sample k t words with
    | Some (i', n') => (i =? i') && (n =? n') && asamples_ok k t r
    | None => false
    end
  end.

Definition acase (ty : aty) (k : skind) (ws : list Z) (expected : anew) (samples : list (list Z * (Z * Z))) : bool :=
  anew_eqb (amodel ty ws) expected &&
  match alias_new ty ws with
  | Ok t => asamples_ok (sk_bits k (t_sum t - 1)) t samples
  | _ => match samples with [] => true | _ => false end
  end.

Definition mka (lo hi : Z) : aty := {| alo := lo; amax := hi |}.
