(* Model/Tree.v — executable Gallina model of src/weighted/weighted_tree.rs
   (WeightedTreeIndex<W>, integer weight types).  No proofs in this file.

   State  = the `subtotals` vector, as a list of Z.
   Weight type = (lo, hi): the closed range of W (u8: 0..255, i8: -128..127, …).
   Every Rust operation that can panic (index out of bounds, `unwrap` on a
   failed checked_add, `-=` leaving the type's range in a debug build) is the
   distinct outcome `Panic`; nothing is totalised silently.                  *)
From Coq Require Import ZArith List Bool Arith Lia.
Import ListNotations.
Open Scope Z_scope.

Record wty := { wlo : Z; whi : Z }.

Inductive werr := InvalidWeight | Overflow | InsufficientNonZero | InvalidInput.

Inductive res (A : Type) := Ok (a : A) | Err (e : werr) | Panic.
Arguments Ok {A} a. Arguments Err {A} e. Arguments Panic {A}.

Definition par (i : nat) : nat := ((i - 1) / 2)%nat.
Definition nthz (l : list Z) (i : nat) : Z := nth i l 0.
(* `fn subtotal`: 0 outside the vector *)
Definition sub (t : list Z) (i : nat) : Z := if (i <? length t)%nat then nthz t i else 0.
Fixpoint upd (l : list Z) (i : nat) (v : Z) : list Z :=
  match l, i with [], _ => [] | _ :: r, O => v :: r | x :: r, S i => x :: upd r i v end.

(* `fn get`: subtotals[index] - subtotal(left) - subtotal(right); the model keeps
   the two `-=` as exact integer subtraction and reports leaving [lo,hi] as Panic
   at the call sites that matter (see get_chk). *)
Definition get (t : list Z) (i : nat) : Z := nthz t i - sub t (2*i+1) - sub t (2*i+2).

Definition inr (ty : wty) (v : Z) : bool := (wlo ty <=? v) && (v <=? whi ty).

Definition get_chk (ty : wty) (t : list Z) (i : nat) : res Z :=
  if (i <? length t)%nat then
    let a := nthz t i - sub t (2*i+1) in
    if inr ty a then let b := a - sub t (2*i+2) in if inr ty b then Ok b else Panic
    else Panic
  else Panic.

(* the ancestor walk `while index != 0 { index = (index-1)/2; subtotals[index] op= d }`
   with `op=` either checked_add(..).unwrap() or `-=`: leaving the range is Panic.
   climb does NOT touch the start node. *)
Fixpoint climb (fuel : nat) (ty : wty) (d : Z) (t : list Z) (i : nat) : res (list Z) :=
  match i with
  | O => Ok t
  | S _ =>
    match fuel with
    | O => Panic (* unreachable for fuel >= i *)
    | S f =>
      let p := par i in
      let v := nthz t p + d in
      if inr ty v then climb f ty d (upd t p v) p else Panic
    end
  end.

(* `new`: validation, then for i in (1..n).rev(): subtotals[parent] checked_add= subtotals[i] *)
Fixpoint new_loop (ty : wty) (idx : list nat) (t : list Z) : res (list Z) :=
  match idx with
  | [] => Ok t
  | i :: rest =>
    let p := par i in
    let v := nthz t p + nthz t i in
    if v <=? whi ty then new_loop ty rest (upd t p v) else Err Overflow
  end.

Definition tree_new (ty : wty) (ws : list Z) : res (list Z) :=
  if forallb (fun w => 0 <=? w) ws
  then new_loop ty (rev (seq 1 (length ws - 1))) ws
  else Err InvalidWeight.

Definition tree_len (t : list Z) : Z := Z.of_nat (length t).
Definition tree_is_empty (t : list Z) : bool := match t with [] => true | _ => false end.
Definition tree_is_valid (t : list Z) : bool := match t with [] => false | r :: _ => 0 <? r end.

(* push: returns the new state and the result; on Err the state is the old one *)
Definition tree_push (ty : wty) (t : list Z) (w : Z) : res (list Z) :=
  if w <? 0 then Err InvalidWeight else
  if (match t with [] => false | r :: _ => whi ty <? r + w end) then Err Overflow else
  climb (length t) ty w (t ++ [w]) (length t).

(* pop: (new state, popped) *)
Definition tree_pop (ty : wty) (t : list Z) : res (list Z * option Z) :=
  match rev t with
  | [] => Ok ([], None)
  | w :: r =>
    let t' := rev r in
    match climb (length t') ty (- w) t' (length t') with
    | Ok t'' => Ok (t'', Some w)
    | Err e => Err e
    | Panic => Panic
    end
  end.

Definition tree_update (ty : wty) (t : list Z) (i : nat) (w : Z) : res (list Z) :=
  if w <? 0 then Err InvalidWeight else
  match get_chk ty t i with
  | Panic => Panic
  | Err e => Err e
  | Ok old =>
    if old <? w then
      let d := w - old in
      if (match t with [] => false | r :: _ => whi ty <? r + d end) then Err Overflow else
      let v := nthz t i + d in
      if inr ty v then climb i ty d (upd t i v) i else Panic
    else if w <? old then
      let d := old - w in
      let v := nthz t i - d in
      if inr ty v then climb i ty (- d) (upd t i v) i else Panic
    else Ok t
  end.

(* try_sample's descent for a given target in [0,total) *)
Fixpoint descend (fuel : nat) (t : list Z) (i : nat) (target : Z) : option (nat * Z) :=
  match fuel with
  | O => None
  | S f =>
    let l := sub t (2*i+1) in
    if target <? l then descend f t (2*i+1) target else
    let target := target - l in
    let r := sub t (2*i+2) in
    if target <? r then descend f t (2*i+2) target else
    Some (i, target - r)
  end.

(* result of try_sample given the target drawn by random_range(0..total) *)
Definition tree_try_sample (ty : wty) (t : list Z) (target : Z) : res nat :=
  match t with
  | [] => Err InsufficientNonZero
  | r :: _ =>
    if r =? 0 then Err InsufficientNonZero else
    match descend (length t) t 0 target with
    | None => Panic
    | Some (i, resid) =>
      (* assert!(target >= 0); assert!(target < self.get(index)) *)
      if (0 <=? resid) && (resid <? get t i) then Ok i else Panic
    end
  end.

(* ---- operation histories ------------------------------------------------- *)
Inductive op := OpPush (w : Z) | OpPop | OpUpdate (i : nat) (w : Z).

Inductive out := OutUnit | OutErr (e : werr) | OutPop (w : option Z) | OutPanic.

(* a panicking operation leaves the model state unchanged and is flagged; theorems
   show it is unreachable for in-range arguments *)
Definition step (ty : wty) (t : list Z) (o : op) : list Z * out :=
  match o with
  | OpPush w => match tree_push ty t w with
                | Ok t' => (t', OutUnit) | Err e => (t, OutErr e) | Panic => (t, OutPanic) end
  | OpPop => match tree_pop ty t with
             | Ok (t', w) => (t', OutPop w) | Err e => (t, OutErr e) | Panic => (t, OutPanic) end
  | OpUpdate i w => match tree_update ty t i w with
                    | Ok t' => (t', OutUnit) | Err e => (t, OutErr e) | Panic => (t, OutPanic) end
  end.

Definition run (ty : wty) (t : list Z) (ops : list op) : list Z :=
  fold_left (fun s o => fst (step ty s o)) ops t.

(* abstract specification: the plain weight list *)
Definition abs (t : list Z) : list Z := map (get t) (seq 0 (length t)).

Definition zsum (l : list Z) : Z := fold_right Z.add 0 l.

Definition spec_step (ty : wty) (ws : list Z) (o : op) : list Z * out :=
  match o with
  | OpPush w => if w <? 0 then (ws, OutErr InvalidWeight)
                else if (negb (tree_is_empty ws)) && (whi ty <? zsum ws + w) then (ws, OutErr Overflow)
                else (ws ++ [w], OutUnit)
  | OpPop => match rev ws with [] => ([], OutPop None) | w :: r => (rev r, OutPop (Some w)) end
  | OpUpdate i w => if w <? 0 then (ws, OutErr InvalidWeight)
                    else if (whi ty <? zsum ws - nthz ws i + w) then (ws, OutErr Overflow)
                    else (upd ws i w, OutUnit)
  end.

(* outputs along a history *)
Fixpoint outs (ty : wty) (t : list Z) (ops : list op) : list out :=
  match ops with [] => [] | o :: r => snd (step ty t o) :: outs ty (fst (step ty t o)) r end.
Fixpoint spec_outs (ty : wty) (ws : list Z) (ops : list op) : list out :=
  match ops with [] => [] | o :: r => snd (spec_step ty ws o) :: spec_outs ty (fst (spec_step ty ws o)) r end.
Definition spec_run (ty : wty) (ws : list Z) (ops : list op) : list Z :=
  fold_left (fun s o => fst (spec_step ty s o)) ops ws.

(* arguments the property quantifies over: weights of the weight type, indices in range *)
Definition op_ok (ty : wty) (t : list Z) (o : op) : Prop :=
  match o with
  | OpPush w => wlo ty <= w <= whi ty
  | OpPop => True
  | OpUpdate i w => (i < length t)%nat /\ wlo ty <= w <= whi ty
  end.
Fixpoint ops_ok (ty : wty) (t : list Z) (ops : list op) : Prop :=
  match ops with [] => True | o :: r => op_ok ty t o /\ ops_ok ty (fst (step ty t o)) r end.

Definition op_okb (ty : wty) (t : list Z) (o : op) : bool :=
  match o with
  | OpPush w => inr ty w
  | OpPop => true
  | OpUpdate i w => (i <? length t)%nat && inr ty w
  end.
Fixpoint ops_okb (ty : wty) (t : list Z) (ops : list op) : bool :=
  match ops with [] => true | o :: r => op_okb ty t o && ops_okb ty (fst (step ty t o)) r end.
