(* Model/Alias.v — executable Gallina model of WeightedAliasIndex<W>::new / weights / sample
   (src/weighted/weighted_alias.rs) for the integer weight types.  No proofs here.

   The two intrusive linked lists that the crate threads through `aliases` are modelled as
   two Gallina stacks (LIFO, same order) AND the link values are written into `al` exactly
   as push_small/push_big do, so that the model's `al` equals the crate's Debug-printed
   `aliases` entry by entry (including the stale links / u32::MAX sentinel left in
   columns that never received an alias).                                              *)
From Coq Require Import ZArith List Bool Arith.
From RD Require Import Model.Tree Model.Uniform.
Import ListNotations.
Open Scope Z_scope.

Definition SENT : Z := 4294967295.   (* u32::MAX *)

(* weight type: closed range [alo, amax]; try_from_u32_lossy(n) succeeds iff n <= amax *)
Record aty := { alo : Z; amax : Z }.

Definition geti (l : list Z) (i : nat) : Z := nth i l 0.
Fixpoint seti (l : list Z) (i : nat) (v : Z) : list Z :=
  match l, i with [], _ => [] | _ :: r, O => v :: r | x :: r, Datatypes.S i => x :: seti r i v end.

Record ast := { odds : list Z; al : list Z; smalls : list nat; bigs : list nat }.

Definition head_or_sent (s : list nat) : Z := match s with [] => SENT | h :: _ => Z.of_nat h end.

Definition push_small (s : ast) (i : nat) : ast :=
  {| odds := odds s; al := seti (al s) i (head_or_sent (smalls s)); smalls := i :: smalls s; bigs := bigs s |}.
Definition push_big (s : ast) (i : nat) : ast :=
  {| odds := odds s; al := seti (al s) i (head_or_sent (bigs s)); smalls := smalls s; bigs := i :: bigs s |}.
Definition classify (SS : Z) (s : ast) (i : nat) : ast :=
  if geti (odds s) i <? SS then push_small s i else push_big s i.

Definition inra (ty : aty) (v : Z) : bool := (alo ty <=? v) && (v <=? amax ty).

(* the pairing loop; `None` = an intermediate value left the weight type (overflow panic in a
   debug build / wrap in release) or the fuel ran out; theorems show neither happens *)
Fixpoint pair_loop (fuel : nat) (ty : aty) (SS : Z) (s : ast) : option ast :=
  match smalls s, bigs s with
  | sm :: sr, b :: br =>
    match fuel with
    | O => None
    | Datatypes.S f =>
      let al1 := seti (al s) sm (Z.of_nat b) in
      let t1 := geti (odds s) b - SS in
      let nb := t1 + geti (odds s) sm in
      if inra ty t1 && inra ty nb then
        pair_loop f ty SS (classify SS {| odds := seti (odds s) b nb; al := al1; smalls := sr; bigs := br |} b)
      else None
    end
  | _, _ => Some s
  end.

Definition drain (SS : Z) (s : ast) : ast :=
  let o1 := fold_left (fun o i => seti o i SS) (smalls s) (odds s) in
  let o2 := fold_left (fun o i => seti o i SS) (bigs s) o1 in
  {| odds := o2; al := al s; smalls := []; bigs := [] |}.

Record atab := { t_al : list Z; t_odds : list Z; t_sum : Z }.

Definition zsum_chk (ty : aty) (ws : list Z) : option Z :=
  fold_left (fun acc w => match acc with None => None | Some a => if inra ty (a + w) then Some (a + w) else None end)
            ws (Some 0).

Definition alias_new (ty : aty) (ws : list Z) : res atab :=
  let n := Z.of_nat (length ws) in
  if (n =? 0) || (SENT <? n) then Err InvalidInput else
  let maxw := if n <=? amax ty then amax ty / n else 0 in
  if negb (forallb (fun w => (0 <=? w) && (w <=? maxw)) ws) then Err InvalidWeight else
  match zsum_chk ty ws with
  | None => Panic
  | Some SS =>
    if SS =? 0 then Err InsufficientNonZero else
    if negb (forallb (fun w => inra ty (w * n)) ws) then Panic else
    let o := map (fun w => w * n) ws in
    let s0 := {| odds := o; al := map (fun _ => 0) ws; smalls := []; bigs := [] |} in
    let s1 := fold_left (classify SS) (seq 0 (length ws)) s0 in
    match pair_loop (length ws) ty SS s1 with
    | None => Panic
    | Some s2 => let s3 := drain SS s2 in Ok {| t_al := al s3; t_odds := odds s3; t_sum := SS |}
    end
  end.

(* weights(): None = a panic (index out of bounds through a sentinel, or overflow) *)
Definition alias_weights (ty : aty) (t : atab) : option (list Z) :=
  let n := length (t_al t) in
  let contrib :=
    fold_left (fun acc j =>
      match acc with
      | None => None
      | Some c =>
        if geti (t_odds t) j <? t_sum t then
          let a := Z.to_nat (geti (t_al t) j) in
          if (a <? n)%nat then
            let v := geti c a + (t_sum t - geti (t_odds t) j) in
            if inra ty v then Some (seti c a v) else None
          else None
        else Some c
      end) (seq 0 n) (Some (map (fun _ => 0) (t_al t))) in
  match contrib with
  | None => None
  | Some c =>
    if forallb (fun j => inra ty (geti (t_odds t) j + geti c j)) (seq 0 n)
    then Some (map (fun j => (geti (t_odds t) j + geti c j) / Z.of_nat n) (seq 0 n))
    else None
  end.

(* sample given the two uniform draws: column c in [0,n), threshold r in [0,sum) *)
Definition alias_pick (t : atab) (c : nat) (r : Z) : Z :=
  if r <? geti (t_odds t) c then Z.of_nat c else geti (t_al t) c.

(* sample from RNG words: Uniform<u32>(0,n) then Uniform<W>(0,sum), both Lemire *)
Definition alias_sample (k : sbits) (t : atab) (words : list Z) : option (Z * Z) :=
  let n := Z.of_nat (length (t_al t)) in
  match lemire 8 B32 n words with
  | None => None
  | Some (c, r1) =>
    match lemire 8 k (t_sum t) r1 with
    | None => None
    | Some (r, r2) => Some (alias_pick t (Z.to_nat c) r, Z.of_nat (length words - length r2))
    end
  end.
