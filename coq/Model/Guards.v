(* Model/Guards.v — executable models of the VALIDATION logic of every public constructor of
   rand_distr (property C04), over IEEE-754 floats (Flocq BinarySingleNaN), generic in the format
   (prec, emax) with the two instances binary32 = (24,128) and binary64 = (53,1024).

   Transcribed by hand, statement by statement, from /repo/src/*.rs: the chain of
   `if cond { return Err(..) }`, nested constructor calls with `?` / `map_err` / `unwrap()`,
   and every float/integer operation that feeds one of those decisions.  Precomputation for
   sampling that feeds no decision and cannot panic (pure float arithmetic, `F::from(c).unwrap()`
   on literals, libm calls whose result is only stored) is omitted.

   Rust semantics used:
     x >  y, x >= y, x < y, x <= y, x == y : false if either is NaN;  -0.0 == 0.0
     x != y                                 : true  if either is NaN
     is_sign_negative                       : sign bit.  BinarySingleNaN has ONE NaN without sign,
                                              so is_sign_negative(NaN) is modelled as `false`; the
                                              only use (Exp::new) is `is_sign_negative() || is_nan()`,
                                              where the value on NaN is irrelevant.
     `unwrap()` on Err, `unreachable!()`, failed `assert!`/`debug_assert!`, integer overflow in a
     debug build                            : GPanic
     all arithmetic                         : round-to-nearest-even (mode_NE)
   libm functions that feed a decision (ln in LogNormal::from_mean_cv; powf and ln in Zipf::new)
   are PARAMETERS of the model functions; the theorems state what they need about them as explicit
   hypotheses.  For evaluation (`ctor64`/`ctor32`) they are instantiated with the crude stand-ins
   `ln_standin`/`powf_standin` at the end of this file (piecewise-linear log2/exp2: right sign,
   right monotonicity, right special values, wrong digits).

   NO PROOFS in this file.                                                                      *)
From Coq Require Import ZArith List Bool String.
From Flocq Require Import Core.Core IEEE754.Binary IEEE754.Bits IEEE754.BinarySingleNaN.
Import ListNotations.
Open Scope string_scope.
Open Scope Z_scope.

Inductive gres := GOk | GErr (variant : string) | GPanic.

(* ============================================================================================ *)
Section Fmt.
Variable prec emax : Z.
Context (Hp : Prec_gt_0 prec) (Hpe : Prec_lt_emax prec emax).
Notation float := (BinarySingleNaN.binary_float prec emax).

(* ---- Rust comparison operators ---- *)
Definition fcmp (x y : float) : option comparison := BinarySingleNaN.Bcompare x y.
Definition fgt (x y : float) : bool := match fcmp x y with Some Gt => true | _ => false end.
Definition fge (x y : float) : bool := match fcmp x y with Some Gt | Some Eq => true | _ => false end.
Definition flt (x y : float) : bool := match fcmp x y with Some Lt => true | _ => false end.
Definition fle (x y : float) : bool := match fcmp x y with Some Lt | Some Eq => true | _ => false end.
Definition feq (x y : float) : bool := match fcmp x y with Some Eq => true | _ => false end.
Definition fne (x y : float) : bool := negb (feq x y).

(* ---- classification ---- *)
Definition f_is_nan (x : float) : bool := BinarySingleNaN.is_nan x.
Definition f_is_finite (x : float) : bool := BinarySingleNaN.is_finite x.
Definition f_is_infinite (x : float) : bool := match x with B754_infinity _ => true | _ => false end.
Definition f_is_sign_negative (x : float) : bool := BinarySingleNaN.Bsign x.   (* NaN: see header *)
(* f32/f64::is_normal : neither zero, infinite, subnormal, nor NaN.  A finite nonzero float in
   canonical form is normal iff its integer significand has exactly prec binary digits.        *)
Definition f_is_normal (x : float) : bool :=
  match x with B754_finite _ m _ _ => Z.pos (digits2_pos m) =? prec | _ => false end.

(* ---- arithmetic ---- *)
Definition fadd (x y : float) : float := BinarySingleNaN.Bplus mode_NE x y.
Definition fsub (x y : float) : float := BinarySingleNaN.Bminus mode_NE x y.
Definition fmul (x y : float) : float := BinarySingleNaN.Bmult mode_NE x y.
Definition fdiv (x y : float) : float := BinarySingleNaN.Bdiv mode_NE x y.
Definition fsqrt (x : float) : float := BinarySingleNaN.Bsqrt mode_NE x.
Definition fabs (x : float) : float := BinarySingleNaN.Babs x.
Definition fneg (x : float) : float := BinarySingleNaN.Bopp x.
Definition ffloor (x : float) : float := BinarySingleNaN.Bnearbyint mode_DN x.
(* f64::max(a, b): if one argument is NaN the other is returned *)
Definition fmax (a b : float) : float :=
  if f_is_nan a then b else if f_is_nan b then a else if flt a b then b else a.

(* ---- constants ---- *)
Definition zero : float := B754_zero false.
Definition one : float := BinarySingleNaN.Bone.
Definition pinf : float := B754_infinity false.
(* m * 2^e rounded to the format: `F::from(lit).unwrap()` for an f64 literal lit = m*2^e exactly
   (one rounding f64 -> F, as in `lit as F`), and `z as F` for integers (e = 0).               *)
Definition cdy (m e : Z) : float := BinarySingleNaN.binary_normalize prec emax Hp Hpe mode_NE m e false.
Definition of_Z (z : Z) : float := cdy z 0.            (* `z as f64` for u64/i64 z; integer literals *)
Definition half : float := cdy 1 (-1).                 (* 0.5 *)
Definition two : float := of_Z 2.
Definition c01 : float := cdy 3602879701896397 (-55).  (* 0.1_f64 (= 0x1.999999999999ap-4), cast to F *)
Definition ten : float := of_Z 10.
Definition twelve : float := of_Z 12.
Definition MAX_LAMBDA_Z : Z := 18440000000000000000.  (* 1.844e19: an integer, exact in f64 *)
Definition max_lambda : float := of_Z MAX_LAMBDA_Z.    (* F::from(Self::MAX_LAMBDA).unwrap() *)

(* ============================================================================================ *)
(* normal.rs *)
Definition Normal_new (mean std_dev : float) : gres :=
  if negb (f_is_finite std_dev) then GErr "BadVariance" else GOk.

Definition Normal_from_mean_cv (mean cv : float) : gres :=
  if negb (f_is_finite cv) || flt cv zero then GErr "BadVariance" else GOk.

Definition LogNormal_new (mu sigma : float) : gres := Normal_new mu sigma.   (* `?` : same enum *)

(* `.unwrap()` *)
Definition unwrap (r : gres) : gres := match r with GOk => GOk | _ => GPanic end.

(* LogNormal::from_mean_cv, FIXED version (fix of finding F1):
       if cv == 0 { if !(mean >= 0) { return Err(MeanTooSmall) }  let mu = mean.ln(); Normal::new(mu, 0).unwrap(); Ok }
   The unfixed code had no mean test inside the `cv == 0` branch and so returned Ok for
   (mean, cv) = (-1.0, 0.0) and (NaN, 0.0); `unfixed := true` gives that behaviour.
   ln_f: libm `ln` (parameter).                                                                  *)
Definition LogNormal_from_mean_cv_gen (unfixed : bool) (ln_f : float -> float) (mean cv : float) : gres :=
  if feq cv zero then
    if negb unfixed && negb (fge mean zero) then GErr "MeanTooSmall" else
    let mu := ln_f mean in
    unwrap (Normal_new mu zero)
  else
  if negb (fgt mean zero) then GErr "MeanTooSmall" else
  if negb (fge cv zero) then GErr "BadVariance" else
  let a := fadd one (fmul cv cv) in
  let mu := fmul half (ln_f (fdiv (fmul mean mean) a)) in
  let sigma := fsqrt (ln_f a) in
  Normal_new mu sigma.
Definition LogNormal_from_mean_cv := LogNormal_from_mean_cv_gen false.

(* exponential.rs *)
Definition Exp_new (lambda : float) : gres :=
  if f_is_sign_negative lambda || f_is_nan lambda then GErr "LambdaTooSmall" else GOk.

(* gamma.rs.  The `repr` selection contains two `Exp::new(..).unwrap()`. *)
Definition Gamma_new (shape scale : float) : gres :=
  if negb (fgt shape zero) then GErr "ShapeTooSmall" else
  if negb (fgt scale zero) then GErr "ScaleTooSmall" else
  if feq shape pinf || feq scale pinf then unwrap (Exp_new zero)
  else if feq shape one then unwrap (Exp_new (fdiv one scale))
  else GOk.

(* chi_squared.rs *)
Definition ChiSquared_new (k : float) : gres :=
  if feq k one then GOk else
  if negb (fgt (fmul half k) zero) then GErr "DoFTooSmall" else
  unwrap (Gamma_new (fmul half k) two).

(* student_t.rs: `ChiSquared::new(nu)?` *)
Definition StudentT_new (nu : float) : gres := ChiSquared_new nu.

(* fisher_f.rs *)
Definition map_err (r : gres) (v : string) : gres := match r with GErr _ => GErr v | _ => r end.
Definition FisherF_new (m n : float) : gres :=
  match map_err (ChiSquared_new m) "MTooSmall" with
  | GOk => map_err (ChiSquared_new n) "NTooSmall"
  | r => r
  end.

(* beta.rs: after the two tests only float arithmetic *)
Definition Beta_new (alpha beta : float) : gres :=
  if negb (fgt alpha zero) then GErr "AlphaTooSmall" else
  if negb (fgt beta zero) then GErr "BetaTooSmall" else GOk.

(* pert.rs *)
Definition Pert_with_mode (min max shape mode : float) : gres :=
  if negb (fgt max min) then GErr "RangeTooSmall" else
  if negb (fge mode min && fge max mode) then GErr "ModeRange" else
  if negb (fge shape zero) then GErr "ShapeTooSmall" else
  let range := fsub max min in
  let v := fadd one (fdiv (fmul shape (fsub mode min)) range) in
  let w := fadd one (fdiv (fmul shape (fsub max mode)) range) in
  map_err (Beta_new v w) "RangeTooSmall".
Definition Pert_implied_mode (min max shape mean : float) : float :=
  fdiv (fsub (fsub (fmul (fadd shape two) mean) min) max) shape.
Definition Pert_with_mean (min max shape mean : float) : gres :=
  Pert_with_mode min max shape (Pert_implied_mode min max shape mean).

(* triangular.rs *)
Definition Triangular_new (min max mode : float) : gres :=
  if negb (fge max min) then GErr "RangeTooSmall" else
  if negb (fge mode min && fge max mode) then GErr "ModeRange" else GOk.

(* cauchy.rs *)
Definition Cauchy_new (median scale : float) : gres :=
  if negb (fgt scale zero) then GErr "ScaleTooSmall" else GOk.

(* pareto.rs, weibull.rs *)
Definition Pareto_new (scale shape : float) : gres :=
  if negb (fgt scale zero) then GErr "ScaleTooSmall" else
  if negb (fgt shape zero) then GErr "ShapeTooSmall" else GOk.
Definition Weibull_new (scale shape : float) : gres :=
  if negb (fgt scale zero) then GErr "ScaleTooSmall" else
  if negb (fgt shape zero) then GErr "ShapeTooSmall" else GOk.

(* inverse_gaussian.rs *)
Definition InverseGaussian_new (mean shape : float) : gres :=
  if negb (fgt mean zero) then GErr "MeanNegativeOrNull" else
  if negb (fgt shape zero) then GErr "ShapeNegativeOrNull" else GOk.

(* gumbel.rs, frechet.rs *)
Definition Gumbel_new (location scale : float) : gres :=
  if fle scale zero || f_is_infinite scale || f_is_nan scale then GErr "ScaleNotPositive" else
  if f_is_infinite location || f_is_nan location then GErr "LocationNotFinite" else GOk.
Definition Frechet_new (location scale shape : float) : gres :=
  if fle scale zero || f_is_infinite scale || f_is_nan scale then GErr "ScaleNotPositive" else
  if fle shape zero || f_is_infinite shape || f_is_nan shape then GErr "ShapeNotPositive" else
  if f_is_infinite location || f_is_nan location then GErr "LocationNotFinite" else GOk.

(* skew_normal.rs *)
Definition SkewNormal_new (location scale shape : float) : gres :=
  if negb (f_is_finite scale) || negb (fgt scale zero) then GErr "ScaleTooSmall" else
  if negb (f_is_finite shape) then GErr "BadShape" else GOk.

(* normal_inverse_gaussian.rs *)
Definition NIG_mu (alpha beta : float) : float :=
  let r := fdiv beta alpha in
  let gamma := fmul alpha (fsqrt (fsub one (fmul r r))) in
  fdiv one gamma.
Definition NormalInverseGaussian_new (alpha beta : float) : gres :=
  if negb (fgt alpha zero) then GErr "AlphaNegativeOrNull" else
  if negb (flt (fabs beta) alpha) then GErr "AbsoluteBetaNotLessThanAlpha" else
  match InverseGaussian_new (NIG_mu alpha beta) one with
  | GOk => GOk
  | GErr v => if String.eqb v "MeanNegativeOrNull" then GErr "AlphaInfinite"
              else GPanic                                   (* ShapeNegativeOrNull => unreachable!() *)
  | GPanic => GPanic
  end.

(* poisson.rs.  KnuthMethod::new / RejectionMethod::new: float arithmetic and libm only. *)
Definition Poisson_new (lambda : float) : gres :=
  if negb (f_is_finite lambda) then GErr "NonFinite" else
  if negb (fgt lambda zero) then GErr "ShapeTooSmall" else
  if flt lambda twelve then GOk else
  if fgt lambda max_lambda then GErr "ShapeTooLarge" else GOk.

(* binomial.rs (f64 only in Rust; the model is format-generic).  n : u64 as Z.
   f64_to_u64 contains `assert!(x >= 0.0 && x < (u64::MAX as f64))`.                            *)
Definition u64_max : Z := 18446744073709551615.
Definition Binomial_new (n : Z) (p : float) : gres :=
  if negb (fge p zero) then GErr "ProbabilityTooSmall" else
  if negb (fle p one) then GErr "ProbabilityTooLarge" else
  if feq p zero then GOk else
  if feq p one then GOk else
  let flipped := fgt p half in
  let p := if flipped then fsub one p else p in
  let np := fmul (of_Z n) p in
  if flt np ten then GOk      (* BINV / Poisson(Knuth): float arithmetic, powf, exp only *)
  else
    let f_m := fadd np p in
    if fge f_m zero && flt f_m (of_Z u64_max) then GOk else GPanic.

(* geometric.rs (f64 only).  Validation only: the `while pi > 0.5 { k += 1; pi = pi * pi }` loop
   that follows on the Ok path is a termination question (C05) and is not modelled here
   (k : u64 cannot overflow before 2^64 iterations).                                             *)
Definition Geometric_new (p : float) : gres :=
  if negb (f_is_finite p) || negb (fle zero p && fle p one) then GErr "InvalidProbability" else GOk.

(* zeta.rs *)
Definition Zeta_new (s : float) : gres :=
  if negb (fgt s one) then GErr "STooSmall" else GOk.

(* zipf.rs.  powf_f, ln_f: libm parameters.  `debug_assert!(t > 0)` exists in debug builds only. *)
Definition Zipf_t (powf_f : float -> float -> float) (ln_f : float -> float) (n s : float) : float :=
  let q := if fne s one then fdiv one (fsub one s) else zero in
  if feq s pinf then one
  else if fne s one then fmul (fsub (powf_f n (fsub one s)) s) q
  else fadd one (ln_f n).
Definition Zipf_new_gen (debug : bool) (powf_f : float -> float -> float) (ln_f : float -> float)
                        (n s : float) : gres :=
  if negb (fge s zero) then GErr "STooSmall" else
  if negb (fge n one) then GErr "NTooSmall" else
  if f_is_infinite n && fle s one then GErr "IllDefined" else
  if debug && negb (fgt (Zipf_t powf_f ln_f n s) zero) then GPanic else GOk.
Definition Zipf_new := Zipf_new_gen true.

(* hypergeometric.rs (u64 arguments as Z, f64 arithmetic in Rust; format-generic here).
   FIXED version of `m` (fix of finding F2): all in floating point,
       m = ((k as f64 + 1.0) * (n1 as f64 + 1.0) / (n as f64 + 2.0)).floor()
   (the unfixed code computed `(k + 1) * (n1 + 1)` and `n + 2` in u64: overflow panic in debug
   builds for N >= u64::MAX - 1, e.g. new(u64::MAX, 5, 5)).
   Integer operations that can still overflow are modelled with debug-build semantics
   (overflow => GPanic) when `debug = true`, wrapping when `debug = false`:
     - `offset_x += n1 as i64 * sign_x`           (i64)
     - `(min_all + 1)..=max_all`                  (u64, in fraction_of_products_of_factorials)
   `x as i64` for u64 x wraps and never panics.                                                  *)
Definition as_i64 (x : Z) : Z := if x <? 9223372036854775808 then x else x - 18446744073709551616.
Definition in_i64 (x : Z) : bool := (-9223372036854775808 <=? x) && (x <=? 9223372036854775807).
Definition wrap_i64 (x : Z) : Z := as_i64 (x mod 18446744073709551616).

(* one iteration of the loop body of fraction_of_products_of_factorials, for index i *)
Definition fpf_step (min_top min_bottom max_top max_bottom : Z) (st : Z * float) : Z * float :=
  let '(i, r) := st in
  let fi := of_Z i in
  let r := if i <=? min_top then fmul r fi else r in
  let r := if i <=? min_bottom then fdiv r fi else r in
  let r := if i <=? max_top then fmul r fi else r in
  let r := if i <=? max_bottom then fdiv r fi else r in
  (i + 1, r).
(* None = more than `cap` iterations requested (model evaluation refused; the real code would run
   that many iterations);  Some None = overflow panic of `min_all + 1` in a debug build.
   In a release build min_all + 1 wraps to 0 and the loop runs 2^64 times.                      *)
Definition fraction_of_products_of_factorials (debug : bool) (cap : Z) (num den : Z * Z)
  : option (option float) :=
  let min_top := Z.min (fst num) (snd num) in
  let min_bottom := Z.min (fst den) (snd den) in
  let min_all := Z.min min_top min_bottom in
  let max_top := Z.max (fst num) (snd num) in
  let max_bottom := Z.max (fst den) (snd den) in
  let max_all := Z.max max_top max_bottom in
  if (min_all =? u64_max)%Z && debug then Some None else
  let start := (min_all + 1) mod 18446744073709551616 in
  let iters := if start <=? max_all then max_all - start + 1 else 0 in
  if iters >? cap then None else
  Some (Some (snd (Z.iter iters (fpf_step min_top min_bottom max_top max_bottom) (start, one)))).

Definition Hypergeometric_new_gen (debug : bool) (cap : Z) (N K n : Z) : option gres :=
  if K >? N then Some (GErr "ProbabilityTooLarge") else
  if n >? N then Some (GErr "SampleSizeTooLarge") else
  let without := N - K in
  let '(sign_x, offset_x, n1, n2) :=
     if K >? without then (-1, as_i64 n, without, K) else (1, 0, K, without) in
  let kk := if n <=? N / 2 then Some (n, offset_x)
            else let o := offset_x + as_i64 n1 * sign_x in   (* n1 <= N/2 < 2^63: product exact *)
                 if in_i64 o then Some (N - n, o)
                 else if debug then None else Some (N - n, wrap_i64 o) in
  match kk with
  | None => Some GPanic
  | Some (k, _) =>
    let m := ffloor (fdiv (fmul (fadd (of_Z k) one) (fadd (of_Z n1) one)) (fadd (of_Z N) two)) in
    if flt (fsub m (fmax zero (fsub (of_Z k) (of_Z n2)))) ten then
      let ip := if k <? n2 then fraction_of_products_of_factorials debug cap (n2, N - k) (N, n2 - k)
                else fraction_of_products_of_factorials debug cap (n1, k) (N, k - n2) in
      match ip with
      | None => None
      | Some None => Some GPanic
      | Some (Some initial_p) =>
        if fle initial_p zero || negb (f_is_finite initial_p)
        then Some (GErr "PopulationTooLarge") else Some GOk
      end
    else Some GOk       (* H2PE set-up: float arithmetic and libm only, no decision *)
  end.

(* multi/dirichlet.rs *)
Fixpoint Dirichlet_check (alpha : list float) : option string :=
  match alpha with
  | [] => None
  | ai :: rest =>
    if negb (fgt ai zero) then Some "AlphaTooSmall" else
    if f_is_infinite ai then Some "AlphaInfinite" else
    if negb (f_is_normal ai) then Some "AlphaSubnormal" else
    Dirichlet_check rest
  end.
(* alpha_rev_csum for l = alpha[1..]: element j is ((l[last] + l[last-1]) + ...) + l[j] *)
Fixpoint rev_csum (l : list float) : list float :=
  match l with
  | [] => []
  | [x] => [x]
  | x :: rest => match rev_csum rest with
                 | [] => [x]                       (* not reached: rest is nonempty *)
                 | (acc :: _) as r => fadd acc x :: r
                 end
  end.
Fixpoint all_ok (l : list gres) (err : string) : gres :=
  match l with
  | [] => GOk
  | GOk :: rest => all_ok rest err
  | GErr _ :: _ => GErr err
  | GPanic :: _ => GPanic
  end.
Definition DirichletFromBeta_new (alpha : list float) : gres :=
  let csum := rev_csum (tl alpha) in
  all_ok (map (fun ab => Beta_new (fst ab) (snd ab)) (combine (removelast alpha) csum)) "FailedToCreateBeta".
Definition DirichletFromGamma_new (alpha : list float) : gres :=
  all_ok (map (fun a => Gamma_new a one) alpha) "FailedToCreateGamma".
Definition Dirichlet_new (alpha : list float) : gres :=
  if (List.length alpha <? 2)%nat then GErr "AlphaTooShort" else
  match Dirichlet_check alpha with
  | Some v => GErr v
  | None =>
    if forallb (fun x => fle x c01) alpha then DirichletFromBeta_new alpha
    else DirichletFromGamma_new alpha
  end.

(* ============================================================================================ *)
(* Crude computable stand-ins for libm (EVALUATION ONLY; no theorem is about them).
   log2c x = (e - 1) + (2 f - 1)  for x = f * 2^e, f in [1/2, 1): piecewise-linear log2.
   exp2c z = (1 + (z - floor z)) * 2^(floor z): piecewise-linear 2^z.                          *)
Definition log2c (x : float) : float :=
  match x with
  | B754_nan => B754_nan
  | B754_zero _ => B754_infinity true
  | B754_infinity false => x
  | B754_infinity true => B754_nan
  | B754_finite true _ _ _ => B754_nan
  | B754_finite false _ _ _ =>
    let '(f, e) := BinarySingleNaN.Bfrexp x in
    fadd (of_Z (e - 1)) (fsub (fmul two f) one)
  end.
Definition ln2c : float := cdy 6243314768165359 (-53).   (* 0.6931471805599453 *)
Definition ln_standin (x : float) : float := fmul (log2c x) ln2c.
Definition exp2c (z : float) : float :=
  match z with
  | B754_nan => B754_nan
  | B754_infinity false => z
  | B754_infinity true => zero
  | _ =>
    let fl := ffloor z in
    let k := BinarySingleNaN.Btrunc fl in
    BinarySingleNaN.Bldexp mode_NE (fadd one (fsub z fl)) (Z.max (-100000) (Z.min 100000 k))
  end.
Definition powf_standin (x y : float) : float :=
  if feq y zero then one else
  if feq x one then one else
  exp2c (fmul y (log2c x)).

(* ============================================================================================ *)
(* Dispatcher.  dec : bit pattern -> float.  Wrong arity or unknown name: None.
   For "Hypergeometric::new", None is also returned when the factorial loop would need more than
   `hyper_cap` iterations (the real code would run that many; the harness must skip such tuples). *)
Definition hyper_cap : Z := 16384.
Variable dec : Z -> float.
Variable is64 : bool.     (* Binomial and Geometric exist for f64 only *)

Definition ap1 (f : float -> gres) (a : list Z) : option gres :=
  match a with [x] => Some (f (dec x)) | _ => None end.
Definition ap2 (f : float -> float -> gres) (a : list Z) : option gres :=
  match a with [x; y] => Some (f (dec x) (dec y)) | _ => None end.
Definition ap3 (f : float -> float -> float -> gres) (a : list Z) : option gres :=
  match a with [x; y; z] => Some (f (dec x) (dec y) (dec z)) | _ => None end.
Definition ap4 (f : float -> float -> float -> float -> gres) (a : list Z) : option gres :=
  match a with [x; y; z; w] => Some (f (dec x) (dec y) (dec z) (dec w)) | _ => None end.

Definition ctor_gen (debug : bool) (name : string) (a : list Z) : option gres :=
  if String.eqb name "Normal::new" then ap2 Normal_new a else
  if String.eqb name "Normal::from_mean_cv" then ap2 Normal_from_mean_cv a else
  if String.eqb name "LogNormal::new" then ap2 LogNormal_new a else
  if String.eqb name "LogNormal::from_mean_cv" then ap2 (LogNormal_from_mean_cv ln_standin) a else
  if String.eqb name "Exp::new" then ap1 Exp_new a else
  if String.eqb name "Gamma::new" then ap2 Gamma_new a else
  if String.eqb name "ChiSquared::new" then ap1 ChiSquared_new a else
  if String.eqb name "StudentT::new" then ap1 StudentT_new a else
  if String.eqb name "FisherF::new" then ap2 FisherF_new a else
  if String.eqb name "Beta::new" then ap2 Beta_new a else
  if String.eqb name "Pert::with_mode" then ap4 Pert_with_mode a else
  if String.eqb name "Pert::with_mean" then ap4 Pert_with_mean a else
  if String.eqb name "Triangular::new" then ap3 Triangular_new a else
  if String.eqb name "Cauchy::new" then ap2 Cauchy_new a else
  if String.eqb name "Pareto::new" then ap2 Pareto_new a else
  if String.eqb name "Weibull::new" then ap2 Weibull_new a else
  if String.eqb name "InverseGaussian::new" then ap2 InverseGaussian_new a else
  if String.eqb name "Gumbel::new" then ap2 Gumbel_new a else
  if String.eqb name "Frechet::new" then ap3 Frechet_new a else
  if String.eqb name "SkewNormal::new" then ap3 SkewNormal_new a else
  if String.eqb name "NormalInverseGaussian::new" then ap2 NormalInverseGaussian_new a else
  if String.eqb name "Poisson::new" then ap1 Poisson_new a else
  if String.eqb name "Binomial::new" then
    (if is64 then match a with [n; p] => Some (Binomial_new n (dec p)) | _ => None end else None) else
  if String.eqb name "Geometric::new" then (if is64 then ap1 Geometric_new a else None) else
  if String.eqb name "Zeta::new" then ap1 Zeta_new a else
  if String.eqb name "Zipf::new" then ap2 (Zipf_new_gen debug powf_standin ln_standin) a else
  if String.eqb name "Hypergeometric::new" then
    (if is64 then match a with [N; K; n] => Hypergeometric_new_gen debug hyper_cap N K n | _ => None end
     else None) else
  if String.eqb name "Dirichlet::new" then Some (Dirichlet_new (map dec a)) else
  None.

End Fmt.

(* ============================================================================================ *)
(* The two instances. *)
Definition Hp64 : Prec_gt_0 53 := eq_refl.
Definition Hpe64 : Prec_lt_emax 53 1024 := eq_refl.
Definition Hp32 : Prec_gt_0 24 := eq_refl.
Definition Hpe32 : Prec_lt_emax 24 128 := eq_refl.
Notation f64 := (BinarySingleNaN.binary_float 53 1024).
Notation f32 := (BinarySingleNaN.binary_float 24 128).

Definition dec64 (z : Z) : f64 := Binary.B2BSN 53 1024 (b64_of_bits z).
Definition dec32 (z : Z) : f32 := Binary.B2BSN 24 128 (b32_of_bits z).

(* debug-build semantics (debug_assert!, integer overflow checks) *)
Definition ctor64 (name : string) (args : list Z) : option gres :=
  ctor_gen 53 1024 Hp64 Hpe64 dec64 true true name args.
Definition ctor32 (name : string) (args : list Z) : option gres :=
  ctor_gen 24 128 Hp32 Hpe32 dec32 false true name args.
(* release-build semantics (no debug_assert!, wrapping integers) *)
Definition ctor64_release (name : string) (args : list Z) : option gres :=
  ctor_gen 53 1024 Hp64 Hpe64 dec64 true false name args.
Definition ctor32_release (name : string) (args : list Z) : option gres :=
  ctor_gen 24 128 Hp32 Hpe32 dec32 false false name args.
(* batch entry points for the harness *)
Definition ctor64_batch (l : list (string * list Z)) : list (option gres) :=
  map (fun p => ctor64 (fst p) (snd p)) l.
Definition ctor32_batch (l : list (string * list Z)) : list (option gres) :=
  map (fun p => ctor32 (fst p) (snd p)) l.
