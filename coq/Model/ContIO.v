(* Model/ContIO.v — correspondence entry points for sampler models: explore the model's decision
   tree with verified interval decisions and compare with what the real crate returned on the
   same parameter bits and RNG words.                                                        *)
From Coq Require Import ZArith List Bool.
From RD Require Import Base.Expr Base.Run Model.Sampler.
Import ListNotations.
Open Scope Z_scope.

Definition PREC := F.PtoP 80.
(* absolute error budget per operation: one smallest NORMAL number. Results in the subnormal range are underflow, which
   envelope E excludes; e.g. Beta's w = a*exp(v) overflows for tiny parameters and the crate returns exactly 0 where the
   ideal value is a subnormal. *)
Definition ceta (t : fty) : Z := match t with F32 => -126 | F64 => -1022 end.
Definition FORKS : nat := 4.

(* verdict codes: 0 = some explored path reproduces the crate (same number of words, value inside the
   rounding-inflated enclosure); 1 = no explored path does; 2 = not judged (undecidable comparisons beyond
   the fork budget, or an unbounded enclosure) *)
Definition judge_real (t : fty) (outs : list (outc (expr * list Z))) (nwords : Z) (rm re : Z) (count : Z) : Z :=
  let p := fprec t in let eta := ceta t in
  let chk (o : outc (expr * list Z)) : Z :=
    match o with
    | OVal (e, rest) =>
      if (nwords - Z.of_nat (length rest) =? count) then
        let i := evalI PREC p eta true e in
        if I.bounded i then (if inside PREC i rm re then 0 else 1) else 2
      else 1
    | OFail _ => 1
    | OAmb => 2
    end in
  let codes := map chk outs in
  if existsb (Z.eqb 0) codes then 0 else if existsb (Z.eqb 2) codes then 2 else 1.

Definition ccase (t : fty) (m : sampler expr) (words : list Z) (rm re count : Z) : Z :=
  judge_real t (interpI PREC (fprec t) (ceta t) (m words) FORKS) (Z.of_nat (length words)) rm re count.

(* integer-valued samplers: the value must be equal *)
Definition judge_int (outs : list (outc (Z * list Z))) (nwords : Z) (v count : Z) : Z :=
  let chk (o : outc (Z * list Z)) : Z :=
    match o with
    | OVal (x, rest) => if (nwords - Z.of_nat (length rest) =? count) && (x =? v) then 0 else 1
    | OFail _ => 1
    | OAmb => 2
    end in
  let codes := map chk outs in
  if existsb (Z.eqb 0) codes then 0 else if existsb (Z.eqb 2) codes then 2 else 1.

Definition icase (t : fty) (m : sampler Z) (words : list Z) (v count : Z) : Z :=
  judge_int (interpI PREC (fprec t) (ceta t) (m words) FORKS) (Z.of_nat (length words)) v count.

(* the same verdicts, plus 4 * (decision signature of the first reproducing path): coverage measurement only *)
Definition first_sig (codes : list (Z * Z)) : Z :=
  match find (fun cs => Z.eqb (fst cs) 0) codes with Some (_, s) => s | None => 0 end.
Definition ccaseS (t : fty) (m : sampler expr) (words : list Z) (rm re count : Z) : Z :=
  let outs := interpS PREC (fprec t) (ceta t) (m words) FORKS 0 in
  let p := fprec t in let eta := ceta t in
  let nwords := Z.of_nat (length words) in
  let chk (o : outc (expr * list Z)) : Z :=
    match o with
    | OVal (e, rest) =>
      if (nwords - Z.of_nat (length rest) =? count) then
        let i := evalI PREC p eta true e in
        if I.bounded i then (if inside PREC i rm re then 0 else 1) else 2
      else 1
    | OFail _ => 1
    | OAmb => 2
    end in
  let cs := map (fun os => (chk (fst os), snd os)) outs in
  judge_real t (map fst outs) nwords rm re count + 4 * first_sig cs.
Definition icaseS (t : fty) (m : sampler Z) (words : list Z) (v count : Z) : Z :=
  let outs := interpS PREC (fprec t) (ceta t) (m words) FORKS 0 in
  let nwords := Z.of_nat (length words) in
  let chk (o : outc (Z * list Z)) : Z :=
    match o with
    | OVal (x, rest) => if (nwords - Z.of_nat (length rest) =? count) && (x =? v) then 0 else 1
    | OFail _ => 1
    | OAmb => 2
    end in
  let cs := map (fun os => (chk (fst os), snd os)) outs in
  judge_int (map fst outs) nwords v count + 4 * first_sig cs.

(* diagnostics: the enclosures of all explored paths *)
Definition cshow (t : fty) (m : sampler expr) (words : list Z) : list (option (I.type * Z)) :=
  map (fun o => match o with
                | OVal (e, rest) => Some (evalI PREC (fprec t) (feta t) true e, Z.of_nat (length words - length rest))
                | _ => None end)
      (interpI PREC (fprec t) (feta t) (m words) FORKS).

(* the verdict part of ccaseS / icaseS is ccase / icase *)
Lemma ccaseS_verdict t m words rm re count :
  exists s, ccaseS t m words rm re count = ccase t m words rm re count + 4 * s.
Proof. unfold ccaseS, ccase. rewrite interpS_fst. eexists. reflexivity. Qed.
Lemma icaseS_verdict t m words v count :
  exists s, icaseS t m words v count = icase t m words v count + 4 * s.
Proof. unfold icaseS, icase. rewrite interpS_fst. eexists. reflexivity. Qed.
