(* Model/Multi.v — models of the vector-valued samplers of rand_distr: UnitCircle, UnitDisc,
   UnitSphere, UnitBall (src/unit_*.rs) and multi::Dirichlet (src/multi/dirichlet.rs), in the
   style of Model/Continuous.v: one expression node per rounded float operation of the code,
   loops with fuel and `sfail 2`.  A result is the list of the components' expressions.
   The last section is the checker used to compare a model with what the crate returned.
   Definitions only, no proofs (Proofs/MultiProofs.v).                                      *)
From Coq Require Import Reals ZArith List Bool.
From RD Require Import Base.Expr Base.Run Model.Sampler Model.Continuous Model.ContIO.
Import ListNotations.
Open Scope Z_scope.
Open Scope sampler_scope.

Local Notation "a +. b" := (Bin Add a b) (at level 50, left associativity).
Local Notation "a -. b" := (Bin Sub a b) (at level 50, left associativity).
Local Notation "a *. b" := (Bin Mul a b) (at level 40, left associativity).
Local Notation "a /. b" := (Bin Div a b) (at level 40, left associativity).

(* ---- Uniform::new(-1, 1) (rand 0.10 uniform_float.rs) ---------------------------------------
   value1_2 = (word >> discard).into_float_with_exponent(0) in [1,2), value0_1 = value1_2 - 1
   = k * 2^-52 (f64, k = top 52 bits) or k * 2^-23 (f32, k = top 23 bits of the high half),
   result = value0_1 * scale + low with scale = 1 - (-1) = 2, low = -1.  Both the product by 2
   and the sum with -1 are exact (k*2^-51 - 1 = (k - 2^51) * 2^-51, |k - 2^51| <= 2^51), hence
   one exact dyadic.                                                                          *)
Definition u_pm1 (t : fty) (w : Z) : expr :=
  match t with
  | F64 => Exact (Dy (w / 2^12 - 2^51) (-51))
  | F32 => Exact (Dy (hi32 w / 2^9 - 2^22) (-22))
  end.
Definition draw_pm1 (t : fty) : sampler expr := w <- next_word ;; sret (u_pm1 t w).

Definition two := num 2.

(* ---- unit_circle.rs:45-61 -------------------------------------------------------------------- *)
Definition circle_out (x1 x2 : expr) : list expr :=
  let sum := x1 *. x1 +. x2 *. x2 in
  let diff := x1 *. x1 -. x2 *. x2 in
  [diff /. sum; two *. x1 *. x2 /. sum].
Fixpoint unit_circle_loop (fuel : nat) (t : fty) : sampler (list expr) :=
  match fuel with
  | O => sfail 2
  | S f =>
    x1 <- draw_pm1 t ;; x2 <- draw_pm1 t ;;
    let sum := x1 *. x1 +. x2 *. x2 in
    (* `sum < 1 && sum > 0` (short-circuit): the origin is rejected like a point outside the disc *)
    b <- sask CLt sum one ;;
    p <- (if b then sask CGt sum (num 0) else sret false) ;;
    if p then sret (circle_out x1 x2) else unit_circle_loop f t
  end.
Definition unit_circle (t : fty) : sampler (list expr) := unit_circle_loop 64 t.

(* ---- unit_disc.rs:43-56 ----------------------------------------------------------------------- *)
Fixpoint unit_disc_loop (fuel : nat) (t : fty) : sampler (list expr) :=
  match fuel with
  | O => sfail 2
  | S f =>
    x1 <- draw_pm1 t ;; x2 <- draw_pm1 t ;;
    b <- sask CLe (x1 *. x1 +. x2 *. x2) one ;;
    if b then sret [x1; x2] else unit_disc_loop f t
  end.
Definition unit_disc (t : fty) : sampler (list expr) := unit_disc_loop 64 t.

(* ---- unit_sphere.rs:44-60 --------------------------------------------------------------------- *)
Definition sphere_out (x1 x2 : expr) : list expr :=
  let sum := x1 *. x1 +. x2 *. x2 in
  let factor := two *. esqrt (one -. sum) in
  [x1 *. factor; x2 *. factor; one -. two *. sum].
Fixpoint unit_sphere_loop (fuel : nat) (t : fty) : sampler (list expr) :=
  match fuel with
  | O => sfail 2
  | S f =>
    x1 <- draw_pm1 t ;; x2 <- draw_pm1 t ;;
    let sum := x1 *. x1 +. x2 *. x2 in
    b <- sask CGe sum one ;;
    if b then unit_sphere_loop f t else sret (sphere_out x1 x2)
  end.
Definition unit_sphere (t : fty) : sampler (list expr) := unit_sphere_loop 64 t.

(* ---- unit_ball.rs:44-60 ----------------------------------------------------------------------- *)
Fixpoint unit_ball_loop (fuel : nat) (t : fty) : sampler (list expr) :=
  match fuel with
  | O => sfail 2
  | S f =>
    x1 <- draw_pm1 t ;; x2 <- draw_pm1 t ;; x3 <- draw_pm1 t ;;
    b <- sask CLe (x1 *. x1 +. x2 *. x2 +. x3 *. x3) one ;;
    if b then sret [x1; x2; x3] else unit_ball_loop f t
  end.
Definition unit_ball (t : fty) : sampler (list expr) := unit_ball_loop 64 t.

(* ---- multi/dirichlet.rs ---------------------------------------------------------------------------
   Validation (Dirichlet::new, lines 289-303) is not part of the model: alpha is assumed accepted
   (length >= 2, every entry positive, finite and normal).                                          *)

(* `NumCast::from(0.1)` (line 305): the f64 literal 0.1, converted to F *)
Definition dir_threshold (t : fty) : Z * Z :=
  match t with F64 => (3602879701896397, -55) | F32 => (13421773, -27) end.
Definition dir_use_beta (t : fty) (alpha : list (Z * Z)) : bool :=
  forallb (fun a => dy_leb a (dir_threshold t)) alpha.

(* DirichletFromGamma (lines 77-90): s_i = Gamma(alpha_i, 1).sample, sum accumulated from the left
   starting at 0 — the first addition 0 + s_0 is exact but is kept as an ordinary (widened) node,
   which only enlarges the enclosure —, invacc = 1/sum, output s_i * invacc.
   dir_gammas returns the samples and the accumulated sum.                                          *)
Fixpoint dir_gammas (t : fty) (alpha : list (Z * Z)) (sum : expr) : sampler (list expr * expr) :=
  match alpha with
  | [] => sret ([], sum)
  | a :: r =>
    s <- gamma t a (1, 0) ;;
    '(l, tot) <- dir_gammas t r (sum +. s) ;;
    sret (s :: l, tot)
  end.
Definition dir_normalise (l : list expr) (sum : expr) : list expr :=
  let invacc := one /. sum in map (fun s => s *. invacc) l.
Definition dirichlet_gamma (t : fty) (alpha : list (Z * Z)) : sampler (list expr) :=
  '(l, sum) <- dir_gammas t alpha (num 0) ;; sret (dir_normalise l sum).

(* DirichletFromBeta::new (lines 130-134): alpha_rev_csum[n-2] = alpha[n-1],
   alpha_rev_csum[i] = alpha_rev_csum[i+1] + alpha[i+1] (FLOAT additions, in this order).
   suffix_sums [b_1; ..; b_m] = [((b_m + b_{m-1}) + ..) + b_1; ..; b_m + b_{m-1}; b_m].             *)
Fixpoint suffix_sums (l : list expr) : list expr :=
  match l with
  | [] => []
  | a :: r => match suffix_sums r with [] => [a] | c :: q => (c +. a) :: c :: q end
  end.
Definition rev_csum (alpha : list expr) : list expr := suffix_sums (tl alpha).

(* the same recursion on real numbers *)
Fixpoint suffix_sums_R (l : list R) : list R :=
  match l with
  | [] => []
  | a :: r => match suffix_sums_R r with [] => [a] | c :: q => (c + a)%R :: c :: q end
  end.
Definition rev_csum_R (alpha : list R) : list R := suffix_sums_R (tl alpha).

(* the parameters of the Beta samplers (lines 142-145): zip alpha[..n-1] with alpha_rev_csum *)
Definition beta_params (alpha : list expr) : list (expr * expr) := combine alpha (rev_csum alpha).

(* DirichletFromBeta::sample_to_slice (lines 163-174): stick breaking.  The second parameter of each
   Beta is a computed float, so the two decisions of Beta::new (a0 < b0, min > 1) are asked on the
   expressions, as in `pert`.  acc starts at 1: the first products 1 * beta, 1 * (1 - beta) are
   exact but kept as ordinary nodes.                                                                 *)
Definition beta_of (t : fty) (ab : expr * expr) : sampler expr :=
  let '(a, b) := ab in
  lt <- sask CLt a b ;;
  gt1 <- sask CGt (if lt then a else b) one ;;
  beta_e t lt gt1 a b.
Fixpoint dir_sticks (t : fty) (ab : list (expr * expr)) (acc : expr) : sampler (list expr) :=
  match ab with
  | [] => sret [acc]
  | p :: r =>
    bs <- beta_of t p ;;
    l <- dir_sticks t r (acc *. (one -. bs)) ;;
    sret ((acc *. bs) :: l)
  end.
Definition dirichlet_beta (t : fty) (alpha : list (Z * Z)) : sampler (list expr) :=
  dir_sticks t (beta_params (map dyx alpha)) one.

Definition dirichlet (t : fty) (alpha : list (Z * Z)) : sampler (list expr) :=
  if dir_use_beta t alpha then dirichlet_beta t alpha else dirichlet_gamma t alpha.

(* ---- correspondence with the crate for vector results ------------------------------------------------
   verdict codes as in ContIO.judge_real: 0 = some explored path consumed the same number of words,
   returned the same number of components and every component returned by the crate (a dyadic) lies
   inside the rounding-inflated enclosure of the model's component; 2 = not judged (undecidable beyond
   the fork budget / unbounded enclosure); 1 = no explored path reproduces the crate.                  *)
Section Judge.
Variable t : fty.
(* absolute error allowed per rounded operation: 2^eta.  The standard value is `feta t` (half the least
   subnormal); `fsub t` (the least NORMAL number) is only used to classify a disagreement as an
   intermediate overflow/underflow of the crate whose effect on the result is below the normal range. *)
Variable eta : Z.

Fixpoint judge_comps (es : list expr) (vals : list (Z * Z)) : Z :=
  match es, vals with
  | [], [] => 0
  | e :: es', (m, x) :: vals' =>
    let i := evalI PREC (fprec t) eta true e in
    let c := if I.bounded i then (if inside PREC i m x then 0 else 1) else 2 in
    let r := judge_comps es' vals' in
    if (c =? 1) || (r =? 1) then 1 else if (c =? 2) || (r =? 2) then 2 else 0
  | _, _ => 1
  end.

Definition judge_vec (outs : list (outc (list expr * list Z))) (nwords : Z)
           (vals : list (Z * Z)) (count : Z) : Z :=
  let chk (o : outc (list expr * list Z)) : Z :=
    match o with
    | OVal (es, rest) => if (nwords - Z.of_nat (length rest) =? count) then judge_comps es vals else 1
    | OFail _ => 1
    | OAmb => 2
    end in
  let codes := map chk outs in
  if existsb (Z.eqb 0) codes then 0 else if existsb (Z.eqb 2) codes then 2 else 1.

Definition mcase_eta (m : sampler (list expr)) (words : list Z) (vals : list (Z * Z)) (count : Z) : Z :=
  judge_vec (interpI PREC (fprec t) eta (m words) FORKS) (Z.of_nat (length words)) vals count.
End Judge.

Definition fsub (t : fty) : Z := match t with F32 => -126 | F64 => -1022 end.
Definition mcase (t : fty) (m : sampler (list expr)) (words : list Z) (vals : list (Z * Z)) (count : Z) : Z :=
  mcase_eta t (feta t) m words vals count.

(* diagnostics: the enclosures of all explored paths *)
Definition mshow (t : fty) (m : sampler (list expr)) (words : list Z) : list (option (list I.type * Z)) :=
  map (fun o => match o with
                | OVal (es, rest) => Some (map (evalI PREC (fprec t) (feta t) true) es,
                                           Z.of_nat (length words - length rest))
                | _ => None end)
      (interpI PREC (fprec t) (feta t) (m words) FORKS).
