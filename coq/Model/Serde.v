(* C15 model: serde derive(Serialize, Deserialize) conventions for a
   self-describing format (JSON-like, externally tagged enums), over a
   universe of type descriptions that a generator emits from the Rust source. *)
From Coq Require Import String ZArith List Bool.
Inductive tydesc :=
| TFloat (bits : Z)                 (* f32 / f64: bits = 32 | 64 *)
| TInt (signed : bool) (bits : Z)   (* u8..u128, usize (64), i8..i128 *)
| TBool
| TUnitStruct (name : string)
| TStruct (name : string) (fields : list (string * tydesc))
| TNewtype (name : string) (t : tydesc)                 (* struct Poisson<F>(Method<F>) : transparent *)
| TTupleStruct (name : string) (ts : list tydesc)
| TEnum (name : string) (variants : list (string * vshape))
| TSeq (t : tydesc)                                      (* Vec<T>, Box<[T]> *)
with vshape :=
| VUnit | VNewtype (t : tydesc) | VTuple (ts : list tydesc) | VStruct (fields : list (string * tydesc)).

Import ListNotations.
Open Scope Z_scope.

(* ------------------------------------------------------------------ *)
(* Values and documents                                                 *)
(* ------------------------------------------------------------------ *)

(* Universal value tree.
   - VFloat w p      : a float of width w (32|64) with IEEE bit pattern p
   - VIntv n         : any integer type, mathematical value n
   - VUnitv          : unit struct, and payload of a unit variant
   - VRecord fs      : named struct / struct-variant payload, fields in
                       DECLARATION order, carrying their names
   - VTup vs         : tuple struct / tuple-variant payload
   - VVariant n p    : enum value, variant name n, payload p
                       (VUnitv | inner value | VTup | VRecord)
   - VList vs        : Vec / boxed slice
   A newtype struct is transparent: its value is the inner value. *)
Inductive value :=
| VFloat (width : Z) (pattern : Z)
| VIntv (n : Z)
| VBoolv (b : bool)
| VUnitv
| VRecord (fields : list (string * value))
| VTup (vs : list value)
| VVariant (name : string) (payload : value)
| VList (vs : list value).

(* Self-describing document. Numbers are exact: an integer, or a finite
   float identified by its bit pattern. *)
Inductive doc :=
| DNull
| DBool (b : bool)
| DInt (n : Z)
| DFloat (pattern : Z)
| DStr (s : string)
| DArr (items : list doc)
| DMap (entries : list (string * doc)).

(* ------------------------------------------------------------------ *)
(* List combinators (the mapped function is a parameter OUTSIDE the fix, *)
(* so nested structural recursion through them is accepted)             *)
(* ------------------------------------------------------------------ *)
Section Combinators.
  Context {A B C : Type}.

  Definition zipw (f : A -> B -> C) : list A -> list B -> list C :=
    fix go (l : list A) (l' : list B) : list C :=
      match l, l' with
      | a :: r, b :: r' => f a b :: go r r'
      | _, _ => []
      end.

  Definition all2 (p : A -> B -> bool) : list A -> list B -> bool :=
    fix go (l : list A) (l' : list B) : bool :=
      match l, l' with
      | [], [] => true
      | a :: r, b :: r' => p a b && go r r'
      | _, _ => false
      end.

  Definition opt_zip (f : A -> B -> option C) : list A -> list B -> option (list C) :=
    fix go (l : list A) (l' : list B) : option (list C) :=
      match l, l' with
      | [], [] => Some []
      | a :: r, b :: r' =>
          match f a b with
          | Some c => match go r r' with Some cs => Some (c :: cs) | None => None end
          | None => None
          end
      | _, _ => None
      end.

  Definition opt_map (f : A -> option C) : list A -> option (list C) :=
    fix go (l : list A) : option (list C) :=
      match l with
      | [] => Some []
      | a :: r =>
          match f a with
          | Some c => match go r with Some cs => Some (c :: cs) | None => None end
          | None => None
          end
      end.

  (* first variant called [name]; continuation style so that the shape
     handed to [k] is visibly a subterm of the list *)
  Definition with_variant (name : string) (k : A -> C) (dflt : C)
    : list (string * A) -> C :=
    fix go (l : list (string * A)) : C :=
      match l with
      | [] => dflt
      | nv :: r => if String.eqb name (fst nv) then k (snd nv) else go r
      end.
End Combinators.

Fixpoint mem_str (s : string) (l : list string) : bool :=
  match l with
  | [] => false
  | x :: r => String.eqb s x || mem_str s r
  end.

Fixpoint nodupb (l : list string) : bool :=
  match l with
  | [] => true
  | x :: r => negb (mem_str x r) && nodupb r
  end.

(* entries of a map whose key is [k] *)
Definition entries_for {X : Type} (k : string) (m : list (string * X)) : list (string * X) :=
  filter (fun kv => String.eqb k (fst kv)) m.

(* ------------------------------------------------------------------ *)
(* Scalars                                                              *)
(* ------------------------------------------------------------------ *)
Definition float_width (w : Z) : bool := (w =? 32) || (w =? 64).

Definition pattern_in_range (w p : Z) : bool := (0 <=? p) && (p <? 2 ^ w).

(* exponent field not all ones *)
Definition finite_pattern (w p : Z) : bool :=
  if w =? 32 then negb ((p / 2 ^ 23) mod 2 ^ 8 =? 255)
  else if w =? 64 then negb ((p / 2 ^ 52) mod 2 ^ 11 =? 2047)
  else false.

Definition int_in_range (signed : bool) (bits n : Z) : bool :=
  if signed then (- 2 ^ (bits - 1) <=? n) && (n <? 2 ^ (bits - 1))
  else (0 <=? n) && (n <? 2 ^ bits).

(* ------------------------------------------------------------------ *)
(* Well-formed descriptions                                             *)
(* ------------------------------------------------------------------ *)
Fixpoint wf (d : tydesc) : bool :=
  match d with
  | TFloat _ | TInt _ _ | TBool | TUnitStruct _ => true
  | TStruct _ fs => nodupb (map fst fs) && forallb (fun ft => wf (snd ft)) fs
  | TNewtype _ t => wf t
  | TTupleStruct _ ts => forallb wf ts
  | TEnum _ vars => nodupb (map fst vars) && forallb (fun nv => wf_shape (snd nv)) vars
  | TSeq t => wf t
  end
with wf_shape (s : vshape) : bool :=
  match s with
  | VUnit => true
  | VNewtype t => wf t
  | VTuple ts => forallb wf ts
  | VStruct fs => nodupb (map fst fs) && forallb (fun ft => wf (snd ft)) fs
  end.

(* ------------------------------------------------------------------ *)
(* Typing of values                                                     *)
(* ------------------------------------------------------------------ *)
Fixpoint has_typeb (d : tydesc) (v : value) {struct d} : bool :=
  match d with
  | TFloat w =>
      match v with
      | VFloat w' p => (w =? w') && float_width w && pattern_in_range w p
      | _ => false
      end
  | TInt s b => match v with VIntv n => int_in_range s b n | _ => false end
  | TBool => match v with VBoolv _ => true | _ => false end
  | TUnitStruct _ => match v with VUnitv => true | _ => false end
  | TStruct _ fs =>
      match v with
      | VRecord vs =>
          all2 (fun ft fv => String.eqb (fst ft) (fst fv) && has_typeb (snd ft) (snd fv)) fs vs
      | _ => false
      end
  | TNewtype _ t => has_typeb t v
  | TTupleStruct _ ts => match v with VTup vs => all2 has_typeb ts vs | _ => false end
  | TEnum _ vars =>
      match v with
      | VVariant name p => with_variant name (fun sh => shape_typeb sh p) false vars
      | _ => false
      end
  | TSeq t => match v with VList vs => forallb (has_typeb t) vs | _ => false end
  end
with shape_typeb (s : vshape) (p : value) {struct s} : bool :=
  match s with
  | VUnit => match p with VUnitv => true | _ => false end
  | VNewtype t => has_typeb t p
  | VTuple ts => match p with VTup vs => all2 has_typeb ts vs | _ => false end
  | VStruct fs =>
      match p with
      | VRecord vs =>
          all2 (fun ft fv => String.eqb (fst ft) (fst fv) && has_typeb (snd ft) (snd fv)) fs vs
      | _ => false
      end
  end.

Definition has_type (d : tydesc) (v : value) : Prop := has_typeb d v = true.

(* every float inside the value is finite (exponent field not all ones) *)
Fixpoint finite_floatsb (v : value) : bool :=
  match v with
  | VFloat w p => finite_pattern w p
  | VIntv _ | VBoolv _ | VUnitv => true
  | VRecord fs => forallb (fun fv => finite_floatsb (snd fv)) fs
  | VTup vs => forallb finite_floatsb vs
  | VVariant _ p => finite_floatsb p
  | VList vs => forallb finite_floatsb vs
  end.

Definition finite_floats (v : value) : Prop := finite_floatsb v = true.

(* ------------------------------------------------------------------ *)
(* encode                                                               *)
(* ------------------------------------------------------------------ *)
Fixpoint encode (d : tydesc) (v : value) {struct d} : doc :=
  match d with
  | TFloat w =>
      match v with
      | VFloat _ p => if finite_pattern w p then DFloat p else DNull
      | _ => DNull
      end
  | TInt _ _ => match v with VIntv n => DInt n | _ => DNull end
  | TBool => match v with VBoolv b => DBool b | _ => DNull end
  | TUnitStruct _ => DNull
  | TStruct _ fs =>
      match v with
      | VRecord vs => DMap (zipw (fun ft fv => (fst ft, encode (snd ft) (snd fv))) fs vs)
      | _ => DNull
      end
  | TNewtype _ t => encode t v
  | TTupleStruct _ ts => match v with VTup vs => DArr (zipw encode ts vs) | _ => DNull end
  | TEnum _ vars =>
      match v with
      | VVariant name p =>
          with_variant name
            (fun sh => match sh with
                       | VUnit => DStr name
                       | _ => DMap [(name, encode_shape sh p)]
                       end) DNull vars
      | _ => DNull
      end
  | TSeq t => match v with VList vs => DArr (map (encode t) vs) | _ => DNull end
  end
with encode_shape (s : vshape) (p : value) {struct s} : doc :=
  match s with
  | VUnit => DNull
  | VNewtype t => encode t p
  | VTuple ts => match p with VTup vs => DArr (zipw encode ts vs) | _ => DNull end
  | VStruct fs =>
      match p with
      | VRecord vs => DMap (zipw (fun ft fv => (fst ft, encode (snd ft) (snd fv))) fs vs)
      | _ => DNull
      end
  end.

(* ------------------------------------------------------------------ *)
(* decode                                                               *)
(* ------------------------------------------------------------------ *)
(* one field: exactly one entry with that key (missing -> None, duplicate -> None) *)
Definition dec_field (dec : doc -> option value) (k : string) (m : list (string * doc))
  : option (string * value) :=
  match entries_for k m with
  | [kv] => match dec (snd kv) with Some v => Some (k, v) | None => None end
  | _ => None
  end.

Fixpoint decode (d : tydesc) (x : doc) {struct d} : option value :=
  match d with
  | TFloat w =>
      match x with
      | DFloat p =>
          if float_width w && pattern_in_range w p && finite_pattern w p
          then Some (VFloat w p) else None
      | _ => None
      end
  | TInt s b =>
      match x with
      | DInt n => if int_in_range s b n then Some (VIntv n) else None
      | _ => None
      end
  | TBool => match x with DBool b => Some (VBoolv b) | _ => None end
  | TUnitStruct _ => match x with DNull => Some VUnitv | _ => None end
  | TStruct _ fs =>
      match x with
      | DMap m =>
          match opt_map (fun ft => dec_field (decode (snd ft)) (fst ft) m) fs with
          | Some vs => Some (VRecord vs)
          | None => None
          end
      | _ => None
      end
  | TNewtype _ t => decode t x
  | TTupleStruct _ ts =>
      match x with
      | DArr xs => match opt_zip decode ts xs with Some vs => Some (VTup vs) | None => None end
      | _ => None
      end
  | TEnum _ vars =>
      match x with
      | DStr s =>
          with_variant s
            (fun sh => match sh with VUnit => Some (VVariant s VUnitv) | _ => None end)
            None vars
      | DMap [(s, y)] =>
          with_variant s
            (fun sh => match decode_shape sh y with
                       | Some p => Some (VVariant s p)
                       | None => None
                       end) None vars
      | _ => None
      end
  | TSeq t =>
      match x with
      | DArr xs => match opt_map (decode t) xs with Some vs => Some (VList vs) | None => None end
      | _ => None
      end
  end
with decode_shape (s : vshape) (y : doc) {struct s} : option value :=
  match s with
  | VUnit => match y with DNull => Some VUnitv | _ => None end
  | VNewtype t => decode t y
  | VTuple ts =>
      match y with
      | DArr ys => match opt_zip decode ts ys with Some vs => Some (VTup vs) | None => None end
      | _ => None
      end
  | VStruct fs =>
      match y with
      | DMap m =>
          match opt_map (fun ft => dec_field (decode (snd ft)) (fst ft) m) fs with
          | Some vs => Some (VRecord vs)
          | None => None
          end
      | _ => None
      end
  end.

(* ------------------------------------------------------------------ *)
(* Induction principle for the nested / mutual description type         *)
(* ------------------------------------------------------------------ *)
Section TydescInd.
  Variables (P : tydesc -> Prop) (Q : vshape -> Prop).
  Hypothesis HFloat : forall w, P (TFloat w).
  Hypothesis HInt : forall s b, P (TInt s b).
  Hypothesis HBool : P TBool.
  Hypothesis HUnitS : forall n, P (TUnitStruct n).
  Hypothesis HStruct : forall n fs, Forall (fun ft => P (snd ft)) fs -> P (TStruct n fs).
  Hypothesis HNewtype : forall n t, P t -> P (TNewtype n t).
  Hypothesis HTupleS : forall n ts, Forall P ts -> P (TTupleStruct n ts).
  Hypothesis HEnum : forall n vars, Forall (fun nv => Q (snd nv)) vars -> P (TEnum n vars).
  Hypothesis HSeq : forall t, P t -> P (TSeq t).
  Hypothesis HVUnit : Q VUnit.
  Hypothesis HVNewtype : forall t, P t -> Q (VNewtype t).
  Hypothesis HVTuple : forall ts, Forall P ts -> Q (VTuple ts).
  Hypothesis HVStruct : forall fs, Forall (fun ft => P (snd ft)) fs -> Q (VStruct fs).

  Fixpoint tydesc_ind' (d : tydesc) : P d :=
    match d with
    | TFloat w => HFloat w
    | TInt s b => HInt s b
    | TBool => HBool
    | TUnitStruct n => HUnitS n
    | TStruct n fs =>
        HStruct n fs
          ((fix go (l : list (string * tydesc)) : Forall (fun ft => P (snd ft)) l :=
              match l with
              | [] => Forall_nil _
              | ft :: r =>
                  Forall_cons ft
                    (let (f, t) as p return P (snd p) := ft in tydesc_ind' t) (go r)
              end) fs)
    | TNewtype n t => HNewtype n t (tydesc_ind' t)
    | TTupleStruct n ts =>
        HTupleS n ts
          ((fix go (l : list tydesc) : Forall P l :=
              match l with
              | [] => Forall_nil _
              | t :: r => Forall_cons t (tydesc_ind' t) (go r)
              end) ts)
    | TEnum n vars =>
        HEnum n vars
          ((fix go (l : list (string * vshape)) : Forall (fun nv => Q (snd nv)) l :=
              match l with
              | [] => Forall_nil _
              | nv :: r =>
                  Forall_cons nv
                    (let (f, s) as p return Q (snd p) := nv in vshape_ind' s) (go r)
              end) vars)
    | TSeq t => HSeq t (tydesc_ind' t)
    end
  with vshape_ind' (s : vshape) : Q s :=
    match s with
    | VUnit => HVUnit
    | VNewtype t => HVNewtype t (tydesc_ind' t)
    | VTuple ts =>
        HVTuple ts
          ((fix go (l : list tydesc) : Forall P l :=
              match l with
              | [] => Forall_nil _
              | t :: r => Forall_cons t (tydesc_ind' t) (go r)
              end) ts)
    | VStruct fs =>
        HVStruct fs
          ((fix go (l : list (string * tydesc)) : Forall (fun ft => P (snd ft)) l :=
              match l with
              | [] => Forall_nil _
              | ft :: r =>
                  Forall_cons ft
                    (let (f, t) as p return P (snd p) := ft in tydesc_ind' t) (go r)
              end) fs)
    end.

  Lemma tydesc_mutind' : (forall d, P d) /\ (forall s, Q s).
  Proof. split; [exact tydesc_ind' | exact vshape_ind']. Qed.
End TydescInd.
