(* Model/FloatWeights.v — executable Gallina models of the two weighted-index samplers of
   rand_distr for FLOAT weight types (f32, f64):
     (1) WeightedTreeIndex<f>   (src/weighted/weighted_tree.rs)
     (2) WeightedAliasIndex<f>  (src/weighted/weighted_alias.rs)
   and of the rand 0.10.2 float range samplers that feed them
     (rand-0.10.2/src/distr/uniform_float.rs: UniformFloat::{new, new_bounded, sample,
      sample_single, sample_single_inclusive}).
   Floats are Flocq `BinarySingleNaN.binary_float prec emax`; the section is generic in
   (prec, emax); binary32 = (24,128) and binary64 = (53,1024) are instantiated at the end,
   together with bit-pattern decoders/encoders.  NO PROOFS in this file.

   Rust semantics used:
     x > y, x >= y, x < y, x <= y, x == y   : false if either operand is NaN; -0.0 == 0.0
     +, -, *, / and the compound assignments : IEEE round-to-nearest-even (mode_NE)
     `Weight::checked_add_assign` for floats : `*self += *v; Ok(())` — never an error, hence
                                               `Error::Overflow` is unreachable for floats
     `n as f32` / `n as f64` for a u32 n     : round-to-nearest-even conversion
     iter().sum::<f32/f64>()                 : left fold of `+` starting from -0.0 (rustc 1.95)
     index out of bounds, failed `assert!`, `unwrap()` on Err, `random_range` on an empty
     range                                   : the distinct outcome `Panic`
   BinarySingleNaN has a single NaN; NaN payloads/signs are not modelled (they are never
   observable through comparisons, and every NaN weight is rejected).

   VALIDATION.  The entry points tio_run32/64 and aio_run32/64 at the end of this file were
   compared with the real code through the harness (/verif/build/harness-target/debug/rdh,
   `tree f32|f64 ...` and `alias f32|f64 ...` lines) on 4758 generated cases, 0 mismatches:
   4000 f32 trees of length 2..8 sampled with the all-ones word (15 of them panic in the real
   code; the model agrees case by case on panic / returned index, subtotals and gets),
   360 random new/push/pop/update/try_sample histories (f32 and f64, incl. NaN, +-0, +-inf,
   subnormal, MAX, out-of-range update indices) and 398 alias tables of length 0..70 (incl.
   > 32 weights for pairwise_sum, weights near MAX/n, zero sums, 4 sampled word lists each).
   Not exercised by any reachable input: the `decrease` branch of new_bounded (for low = 0.0
   the loop condition is never true, see Proofs/FloatWeightsAlias.v new_bounded_zero_low).

   RNG convention (as /verif/harness/src/rng.rs): a draw consumes one 64-bit word;
   `next_u32` is the HIGH half of the word, `next_u64` the whole word.                       *)
From Coq Require Import ZArith List Bool Arith Lia.
From Flocq Require Import Core.Core IEEE754.Binary IEEE754.Bits IEEE754.BinarySingleNaN.
From RD Require Import Model.Tree Model.Uniform.
Import ListNotations.
Open Scope Z_scope.

(* u32::MAX, the "empty list" sentinel of the alias construction *)
Definition FSENT : Z := 4294967295.

Definition getz (l : list Z) (i : nat) : Z := nth i l 0.
Fixpoint setz (l : list Z) (i : nat) (v : Z) : list Z :=
  match l, i with [], _ => [] | _ :: r, O => v :: r | x :: r, S i => x :: setz r i v end.

Section Fmt.
Variable prec emax : Z.
Context (Hp : Prec_gt_0 prec) (Hpe : Prec_lt_emax prec emax).
Notation float := (BinarySingleNaN.binary_float prec emax).

(* ---- Rust comparison operators on floats ---- *)
Definition fcmp (x y : float) : option comparison := BinarySingleNaN.Bcompare x y.
Definition fgt (x y : float) : bool := match fcmp x y with Some Gt => true | _ => false end.
Definition fge (x y : float) : bool := match fcmp x y with Some Gt | Some Eq => true | _ => false end.
Definition flt (x y : float) : bool := match fcmp x y with Some Lt => true | _ => false end.
Definition fle (x y : float) : bool := match fcmp x y with Some Lt | Some Eq => true | _ => false end.
Definition feq (x y : float) : bool := match fcmp x y with Some Eq => true | _ => false end.

(* ---- arithmetic ---- *)
Definition fadd (x y : float) : float := BinarySingleNaN.Bplus mode_NE x y.
Definition fsub (x y : float) : float := BinarySingleNaN.Bminus mode_NE x y.
Definition fmul (x y : float) : float := BinarySingleNaN.Bmult mode_NE x y.
Definition fdiv (x y : float) : float := BinarySingleNaN.Bdiv mode_NE x y.

(* ---- constants ---- *)
Definition fzero : float := B754_zero false.          (* 0.0 = W::ZERO *)
Definition fnzero : float := B754_zero true.          (* -0.0 *)
Definition fone : float := BinarySingleNaN.Bone.
Definition fmaxv : float := BinarySingleNaN.Bmax_float.   (* f::MAX *)
(* m * 2^e rounded to the format; used for `n as f` (e = 0) and for exactly representable
   dyadic constants *)
Definition fdy (m e : Z) : float :=
  BinarySingleNaN.binary_normalize prec emax Hp Hpe mode_NE m e false.
(* f::EPSILON = 2^-(prec-1) *)
Definition fepsilon : float := fdy 1 (- (prec - 1)).

Definition f_is_finite (x : float) : bool := BinarySingleNaN.is_finite x.
Definition f_is_nan (x : float) : bool := BinarySingleNaN.is_nan x.

(* ============================================================================================ *)
(* rand 0.10.2 uniform_float.rs                                                                 *)

(* `(rng.random::<uN>() >> bits_to_discard).into_float_with_exponent(0)` then `- 1.0`:
   the top prec-1 bits of the draw become the fraction of a float in [1,2); for f32 the draw is
   next_u32 = word >> 32 and the shift is 9, for f64 the draw is the word and the shift is 12;
   in both cases fraction = word >> (65 - prec).                                                *)
Definition frac_of_word (w : Z) : Z := w / 2 ^ (65 - prec).
Definition value1_2 (w : Z) : float := fdy (2 ^ (prec - 1) + frac_of_word w) (- (prec - 1)).
Definition value0_1 (w : Z) : float := fsub (value1_2 w) fone.

(* UniformFloat::sample_single_inclusive(low, high, rng), which is also what
   `sample_single` and hence `rng.random_range(low..high)` execute (there is NO rejection of
   `res >= high` in rand 0.10):
     debug build: non-finite low/high -> Err(NonFinite); !(low <= high) -> Err(EmptyRange);
     scale = high - low; non-finite scale -> Err(NonFinite); Ok(value0_1 * scale + low).
   `None` = Err.                                                                               *)
Definition sample_single_inclusive (low high : float) (w : Z) : option float :=
  if negb (f_is_finite low) || negb (f_is_finite high) then None else
  if negb (fle low high) then None else
  let scale := fsub high low in
  if negb (f_is_finite scale) then None else
  Some (fadd (fmul (value0_1 w) scale) low).

(* RngExt::random_range(low..high): assert!(!range.is_empty()) with is_empty = !(low < high),
   then sample_single(..).unwrap().  None = panic.                                             *)
Definition random_range (low high : float) (w : Z) : option float :=
  if negb (flt low high) then None else sample_single_inclusive low high w.

(* `decrease_masked`: from_bits(to_bits(scale) - 1).  For a strictly positive (finite or
   infinite) float this is the predecessor; it is only ever applied to such values (the mask
   `scale * max_rand + low > high` is false for scale = 0 when low < high).  For the other
   inputs the model has no transcription: None.                                                 *)
Definition decrease (x : float) : option float :=
  if fgt x fzero then Some (BinarySingleNaN.Bpred x) else None.

(* UniformFloat::new_bounded: reduce `scale` until scale * (1 - EPSILON) + low <= high.
   The fuel bounds the loop; None = fuel exhausted or `decrease` undefined.                     *)
Definition max_rand : float := fsub fone fepsilon.
Fixpoint new_bounded (fuel : nat) (low high scale : float) : option float :=
  match fuel with
  | O => None
  | S f =>
    if fgt (fadd (fmul scale max_rand) low) high then
      match decrease scale with None => None | Some s' => new_bounded f low high s' end
    else Some scale
  end.

(* UniformFloat::new(low, high) -> Result<UniformFloat{low, scale}>; None = Err / unwrap panic *)
Definition uniform_new (low high : float) : option (float * float) :=
  if negb (f_is_finite low) || negb (f_is_finite high) then None else
  if negb (flt low high) then None else
  let scale := fsub high low in
  if negb (f_is_finite scale) then None else
  match new_bounded 64 low high scale with
  | None => None
  | Some s => Some (low, s)
  end.

(* UniformFloat::sample: value0_1 * self.scale + self.low *)
Definition uniform_sample (u : float * float) (w : Z) : float :=
  fadd (fmul (value0_1 w) (snd u)) (fst u).

(* ============================================================================================ *)
(* (1) WeightedTreeIndex<f>; the state is the `subtotals` vector                               *)

Definition nthf (l : list float) (i : nat) : float := nth i l fzero.
(* `fn subtotal`: W::ZERO outside the vector *)
Definition fsubt (t : list float) (i : nat) : float :=
  if (i <? length t)%nat then nthf t i else fzero.
Fixpoint fupd (l : list float) (i : nat) (v : float) : list float :=
  match l, i with [], _ => [] | _ :: r, O => v :: r | x :: r, S i => x :: fupd r i v end.

(* `fn get`: w = subtotals[index]; w -= subtotal(left); w -= subtotal(right).
   `subtotals[index]` panics when index >= len: ftree_get_chk.                                  *)
Definition ftree_get (t : list float) (i : nat) : float :=
  fsub (fsub (nthf t i) (fsubt t (2*i+1))) (fsubt t (2*i+2)).
Definition ftree_get_chk (t : list float) (i : nat) : res float :=
  if (i <? length t)%nat then Ok (ftree_get t i) else Panic.

(* the proper ancestors of i, nearest first: the indices visited by
   `while index != 0 { index = (index - 1) / 2; ... }`.  par i < i, so fuel i is enough.        *)
Fixpoint anc_aux (fuel : nat) (i : nat) : list nat :=
  match fuel with
  | O => []
  | S f => match i with O => [] | S _ => par i :: anc_aux f (par i) end
  end.
Definition anc (i : nat) : list nat := anc_aux i i.

(* the ancestor walk with `subtotals[index] op= d` (op = + via checked_add_assign().unwrap(),
   which never fails for floats, or op = - via `-=`); does NOT touch node i itself               *)
Definition fclimb (op : float -> float -> float) (d : float) (t : list float) (i : nat) : list float :=
  fold_left (fun t p => fupd t p (op (nthf t p) d)) (anc i) t.

(* `new`: validation `!(w >= 0)` (true for NaN), then for i in (1..n).rev():
   subtotals[parent] += subtotals[i]  (never Overflow)                                          *)
Definition fvalid_w (w : float) : bool := fge w fzero.
Definition fnew_loop (idx : list nat) (t : list float) : list float :=
  fold_left (fun t i => fupd t (par i) (fadd (nthf t (par i)) (nthf t i))) idx t.
Definition ftree_new (ws : list float) : res (list float) :=
  if forallb fvalid_w ws
  then Ok (fnew_loop (rev (seq 1 (length ws - 1))) ws)
  else Err InvalidWeight.

Definition ftree_len (t : list float) : Z := Z.of_nat (length t).
Definition ftree_is_empty (t : list float) : bool := match t with [] => true | _ => false end.
(* `*weight > W::ZERO` on subtotals.first() *)
Definition ftree_is_valid (t : list float) : bool :=
  match t with [] => false | r :: _ => fgt r fzero end.

(* push: the `total.checked_add_assign(&weight).is_err()` test is always false for floats *)
Definition ftree_push (t : list float) (w : float) : res (list float) :=
  if negb (fvalid_w w) then Err InvalidWeight else
  Ok (fclimb fadd w (t ++ [w]) (length t)).

(* pop: (new state, popped) *)
Definition ftree_pop (t : list float) : list float * option float :=
  match rev t with
  | [] => ([], None)
  | w :: r => let t' := rev r in (fclimb fsub w t' (length t'), Some w)
  end.

(* update(index, weight) *)
Definition ftree_update (t : list float) (i : nat) (w : float) : res (list float) :=
  if negb (fvalid_w w) then Err InvalidWeight else
  match ftree_get_chk t i with
  | Panic => Panic
  | Err e => Err e
  | Ok old =>
    if fgt w old then
      let d := fsub w old in
      Ok (fclimb fadd d (fupd t i (fadd (nthf t i) d)) i)
    else if flt w old then
      let d := fsub old w in
      Ok (fclimb fsub d (fupd t i (fsub (nthf t i) d)) i)
    else Ok t
  end.

(* the descent loop of try_sample.  Every `continue` strictly increases `index`; once
   index >= len both child subtotals are 0.0.  None = fuel exhausted (the real loop would run
   until `2 * index + 1` overflows usize, a panic in a debug build).                            *)
Fixpoint fdescend (fuel : nat) (t : list float) (i : nat) (target : float) : option (nat * float) :=
  match fuel with
  | O => None
  | S f =>
    let l := fsubt t (2*i+1) in
    if flt target l then fdescend f t (2*i+1) target else
    let target := fsub target l in
    let r := fsubt t (2*i+2) in
    if flt target r then fdescend f t (2*i+2) target else
    Some (i, fsub target r)
  end.

(* try_sample after the target has been drawn *)
Definition ftree_sample_target (t : list float) (target : float) : res nat :=
  match fdescend (S (length t)) t 0 target with
  | None => Panic
  | Some (i, resid) =>
    (* assert!(target_weight >= W::ZERO); assert!(target_weight < self.get(index)) *)
    if negb (fge resid fzero) then Panic else
    match ftree_get_chk t i with
    | Ok g => if flt resid g then Ok i else Panic
    | _ => Panic
    end
  end.

(* total = subtotals.first() or 0.0; `total == 0.0` -> InsufficientNonZero (false for NaN) *)
Definition ftree_total (t : list float) : float := match t with [] => fzero | r :: _ => r end.

(* try_sample given the target float *)
Definition ftree_try_sample (t : list float) (target : float) : res nat :=
  if feq (ftree_total t) fzero then Err InsufficientNonZero else ftree_sample_target t target.

(* try_sample from the RNG word consumed by random_range(0.0..total); second component =
   number of words consumed                                                                      *)
Definition ftree_try_sample_word (t : list float) (w : Z) : res nat * Z :=
  let total := ftree_total t in
  if feq total fzero then (Err InsufficientNonZero, 0) else
  match random_range fzero total w with
  | None => (Panic, 0)   (* empty range (NaN or negative total): panics before drawing; +inf: after *)
  | Some target => (ftree_sample_target t target, 1)
  end.
Definition ftree_target_of_word (t : list float) (w : Z) : option float :=
  random_range fzero (ftree_total t) w.

(* ---- operation histories ---- *)
Inductive fop := FPush (w : float) | FPop | FUpdate (i : nat) (w : float).
Inductive fout := FUnit | FErr (e : werr) | FPopped (w : option float) | FPanic.

Definition fstep (t : list float) (o : fop) : list float * fout :=
  match o with
  | FPush w => match ftree_push t w with
               | Ok t' => (t', FUnit) | Err e => (t, FErr e) | Panic => (t, FPanic) end
  | FPop => let (t', w) := ftree_pop t in (t', FPopped w)
  | FUpdate i w => match ftree_update t i w with
                   | Ok t' => (t', FUnit) | Err e => (t, FErr e) | Panic => (t, FPanic) end
  end.
Definition frun (t : list float) (ops : list fop) : list float :=
  fold_left (fun s o => fst (fstep s o)) ops t.
Fixpoint fouts (t : list float) (ops : list fop) : list fout :=
  match ops with [] => [] | o :: r => snd (fstep t o) :: fouts (fst (fstep t o)) r end.

(* ============================================================================================ *)
(* (2) WeightedAliasIndex<f>                                                                    *)

Definition geto (l : list float) (i : nat) : float := nth i l fzero.
Definition seto := fupd.

(* AliasableWeight::sum = pairwise_sum: a plain left-to-right sum (from -0.0) for <= 32
   values, otherwise split at len/2 and add the two halves' sums.  Fuel = length suffices.      *)
Definition fsum_seq (l : list float) : float := fold_left fadd l fnzero.
Fixpoint pairwise_sum (fuel : nat) (l : list float) : float :=
  match fuel with
  | O => fsum_seq l
  | S f =>
    if (length l <=? 32)%nat then fsum_seq l else
    let mid := (length l / 2)%nat in
    fadd (pairwise_sum f (firstn mid l)) (pairwise_sum f (skipn mid l))
  end.

(* `if x > W::MAX { W::MAX } else { x }` *)
Definition fclamp (x : float) : float := if fgt x fmaxv then fmaxv else x.

Record fast := { fodds : list float; fal : list Z; fsmalls : list nat; fbigs : list nat }.

Definition fhead_or_sent (s : list nat) : Z := match s with [] => FSENT | h :: _ => Z.of_nat h end.
Definition fpush_small (s : fast) (i : nat) : fast :=
  {| fodds := fodds s; fal := setz (fal s) i (fhead_or_sent (fsmalls s));
     fsmalls := i :: fsmalls s; fbigs := fbigs s |}.
Definition fpush_big (s : fast) (i : nat) : fast :=
  {| fodds := fodds s; fal := setz (fal s) i (fhead_or_sent (fbigs s));
     fsmalls := fsmalls s; fbigs := i :: fbigs s |}.
(* `if odds < weight_sum { push_small } else { push_big }` *)
Definition fclassify (SS : float) (s : fast) (i : nat) : fast :=
  if flt (geto (fodds s) i) SS then fpush_small s i else fpush_big s i.

(* the pairing loop: each iteration pops one small and one big and pushes one index back, so
   #smalls + #bigs decreases by one; fuel >= #smalls + #bigs is enough.  None = out of fuel.    *)
Fixpoint fpair_loop (fuel : nat) (SS : float) (s : fast) : option fast :=
  match fsmalls s, fbigs s with
  | sm :: sr, b :: br =>
    match fuel with
    | O => None
    | S f =>
      let al1 := setz (fal s) sm (Z.of_nat b) in
      (* no_alias_odds[b] = no_alias_odds[b] - weight_sum + no_alias_odds[s] *)
      let nb := fadd (fsub (geto (fodds s) b) SS) (geto (fodds s) sm) in
      fpair_loop f SS (fclassify SS {| fodds := seto (fodds s) b nb; fal := al1;
                                       fsmalls := sr; fbigs := br |} b)
    end
  | _, _ => Some s
  end.

Definition fdrain (SS : float) (s : fast) : fast :=
  let o1 := fold_left (fun o i => seto o i SS) (fsmalls s) (fodds s) in
  let o2 := fold_left (fun o i => seto o i SS) (fbigs s) o1 in
  {| fodds := o2; fal := fal s; fsmalls := []; fbigs := [] |}.

(* aliases, no_alias_odds, weight_sum, uniform_within_weight_sum = (low, scale) *)
Record fatab := { ft_al : list Z; ft_odds : list float; ft_sum : float; ft_unif : float * float }.

Definition falias_nconv (ws : list float) : float := fdy (Z.of_nat (length ws)) 0.   (* n as f *)
Definition falias_maxw (ws : list float) : float := fdiv fmaxv (falias_nconv ws).  (* W::MAX / n *)
(* `W::ZERO <= w && w <= max_weight_size` *)
Definition falias_wok (mw w : float) : bool := fle fzero w && fle w mw.
Definition falias_sum (ws : list float) : float := fclamp (pairwise_sum (length ws) ws).

Definition falias_new (ws : list float) : res fatab :=
  let n := Z.of_nat (length ws) in
  if (n =? 0) || (FSENT <? n) then Err InvalidInput else
  let nc := falias_nconv ws in
  let mw := falias_maxw ws in
  if negb (forallb (falias_wok mw) ws) then Err InvalidWeight else
  let SS := falias_sum ws in
  if feq SS fzero then Err InsufficientNonZero else
  let o := map (fun w => fclamp (fmul w nc)) ws in
  let s0 := {| fodds := o; fal := map (fun _ => 0) ws; fsmalls := []; fbigs := [] |} in
  let s1 := fold_left (fclassify SS) (seq 0 (length ws)) s0 in
  match fpair_loop (length ws) SS s1 with
  | None => Panic
  | Some s2 =>
    let s3 := fdrain SS s2 in
    (* Uniform::new(W::ZERO, weight_sum).unwrap() *)
    match uniform_new fzero SS with
    | None => Panic
    | Some u => Ok {| ft_al := fal s3; ft_odds := fodds s3; ft_sum := SS; ft_unif := u |}
    end
  end.

(* sample given the column c and the threshold float r:
   `if r < no_alias_odds[c] { c } else { aliases[c] as usize }`                                 *)
Definition falias_pick (t : fatab) (c : nat) (r : float) : Z :=
  if flt r (geto (ft_odds t) c) then Z.of_nat c else getz (ft_al t) c.

(* the threshold drawn from one word *)
Definition falias_threshold (t : fatab) (w : Z) : float := uniform_sample (ft_unif t) w.

(* sample from RNG words: Uniform<u32>(0,n).sample (Lemire, Model/Uniform.v) then
   Uniform<f>(0,sum).sample; returns (index, words consumed)                                    *)
Definition falias_sample (t : fatab) (words : list Z) : option (Z * Z) :=
  let n := Z.of_nat (length (ft_al t)) in
  match lemire 8 B32 n words with
  | None => None
  | Some (c, r1) =>
    match r1 with
    | [] => None
    | w :: r2 => Some (falias_pick t (Z.to_nat c) (falias_threshold t w),
                       Z.of_nat (length words - length r2))
    end
  end.

(* weights(): index through aliases[j] panics when it is the sentinel *)
Definition falias_weights (t : fatab) : option (list float) :=
  let n := length (ft_al t) in
  let nc := fdy (Z.of_nat n) 0 in
  let contrib :=
    fold_left (fun acc j =>
      match acc with
      | None => None
      | Some c =>
        if flt (geto (ft_odds t) j) (ft_sum t) then
          let a := Z.to_nat (getz (ft_al t) j) in
          if (a <? n)%nat then
            Some (seto c a (fadd (geto c a) (fsub (ft_sum t) (geto (ft_odds t) j))))
          else None
        else Some c
      end) (seq 0 n) (Some (map (fun _ => fzero) (ft_al t))) in
  match contrib with
  | None => None
  | Some c => Some (map (fun j => fdiv (fadd (geto (ft_odds t) j) (geto c j)) nc) (seq 0 n))
  end.

End Fmt.
Arguments FPush {prec emax} w. Arguments FPop {prec emax}. Arguments FUpdate {prec emax} i w.
Arguments FUnit {prec emax}. Arguments FErr {prec emax} e. Arguments FPopped {prec emax} w.
Arguments FPanic {prec emax}.

(* ============================================================================================ *)
(* The two instances, decoders and encoders.                                                    *)
Definition FHp64 : Prec_gt_0 53 := eq_refl.
Definition FHpe64 : Prec_lt_emax 53 1024 := eq_refl.
Definition FHp32 : Prec_gt_0 24 := eq_refl.
Definition FHpe32 : Prec_lt_emax 24 128 := eq_refl.
Notation fl64 := (BinarySingleNaN.binary_float 53 1024).
Notation fl32 := (BinarySingleNaN.binary_float 24 128).

Definition fdec64 (z : Z) : fl64 := Binary.B2BSN 53 1024 (b64_of_bits z).
Definition fdec32 (z : Z) : fl32 := Binary.B2BSN 24 128 (b32_of_bits z).
(* NaN is printed as the default quiet NaN 0x7fc00000 / 0x7ff8000000000000 *)
Definition fenc64 (x : fl64) : Z := bits_of_b64 (Binary.BSN2B 53 1024 default_nan_pl64 x).
Definition fenc32 (x : fl32) : Z := bits_of_b32 (Binary.BSN2B 24 128 default_nan_pl32 x).

(* ---- printable outcomes ---- *)
Inductive pout :=
| POk                         (* ok *)
| PErr (e : werr)
| PSome (bits : Z) | PNone    (* pop *)
| PIdx (i : nat) (words : Z)  (* try_sample *)
| PPanic.

Section IO.
Variable prec emax : Z.
Context (Hp : Prec_gt_0 prec) (Hpe : Prec_lt_emax prec emax).
Variable dec : Z -> BinarySingleNaN.binary_float prec emax.
Variable enc : BinarySingleNaN.binary_float prec emax -> Z.

Inductive tio := TNew (ws : list Z) | TPush (w : Z) | TPop | TUpdate (i : nat) (w : Z) | TSample (word : Z).

(* one harness record: outcome, len, is_empty, is_valid, subtotals, gets *)
Definition tio_state (t : list (BinarySingleNaN.binary_float prec emax)) :=
  (Z.of_nat (length t), ftree_is_empty prec emax t, ftree_is_valid prec emax t, map enc t,
   map (fun i => enc (ftree_get prec emax Hp Hpe t i)) (seq 0 (length t))).

Definition tio_step (t : list (BinarySingleNaN.binary_float prec emax)) (o : tio) :=
  match o with
  | TNew ws => match ftree_new prec emax Hp Hpe (map dec ws) with
               | Ok t' => (t', POk) | Err e => (t, PErr e) | Panic => (t, PPanic) end
  | TPush w => match ftree_push prec emax Hp Hpe t (dec w) with
               | Ok t' => (t', POk) | Err e => (t, PErr e) | Panic => (t, PPanic) end
  | TPop => match ftree_pop prec emax Hp Hpe t with
            | (t', Some w) => (t', PSome (enc w)) | (t', None) => (t', PNone) end
  | TUpdate i w => match ftree_update prec emax Hp Hpe t i (dec w) with
                   | Ok t' => (t', POk) | Err e => (t, PErr e) | Panic => (t, PPanic) end
  | TSample w => match ftree_try_sample_word prec emax Hp Hpe t w with
                 | (Ok i, k) => (t, PIdx i k) | (Err e, _) => (t, PErr e) | (Panic, _) => (t, PPanic) end
  end.

Fixpoint tio_run (t : list (BinarySingleNaN.binary_float prec emax)) (ops : list tio) :=
  match ops with
  | [] => []
  | o :: r => let (t', out) := tio_step t o in (out, tio_state t') :: tio_run t' r
  end.

(* alias: result of new as printable table, weights(), and samples for the given word lists *)
Inductive aio :=
| AErr (e : werr) | APanic
| ATab (aliases : list Z) (odds : list Z) (weights : option (list Z)) (samples : list (option (Z * Z))).

Definition aio_run (ws : list Z) (samples : list (list Z)) : aio :=
  match falias_new prec emax Hp Hpe (map dec ws) with
  | Err e => AErr e
  | Panic => APanic
  | Ok t => ATab (ft_al prec emax t) (map enc (ft_odds prec emax t))
                 (option_map (map enc) (falias_weights prec emax Hp Hpe t))
                 (map (falias_sample prec emax Hp Hpe t) samples)
  end.
End IO.

Definition tio_run32 := tio_run 24 128 FHp32 FHpe32 fdec32 fenc32 [].
Definition tio_run64 := tio_run 53 1024 FHp64 FHpe64 fdec64 fenc64 [].
Definition aio_run32 := aio_run 24 128 FHp32 FHpe32 fdec32 fenc32.
Definition aio_run64 := aio_run 53 1024 FHp64 FHpe64 fdec64 fenc64.
