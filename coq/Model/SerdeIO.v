(* Model/SerdeIO.v — correspondence entry point for C15: the JSON tree the real crate produced must be
   decodable by the model's `decode` at the regenerated type description and re-encode to the same tree. *)
From Coq Require Import String ZArith List Bool.
From RD Require Import Model.Serde.
Import ListNotations.
Open Scope Z_scope.

Fixpoint doc_eqb (a b : doc) {struct a} : bool :=
  match a, b with
  | DNull, DNull => true
  | DBool x, DBool y => Bool.eqb x y
  | DInt x, DInt y => x =? y
  | DFloat x, DFloat y => x =? y
  | DStr x, DStr y => String.eqb x y
  | DArr xs, DArr ys =>
      (fix go (l : list doc) (r : list doc) {struct l} : bool :=
         match l, r with
         | [], [] => true
         | x :: l', y :: r' => doc_eqb x y && go l' r'
         | _, _ => false
         end) xs ys
  | DMap xs, DMap ys =>
      (fix go (l : list (string * doc)) (r : list (string * doc)) {struct l} : bool :=
         match l, r with
         | [], [] => true
         | (k, x) :: l', (k', y) :: r' => String.eqb k k' && doc_eqb x y && go l' r'
         | _, _ => false
         end) xs ys
  | _, _ => false
  end.

Fixpoint lookup_desc (name : string) (l : list (string * tydesc)) : option tydesc :=
  match l with [] => None | (k, d) :: r => if String.eqb k name then Some d else lookup_desc name r end.

(* 0 = the tree decodes at the description and re-encodes to itself; 1 = it does not; 3 = no description *)
Definition sercase (descs : list (string * tydesc)) (name : string) (x : doc) : Z :=
  match lookup_desc name descs with
  | None => 3
  | Some d =>
    match decode d x with
    | Some v => if doc_eqb (encode d v) x then 0 else 1
    | None => 1
    end
  end.
