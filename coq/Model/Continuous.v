(* Model/Continuous.v — ideal real-number models (decision trees over exact expressions) of the
   continuous samplers of rand_distr, transcribed operation by operation from src/*.rs so that
   every rounded float operation of the code is one node of the expression (Base/Expr.v widens
   each node by its rounding budget).  Parameters are exact dyadics (float bit patterns).
   No proofs in this file.                                                                     *)
From Coq Require Import ZArith List Bool.
From RD Require Import Base.Expr Base.Run Model.Sampler Gen.ZigTables.
Import ListNotations.
Open Scope Z_scope.
Open Scope sampler_scope.

Definition tab (l : list (Z * Z)) (i : nat) : expr := dyx (nth i l (0, 0)).
Definition erat := rat.
Local Notation "a +. b" := (Bin Add a b) (at level 50, left associativity).
Local Notation "a -. b" := (Bin Sub a b) (at level 50, left associativity).
Local Notation "a *. b" := (Bin Mul a b) (at level 40, left associativity).
Local Notation "a /. b" := (Bin Div a b) (at level 40, left associativity).
Definition eneg := Un Neg.
Definition one := num 1.
Definition rnd := Un Id.     (* an explicit rounding (float cast) *)

(* ---- ziggurat (utils.rs:62-96) ------------------------------------------------------------- *)
Fixpoint zig (fuel : nat) (sym : bool) (X Fv : list (Z * Z)) (pdf : expr -> expr)
             (zero_case : Z -> expr -> sampler expr) : sampler expr :=
  match fuel with
  | O => sfail 2
  | S f =>
    bits <- next_word ;;
    let i := Z.to_nat (bits mod 256) in
    let k := bits / 2^12 in
    (* (bits >> 12).into_float_with_exponent(1) - 3.0   /   …exponent(0) - (1 - EPSILON/2) : exact *)
    let um := if sym then k - 2^51 else 2 * k + 1 in
    let u := if sym then Exact (Dy um (-51)) else Exact (Dy um (-53)) in
    let x := u *. tab X i in
    let test := if sym then eabs x else x in
    b <- sask CLt test (tab X (S i)) ;;
    if b then sret x else
    if Nat.eqb i 0 then zero_case um u else
    w2 <- next_word ;;
    b2 <- sask CLt (tab Fv (S i) +. (tab Fv i -. tab Fv (S i)) *. u_std F64 w2) (pdf x) ;;
    if b2 then sret x else zig f sym X Fv pdf zero_case
  end.

(* normal.rs:62-90 *)
Definition norm_pdf (x : expr) : expr := eexp (eneg x *. x /. num 2).
Fixpoint norm_tail (fuel : nat) : sampler expr :=
  match fuel with
  | O => sfail 2
  | S f =>
    w1 <- next_word ;; w2 <- next_word ;;
    let x := eln (u_open F64 w1) /. dyx ZIG_NORM_R in
    let y := eln (u_open F64 w2) in
    b <- sask CLt (num (-2) *. y) (x *. x) ;;
    if b then norm_tail f else sret x
  end.
Definition norm_zero (um : Z) (u : expr) : sampler expr :=
  x <- norm_tail 64 ;;
  if um <? 0 then sret (x -. dyx ZIG_NORM_R) else sret (dyx ZIG_NORM_R -. x).
Definition std_normal64 : sampler expr := zig 64 true ZIG_NORM_X ZIG_NORM_F norm_pdf norm_zero.

(* exponential.rs:65-85 *)
Definition exp_pdf (x : expr) : expr := eexp (eneg x).
Definition exp_zero (um : Z) (u : expr) : sampler expr :=
  w <- next_word ;; sret (dyx ZIG_EXP_R -. eln (u_open F64 w)).
Definition exp1_64 : sampler expr := zig 64 false ZIG_EXP_X ZIG_EXP_F exp_pdf exp_zero.

(* f32: computed in f64 and cast *)
Definition std_normal (t : fty) : sampler expr :=
  match t with F64 => std_normal64 | F32 => x <- std_normal64 ;; sret (rnd x) end.
Definition exp1 (t : fty) : sampler expr :=
  match t with F64 => exp1_64 | F32 => x <- exp1_64 ;; sret (rnd x) end.

(* ---- Normal, LogNormal, Exp --------------------------------------------------------------------- *)
Definition normal (t : fty) (mean sd : Z * Z) : sampler expr :=
  z <- std_normal t ;; sret (dyx mean +. dyx sd *. z).
Definition lognormal (t : fty) (mu sigma : Z * Z) : sampler expr :=
  z <- std_normal t ;; sret (eexp (dyx mu +. dyx sigma *. z)).
Definition exp_lambda (t : fty) (lambda : Z * Z) : sampler expr :=
  z <- exp1 t ;; sret (z *. (one /. dyx lambda)).

(* ---- Gamma (gamma.rs) ----------------------------------------------------------------------------- *)
Fixpoint gamma_unscaled (fuel : nat) (t : fty) (c d : expr) : sampler expr :=
  match fuel with
  | O => sfail 2
  | S f =>
    x <- std_normal t ;;
    let v_cbrt := one +. c *. x in
    neg <- sask CLe v_cbrt (num 0) ;;
    if neg then gamma_unscaled f t c d else
    let v := v_cbrt *. v_cbrt *. v_cbrt in
    u <- draw_open t ;;
    let x_sqr := x *. x in
    b1 <- sask CLt u (one -. dec 331 4 *. x_sqr *. x_sqr) ;;
    if b1 then sret v else
    b2 <- sask CLt (eln u) (dec 5 1 *. x_sqr +. d *. (one -. v +. eln v)) ;;
    if b2 then sret v else gamma_unscaled f t c d
  end.
Definition gamma_large_consts (shape : expr) : expr * expr :=
  let d := shape -. rat 1 3 in (one /. esqrt (num 9 *. d), d).
Definition gamma (t : fty) (shape scale : Z * Z) : sampler expr :=
  if dy_eqb shape (1, 0) then
    z <- exp1 t ;; sret (z *. (one /. (one /. dyx scale)))
  else if dy_ltb shape (1, 0) then
    let '(c, d) := gamma_large_consts (dyx shape +. one) in
    u <- draw_open t ;;
    a <- gamma_unscaled 64 t c d ;;
    let b := epow u (one /. dyx shape) in
    sret ((a *. b *. d) *. dyx scale)
  else
    let '(c, d) := gamma_large_consts (dyx shape) in
    v <- gamma_unscaled 64 t c d ;; sret (v *. (d *. dyx scale)).

(* gamma with an already computed (rounded) shape expression: used by ChiSquared *)
Definition gamma_e (t : fty) (shape_lt1 shape_eq1 : bool) (shape scale : expr) : sampler expr :=
  if shape_eq1 then z <- exp1 t ;; sret (z *. (one /. (one /. scale)))
  else if shape_lt1 then
    let '(c, d) := gamma_large_consts (shape +. one) in
    u <- draw_open t ;; a <- gamma_unscaled 64 t c d ;;
    sret ((a *. epow u (one /. shape) *. d) *. scale)
  else
    let '(c, d) := gamma_large_consts shape in
    v <- gamma_unscaled 64 t c d ;; sret (v *. (d *. scale)).

(* chi_squared.rs: k == 1 -> N(0,1)^2, else Gamma(0.5*k, 2) (0.5*k is exact unless it underflows) *)
Definition chi_squared (t : fty) (k : Z * Z) : sampler expr :=
  if dy_eqb k (1, 0) then z <- std_normal t ;; sret (z *. z)
  else gamma_e t (dy_ltb k (2, 0)) (dy_eqb k (2, 0)) (Exact (Dy (fst k) (snd k - 1))) (num 2).

Definition student_t (t : fty) (nu : Z * Z) : sampler expr :=
  z <- std_normal t ;; c <- chi_squared t nu ;; sret (z *. esqrt (dyx nu /. c)).
Definition fisher_f (t : fty) (m n : Z * Z) : sampler expr :=
  a <- chi_squared t m ;; b <- chi_squared t n ;; sret (a /. b *. (dyx n /. dyx m)).

(* ---- Beta (beta.rs, Cheng BB / BC) ------------------------------------------------------------------ *)
Definition ln4 := eln (num 4).
Definition ln5 := eln (num 5).
Fixpoint beta_bb (fuel : nat) (t : fty) (a b alpha beta gamma : expr) : sampler expr :=
  match fuel with
  | O => sfail 2
  | S f =>
    u1 <- draw_open t ;; u2 <- draw_open t ;;
    let v := beta *. eln (u1 /. (one -. u1)) in
    let w := a *. eexp v in
    let z := u1 *. u1 *. u2 in
    let r := gamma *. v -. ln4 in
    let s := a +. r -. w in
    b2 <- sask CGe (s +. one +. ln5) (num 5 *. z) ;;
    if b2 then sret w else
    let tt := eln z in
    b3 <- sask CGe s tt ;;
    if b3 then sret w else
    b4 <- sask CLt (r +. alpha *. eln (alpha /. (b +. w))) tt ;;
    if negb b4 then sret w else beta_bb f t a b alpha beta gamma
  end.
Fixpoint beta_bc (fuel : nat) (t : fty) (a b alpha beta kappa1 kappa2 : expr) : sampler expr :=
  match fuel with
  | O => sfail 2
  | S f =>
    u1 <- draw_open t ;; u2 <- draw_open t ;;
    let step5 (z : expr) :=
      let v := beta *. eln (u1 /. (one -. u1)) in
      let w := a *. eexp v in
      b5 <- sask CLt (alpha *. (eln (alpha /. (b +. w)) +. v) -. ln4) (eln z) ;;
      if negb b5 then sret w else beta_bc f t a b alpha beta kappa1 kappa2 in
    lt <- sask CLt u1 (dec 5 1) ;;
    if lt then
      let y := u1 *. u2 in
      let z := u1 *. y in
      rej <- sask CGe (dec 25 2 *. u2 +. z -. y) kappa1 ;;
      if rej then beta_bc f t a b alpha beta kappa1 kappa2 else step5 z
    else
      let z := u1 *. u1 *. u2 in
      small <- sask CLe z (dec 25 2) ;;
      if small then
        let v := beta *. eln (u1 /. (one -. u1)) in sret (a *. eexp v)
      else
        rej <- sask CGe z kappa2 ;;
        if rej then beta_bc f t a b alpha beta kappa1 kappa2 else step5 z
  end.
(* beta with expression parameters; amin_gt1 etc. are decided by the caller *)
Definition beta_e (t : fty) (a0_lt_b0 : bool) (min_gt_1 : bool) (a0 b0 : expr) : sampler expr :=
  let '(a, b, sw) := if a0_lt_b0 then (a0, b0, false) else (b0, a0, true) in
  if min_gt_1 then
    let alpha := a +. b in
    let beta := esqrt ((alpha -. num 2) /. (num 2 *. a *. b -. alpha)) in
    let gamma := a +. one /. beta in
    w <- beta_bb 64 t a b alpha beta gamma ;;
    if negb sw then sret (w /. (b +. w)) else sret (b /. (b +. w))
  else
    let '(a, b, sw) := (b, a, negb sw) in
    let alpha := a +. b in
    let beta := one /. b in
    let delta := one +. a -. b in
    let kappa1 := delta *. (rat 1 18 /. num 4 +. rat 3 18 /. num 4 *. b) /. (a *. beta -. rat 14 18) in
    let kappa2 := dec 25 2 +. (dec 5 1 +. dec 25 2 /. delta) *. b in
    w <- beta_bc 64 t a b alpha beta kappa1 kappa2 ;;
    if negb sw then sret (w /. (b +. w)) else sret (b /. (b +. w)).
Definition beta (t : fty) (alpha beta : Z * Z) : sampler expr :=
  beta_e t (dy_ltb alpha beta) (dy_ltb (1, 0) (if dy_ltb alpha beta then alpha else beta)) (dyx alpha) (dyx beta).

(* pert.rs: Beta(v,w) * range + min; v and w are computed floats, so the BB/BC choice is an Ask *)
Definition pert (t : fty) (mn mx mode shape : Z * Z) : sampler expr :=
  let range := dyx mx -. dyx mn in
  let v := one +. dyx shape *. (dyx mode -. dyx mn) /. range in
  let w := one +. dyx shape *. (dyx mx -. dyx mode) /. range in
  lt <- sask CLt v w ;;
  gt1 <- sask CGt (if lt then v else w) one ;;
  b <- beta_e t lt gt1 v w ;;
  sret (b *. range +. dyx mn).

(* ---- single-draw inverse-CDF families --------------------------------------------------------------- *)
Definition triangular (t : fty) (mn mx mode : Z * Z) : sampler expr :=
  f <- draw_std t ;;
  let diff_mode_min := dyx mode -. dyx mn in
  let range := dyx mx -. dyx mn in
  let f_range := f *. range in
  lt <- sask CLt f_range diff_mode_min ;;
  if lt then sret (dyx mn +. esqrt (f_range *. diff_mode_min))
  else sret (dyx mx -. esqrt ((range -. f_range) *. (dyx mx -. dyx mode))).
Definition cauchy (t : fty) (median scale : Z * Z) : sampler expr :=
  x <- draw_std t ;; sret (dyx median +. dyx scale *. etan (Pi *. x)).
Definition pareto (t : fty) (scale shape : Z * Z) : sampler expr :=
  u <- draw_oc t ;; sret (dyx scale *. epow u (num (-1) /. dyx shape)).
Definition weibull (t : fty) (scale shape : Z * Z) : sampler expr :=
  x <- draw_oc t ;; sret (dyx scale *. epow (eneg (eln x)) (one /. dyx shape)).
Definition gumbel (t : fty) (loc scale : Z * Z) : sampler expr :=
  x <- draw_oc t ;; sret (dyx loc -. dyx scale *. eln (eneg (eln x))).
Definition frechet (t : fty) (loc scale shape : Z * Z) : sampler expr :=
  x <- draw_oc t ;; sret (dyx loc +. dyx scale *. epow (eneg (eln x)) (eneg (one /. dyx shape))).

(* ---- SkewNormal, InverseGaussian, NormalInverseGaussian ------------------------------------------------ *)
Definition skew_normal (t : fty) (loc scale shape : Z * Z) : sampler expr :=
  let lin (x : expr) := x *. dyx scale +. dyx loc in
  u1 <- std_normal t ;;
  if dy_eqb shape (0, 0) then sret (lin u1) else
  u2 <- std_normal t ;;
  gt <- sask CGt u1 u2 ;;
  let '(u, v) := if gt then (u1, u2) else (u2, u1) in
  if dy_eqb shape (-1, 0) then sret (lin v)
  else if dy_eqb shape (1, 0) then sret (lin u)
  else
    let sh := dyx shape in
    sret (lin (((one +. sh) *. u +. (one -. sh) *. v) /. (esqrt (one +. sh *. sh) *. esqrt (num 2)))).

Definition inverse_gaussian_e (t : fty) (mu l : expr) : sampler expr :=
  v <- std_normal t ;;
  let y := mu *. v *. v in
  let mu_2l := mu /. (num 2 *. l) in
  let x := mu +. mu_2l *. (y -. esqrt (num 4 *. l *. y +. y *. y)) in
  u <- draw_std t ;;
  le <- sask CLe u (mu /. (mu +. x)) ;;
  if le then sret x else sret (mu *. mu /. x).
Definition inverse_gaussian (t : fty) (mean shape : Z * Z) : sampler expr :=
  inverse_gaussian_e t (dyx mean) (dyx shape).
Definition nig (t : fty) (alpha beta : Z * Z) : sampler expr :=
  let r := dyx beta /. dyx alpha in
  let gamma := dyx alpha *. esqrt (one -. r *. r) in
  let mu := one /. gamma in
  ig <- inverse_gaussian_e t mu one ;;
  z <- std_normal t ;;
  sret (dyx beta *. ig +. esqrt ig *. z).
