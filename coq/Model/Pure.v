(* C14 model: sampling is a pure function of the distribution value and the RNG
   stream.  Everything is parametric in the distribution type D, the output type
   O, the parameter type P, the sampler and the constructor. *)
From Coq Require Import ZArith List Bool String.
Import ListNotations.
Open Scope Z_scope.

(* functional update of a nat-indexed store *)
Definition upd {A : Type} (f : nat -> A) (k : nat) (v : A) : nat -> A :=
  fun i => if Nat.eqb i k then v else f i.

Section Pure.
  Variables D O P : Type.
  (* an RNG is its remaining word list; None = stream exhausted; a successful
     sample returns the output and the unread rest of the stream *)
  Variable samp : D -> list Z -> option (O * list Z).
  (* construct a distribution object from its parameters *)
  Variable build : P -> option D.

  Record world := mkWorld { objs : nat -> D; streams : nat -> list Z }.

  (* pointwise equality of worlds (no functional extensionality needed) *)
  Definition world_eq (w w' : world) : Prop :=
    (forall i, objs w i = objs w' i) /\ (forall i, streams w i = streams w' i).

  Inductive op :=
  | OpSample (obj stream : nat)
  | OpClone (src dst : nat)              (* dst := copy of src *)
  | OpRebuild (obj : nat) (params : P)   (* obj := build params (no-op if build fails) *)
  | OpIter (obj stream n : nat).         (* sample_iter().take(n) *)

  (* one output, tagged with who produced it, from which stream, and how many
     words it consumed there (length before - length after) *)
  Record event := mkEvent { ev_obj : nat; ev_stream : nat; ev_out : O; ev_used : Z }.

  Definition used (ws r : list Z) : Z := Z.of_nat (List.length ws) - Z.of_nat (List.length r).

  (* n successive samples of d from ws; stops at exhaustion.
     Returns the outputs (with their consumption) and the final stream. *)
  Fixpoint sample_n (d : D) (ws : list Z) (n : nat) : list (O * Z) * list Z :=
    match n with
    | 0%nat => ([], ws)
    | S n' =>
        match samp d ws with
        | Some (o, r) =>
            let rest := sample_n d r n' in
            ((o, used ws r) :: fst rest, snd rest)
        | None => ([], ws)
        end
    end.

  (* a failed sample (stream exhausted) produces no output and changes nothing *)
  Definition step (w : world) (o : op) : world * list event :=
    match o with
    | OpSample k s =>
        match samp (objs w k) (streams w s) with
        | Some (out, r) =>
            (mkWorld (objs w) (upd (streams w) s r),
             [mkEvent k s out (used (streams w s) r)])
        | None => (w, [])
        end
    | OpClone src dst => (mkWorld (upd (objs w) dst (objs w src)) (streams w), [])
    | OpRebuild k p =>
        match build p with
        | Some d => (mkWorld (upd (objs w) k d) (streams w), [])
        | None => (w, [])
        end
    | OpIter k s n =>
        let r := sample_n (objs w k) (streams w s) n in
        (mkWorld (objs w) (upd (streams w) s (snd r)),
         map (fun oz => mkEvent k s (fst oz) (snd oz)) (fst r))
    end.

  Fixpoint run (w : world) (ops : list op) : world * list event :=
    match ops with
    | [] => (w, [])
    | o :: rest =>
        let s1 := step w o in
        let r := run (fst s1) rest in
        (fst r, snd s1 ++ snd r)
    end.

  Definition outputs (evs : list event) : list O := map ev_out evs.

  (* events of object k drawing from stream s *)
  Definition on_ks (k s : nat) (e : event) : bool :=
    Nat.eqb (ev_obj e) k && Nat.eqb (ev_stream e) s.

  (* projection of a history on (k, s): the samples of k from s, and the
     self-contained writes to k (rebuilds) *)
  Definition relevant (k s : nat) (o : op) : bool :=
    match o with
    | OpSample k' s' => Nat.eqb k' k && Nat.eqb s' s
    | OpIter k' s' _ => Nat.eqb k' k && Nat.eqb s' s
    | OpRebuild k' _ => Nat.eqb k' k
    | OpClone _ _ => false
    end.

  (* the operation leaves (k, s) alone unless it is an operation of k on s:
     nobody else draws from s, and k is not overwritten by a copy of another object *)
  Definition isolated (k s : nat) (o : op) : Prop :=
    match o with
    | OpSample k' s' => s' = s -> k' = k
    | OpIter k' s' _ => s' = s -> k' = k
    | OpClone src dst => dst = k -> src = k
    | OpRebuild _ _ => True
    end.

  Definition isolatedb (k s : nat) (o : op) : bool :=
    match o with
    | OpSample k' s' => negb (Nat.eqb s' s) || Nat.eqb k' k
    | OpIter k' s' _ => negb (Nat.eqb s' s) || Nat.eqb k' k
    | OpClone src dst => negb (Nat.eqb dst k) || Nat.eqb src k
    | OpRebuild _ _ => true
    end.

  (* only sampling operations *)
  Definition is_sampling (o : op) : bool :=
    match o with OpSample _ _ | OpIter _ _ _ => true | _ => false end.

  (* words consumed on stream s according to the event log *)
  Definition consumed_on (s : nat) (evs : list event) : Z :=
    fold_right (fun e acc => if Nat.eqb (ev_stream e) s then ev_used e + acc else acc) 0 evs.

  (* the sampler only ever returns a suffix of its input stream *)
  Definition suffix_ok : Prop :=
    forall d ws o r, samp d ws = Some (o, r) -> exists pre, ws = pre ++ r.
End Pure.

Arguments mkWorld {D} objs streams.
Arguments objs {D} w i.
Arguments streams {D} w i.
Arguments world_eq {D} w w'.
Arguments OpSample {P} obj stream.
Arguments OpClone {P} src dst.
Arguments OpRebuild {P} obj params.
Arguments OpIter {P} obj stream n.
Arguments mkEvent {O} ev_obj ev_stream ev_out ev_used.
Arguments ev_obj {O} e.
Arguments ev_stream {O} e.
Arguments ev_out {O} e.
Arguments ev_used {O} e.
Arguments sample_n {D O} samp d ws n.
Arguments step {D O P} samp build w o.
Arguments run {D O P} samp build w ops.
Arguments outputs {O} evs.
Arguments on_ks {O} k s e.
Arguments relevant {P} k s o.
Arguments isolated {P} k s o.
Arguments isolatedb {P} k s o.
Arguments is_sampling {P} o.
Arguments consumed_on {O} s evs.
Arguments suffix_ok {D O} samp.

(* ------------------------------------------------------------------ *)
(* Signature facts regenerated from the Rust source (Gen/Sigs.v passes  *)
(* them as arguments):                                                  *)
(*   forbid_unsafe : the crate has #![forbid(unsafe_code)]              *)
(*   recv_ok       : per sample/sample_iter/new method: receiver is     *)
(*                   &self or by-value Copy  (no &mut self)             *)
(*   bad_tokens    : (file, token) occurrences of interior mutability / *)
(*                   global state (Cell, RefCell, static mut, thread_local, *)
(*                   Atomic*, Mutex, ...) -- must be empty              *)
(*   statics       : (file, name, is_mutable)                           *)
(* ------------------------------------------------------------------ *)
Definition pure_sigs (forbid_unsafe : bool) (recv_ok : list bool)
           (bad_tokens : list (string * string))
           (statics : list (string * string * bool)) : bool :=
  forbid_unsafe
  && forallb (fun b : bool => b) recv_ok
  && (match bad_tokens with [] => true | _ :: _ => false end)
  && forallb (fun s : string * string * bool => negb (snd s)) statics.
