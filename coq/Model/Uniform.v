(* Model/Uniform.v — rand 0.10 integer range sampling as used by rand_distr
   (rand-0.10.2/src/distr/uniform_int.rs), over Z.  Words are 64-bit RNG outputs;
   `next_u32` is the high half of a word (harness convention).  No proofs here. *)
From Coq Require Import ZArith List Bool.
Import ListNotations.
Open Scope Z_scope.

Inductive sbits := B32 | B64 | B128.
Definition sbits_pow (b : sbits) : Z := match b with B32 => 2^32 | B64 => 2^64 | B128 => 2^128 end.

(* rng.random::<u32/u64/u128>() *)
Definition draw (b : sbits) (ws : list Z) : option (Z * list Z) :=
  match b, ws with
  | B32, w :: r => Some (w / 2^32, r)
  | B64, w :: r => Some (w, r)
  | B128, x :: y :: r => Some (y * 2^64 + x, r)
  | _, _ => None
  end.

(* UniformInt::sample_single_inclusive, default (biased) Canon variant, low = 0,
   range = high - low + 1 with 0 < range <= 2^bits - 1.  Returns (result, rest). *)
Definition canon (b : sbits) (range : Z) (ws : list Z) : option (Z * list Z) :=
  let M := sbits_pow b in
  match draw b ws with
  | None => None
  | Some (w1, r1) =>
    let m := w1 * range in
    let hi := m / M in
    let lo := m mod M in
    if (M - range) mod M <? lo then
      match draw b r1 with
      | None => None
      | Some (w2, r2) =>
        let new_hi := (w2 * range) / M in
        Some (hi + (if M <=? lo + new_hi then 1 else 0), r2)
      end
    else Some (hi, r1)
  end.

(* Lemire: UniformInt::sample with precomputed thresh = (2^bits - range) mod range;
   fuel bounds the rejection loop (Fail = None when the given words run out) *)
Fixpoint lemire (fuel : nat) (b : sbits) (range : Z) (ws : list Z) : option (Z * list Z) :=
  match fuel with
  | O => None
  | S f =>
    let M := sbits_pow b in
    match draw b ws with
    | None => None
    | Some (w, r) =>
      let m := w * range in
      if (M - range) mod range <=? m mod M then Some (m / M, r) else lemire f b range r
    end
  end.
