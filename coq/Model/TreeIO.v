(* Model/TreeIO.v — the harness-facing wrapper of Model/Tree.v: runs a history exactly
   as harness/src/tree.rs does and compares with the record the real crate printed. *)
From Coq Require Import ZArith List Bool Arith.
From RD Require Import Model.Tree Model.Uniform.
Import ListNotations.
Open Scope Z_scope.

Inductive hop := HNew (ws : list Z) | HPush (w : Z) | HPop | HUpdate (i : Z) (w : Z) | HSample (words : list Z).
Inductive hout := HOk | HErr (e : werr) | HSome (w : Z) | HNone | HPanic | HIdx (i : Z) (nwords : Z) | HErrN (e : werr) (nwords : Z).

Record hrec := { r_out : hout; r_len : Z; r_empty : bool; r_valid : bool; r_subs : list Z; r_gets : list Z }.

(* which sample type rand uses for the weight type; usize switches on the range *)
Inductive skind := SK32 | SK64 | SK128 | SKusize.
Definition sk_bits (k : skind) (range : Z) : sbits :=
  match k with SK32 => B32 | SK64 => B64 | SK128 => B128
             | SKusize => if 2^32 - 1 <? range then B64 else B32 end.

Definition werr_eqb (a b : werr) : bool :=
  match a, b with InvalidWeight, InvalidWeight | Overflow, Overflow
                | InsufficientNonZero, InsufficientNonZero | InvalidInput, InvalidInput => true | _, _ => false end.
Definition hout_eqb (a b : hout) : bool :=
  match a, b with
  | HOk, HOk | HNone, HNone | HPanic, HPanic => true
  | HErr x, HErr y => werr_eqb x y
  | HSome x, HSome y => x =? y
  | HIdx i n, HIdx j m => (i =? j) && (n =? m)
  | HErrN x n, HErrN y m => werr_eqb x y && (n =? m)
  | _, _ => false end.
Fixpoint zlist_eqb (a b : list Z) : bool :=
  match a, b with [] , [] => true | x :: r, y :: s => (x =? y) && zlist_eqb r s | _, _ => false end.
Definition hrec_eqb (a b : hrec) : bool :=
  hout_eqb (r_out a) (r_out b) && (r_len a =? r_len b) && Bool.eqb (r_empty a) (r_empty b) &&
  Bool.eqb (r_valid a) (r_valid b) && zlist_eqb (r_subs a) (r_subs b) && zlist_eqb (r_gets a) (r_gets b).

Definition mkrec (o : hout) (t : list Z) : hrec :=
  {| r_out := o; r_len := tree_len t; r_empty := tree_is_empty t; r_valid := tree_is_valid t;
     r_subs := t; r_gets := abs t |}.

Definition hsample (ty : wty) (k : skind) (t : list Z) (words : list Z) : hout :=
  match t with
  | [] => HErrN InsufficientNonZero 0
  | r :: _ =>
    if r =? 0 then HErrN InsufficientNonZero 0 else
    match canon (sk_bits k r) r words with
    | None => HPanic (* harness always supplies enough explicit words *)
    | Some (target, rest) =>
      match tree_try_sample ty t target with
      | Ok i => HIdx (Z.of_nat i) (Z.of_nat (length words - length rest))
      | Err e => HErrN e (Z.of_nat (length words - length rest))
      | Panic => HPanic
      end
    end
  end.

Definition hstep (ty : wty) (k : skind) (t : list Z) (o : hop) : list Z * hrec :=
  match o with
  | HNew ws => match tree_new ty ws with
               | Ok t' => (t', mkrec HOk t') | Err e => (t, mkrec (HErr e) t) | Panic => (t, mkrec HPanic t) end
  | HPush w => match tree_push ty t w with
               | Ok t' => (t', mkrec HOk t') | Err e => (t, mkrec (HErr e) t) | Panic => (t, mkrec HPanic t) end
  | HPop => match tree_pop ty t with
            | Ok (t', Some w) => (t', mkrec (HSome w) t') | Ok (t', None) => (t', mkrec HNone t')
            | Err e => (t, mkrec (HErr e) t) | Panic => (t, mkrec HPanic t) end
  | HUpdate i w => match tree_update ty t (Z.to_nat i) w with
                   | Ok t' => (t', mkrec HOk t') | Err e => (t, mkrec (HErr e) t) | Panic => (t, mkrec HPanic t) end
  | HSample words => (t, mkrec (hsample ty k t words) t)
  end.

Fixpoint hrun (ty : wty) (k : skind) (t : list Z) (ops : list hop) : list hrec :=
  match ops with [] => [] | o :: r => let (t', rc) := hstep ty k t o in rc :: hrun ty k t' r end.

Fixpoint recs_eqb (a b : list hrec) : bool :=
  match a, b with [], [] => true | x :: r, y :: s => hrec_eqb x y && recs_eqb r s | _, _ => false end.

(* one correspondence case: history and what the real crate printed *)
Definition tcase (ty : wty) (k : skind) (ops : list hop) (expected : list hrec) : bool :=
  recs_eqb (hrun ty k [] ops) expected.

(* indices of failing cases *)
Fixpoint failing (n : Z) (l : list bool) : list Z :=
  match l with [] => [] | b :: r => if b then failing (n+1) r else n :: failing (n+1) r end.

Definition mk (lo hi : Z) : wty := {| wlo := lo; whi := hi |}.
