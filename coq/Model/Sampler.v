(* Model/Sampler.v — the state-and-decision monad in which sampler models are written:
   a sampler consumes 64-bit RNG words (a list, head first) and yields a decision tree
   (Base/Run.v) whose leaves carry the result and the unread words.                     *)
From Coq Require Import ZArith List Bool.
From RD Require Import Base.Expr Base.Run.
Import ListNotations.
Open Scope Z_scope.

Definition sampler (A : Type) : Type := list Z -> run (A * list Z).

Definition sret {A} (a : A) : sampler A := fun ws => Ret (a, ws).
Definition sbind {A B} (m : sampler A) (f : A -> sampler B) : sampler B :=
  fun ws => bind (m ws) (fun '(a, ws') => f a ws').
Definition sfail {A} (code : Z) : sampler A := fun _ => Fail code.
(* failure codes: 1 = explicit words exhausted, 2 = loop fuel exhausted, 3 = panic in the code,
   4 = value undefined in the ideal model *)
Definition next_word : sampler Z := fun ws => match ws with [] => Fail 1 | w :: r => Ret (w, r) end.
Definition sask (c : cmpop) (a b : expr) : sampler bool := fun ws => Ask c a b (fun t => Ret (t, ws)).
Definition sfloor (e : expr) : sampler Z := fun ws => AskFloor e (fun z => Ret (z, ws)).

Declare Scope sampler_scope.
Delimit Scope sampler_scope with sampler.
Notation "x <- m ;; k" := (sbind m (fun x => k)) (at level 61, m at next level, right associativity) : sampler_scope.
Notation "' pat <- m ;; k" := (sbind m (fun pat => k)) (at level 61, pat pattern, m at next level, right associativity) : sampler_scope.

(* ---- float types and uniform draws (rand 0.10 float.rs; all conversions are exact) -------- *)
Inductive fty := F32 | F64.
Definition fprec (t : fty) : Z := match t with F32 => 24 | F64 => 53 end.
Definition feta (t : fty) : Z := match t with F32 => -149 | F64 => -1074 end.

Definition hi32 (w : Z) : Z := w / 2^32.
(* StandardUniform: [0,1) *)
Definition u_std (t : fty) (w : Z) : expr :=
  match t with F64 => Exact (Dy (w / 2^11) (-53)) | F32 => Exact (Dy (hi32 w / 2^8) (-24)) end.
(* OpenClosed01: (0,1] *)
Definition u_oc (t : fty) (w : Z) : expr :=
  match t with F64 => Exact (Dy (w / 2^11 + 1) (-53)) | F32 => Exact (Dy (hi32 w / 2^8 + 1) (-24)) end.
(* Open01: (0,1) *)
Definition u_open (t : fty) (w : Z) : expr :=
  match t with F64 => Exact (Dy (2 * (w / 2^12) + 1) (-53)) | F32 => Exact (Dy (2 * (hi32 w / 2^9) + 1) (-24)) end.

Definition draw_std (t : fty) : sampler expr := (w <- next_word ;; sret (u_std t w))%sampler.
Definition draw_oc (t : fty) : sampler expr := (w <- next_word ;; sret (u_oc t w))%sampler.
Definition draw_open (t : fty) : sampler expr := (w <- next_word ;; sret (u_open t w))%sampler.

(* ---- expression shorthands ---------------------------------------------------------------- *)
Definition num (n : Z) : expr := Dy n 0.
Definition dyx (q : Z * Z) : expr := Dy (fst q) (snd q).
Definition rat (a b : Z) : expr := Bin Div (num a) (num b).
(* a decimal constant of the source, d / 10^k, as the implementation holds it: ONE rounding *)
Definition dec (d k : Z) : expr := Bin Div (num d) (num (10 ^ k)).
Declare Scope expr_scope.
Delimit Scope expr_scope with E.
Infix "+" := (Bin Add) : expr_scope.
Infix "-" := (Bin Sub) : expr_scope.
Infix "*" := (Bin Mul) : expr_scope.
Infix "/" := (Bin Div) : expr_scope.
Notation "- x" := (Un Neg x) : expr_scope.
Definition eln := Un Ln. Definition eexp := Un Exp. Definition esqrt := Un Sqrt. Definition eabs := Un Abs.
Definition epow := Bin Pow. Definition etan := Un Tan. Definition efloor := Un Floor.

(* exact comparison of dyadic parameters (parameters are float bit patterns: no rounding) *)
Definition dy_cmp (a b : Z * Z) : comparison :=
  let e := Z.min (snd a) (snd b) in
  Z.compare (fst a * 2 ^ (snd a - e)) (fst b * 2 ^ (snd b - e)).
Definition dy_ltb a b := match dy_cmp a b with Lt => true | _ => false end.
Definition dy_leb a b := match dy_cmp a b with Gt => false | _ => true end.
Definition dy_eqb a b := match dy_cmp a b with Eq => true | _ => false end.
