(* Model/Discrete.v — ideal real-number models (decision trees over exact expressions) of the
   discrete samplers of rand_distr: StandardGeometric, Geometric, Zeta, Zipf, Poisson, Binomial,
   Hypergeometric.  Transcribed operation by operation from src/*.rs in the style of
   Model/Continuous.v: every rounded float operation of the code is one node of the expression,
   in the association order of the source; integer arithmetic stays in Z; float -> integer
   conversions go through `sfloor`.  Constructors (`new`) are part of the sampler models.
   Parameters are exact (integers as Z, floats as dyadic pairs).  No proofs in this file.

   Conventions / approximations (all validated against the crate through Model/ContIO.icase):
   - `x as f64` for an integer x is exact when |x| <= 2^53 (`zf`), one rounding otherwise.
   - `1.0 - p == 1.0` for an exact parameter p in [0,1] holds iff p <= 2^-54 (round to nearest
     even); this float test is modelled by that exact dyadic comparison (`rounds_to_one`).
   - comparisons of a parameter with an inexact source constant (2/3, ...) are `sask`s on the
     ideal constant: the interval semantics forks when the parameter is within rounding of it.
   - `powi` is the square-and-multiply loop of compiler-rt's __powidf2 (one node per product;
     the initial `1.0 * a` is exact and carries no node).
   - rand's `Uniform::new(0.0, high)`: scale = high - 0.0 = high is exact and the adjusting loop of
     `new_bounded` never fires for low = 0 (scale * (1 - eps) + 0 <= high); a sample is
     `value0_1 * scale + 0.0` with value0_1 = (w >> 12) * 2^-52 exact: ONE rounded product
     (the addition of 0.0 is exact and carries no node).
   - results held in a float (Poisson, Zeta, Zipf) are returned as the integer they hold; Zeta
     returns -1 when the code returns +infinity.
   - non-finite parameters (s = inf, n = inf for Zipf) are outside the model.               *)
From Coq Require Import ZArith List Bool.
From RD Require Import Base.Expr Base.Run Model.Sampler Model.Continuous.
Import ListNotations.
Open Scope Z_scope.
Open Scope sampler_scope.

Local Notation "a +. b" := (Bin Add a b) (at level 50, left associativity).
Local Notation "a -. b" := (Bin Sub a b) (at level 50, left associativity).
Local Notation "a *. b" := (Bin Mul a b) (at level 40, left associativity).
Local Notation "a /. b" := (Bin Div a b) (at level 40, left associativity).

Definition half : expr := Dy 1 (-1).
(* integer -> f64 cast *)
Definition zf (k : Z) : expr := if Z.abs k <=? 2^53 then num k else rnd (num k).
(* an inexact f64 source constant converted with F::from: a second rounding for f32 *)
Definition cst (t : fty) (e : expr) : expr := match t with F64 => e | F32 => rnd e end.
(* 1.0 - p == 1.0 in binary64 for an exact p in [0,1] *)
Definition rounds_to_one (p : Z * Z) : bool := dy_leb p (1, -54).
Definition U64MAX : Z := 2^64 - 1.

(* compiler-rt __powidf2 for b >= 0: r = 1; loop { if b&1 { r *= a }; b /= 2; if b == 0 break; a *= a } *)
Fixpoint powi_aux (fuel : nat) (a : expr) (r : option expr) (b : Z) : expr :=
  match fuel with
  | O => one
  | S f =>
    let r' := if Z.odd b then Some (match r with None => a | Some r0 => r0 *. a end) else r in
    let b' := b / 2 in
    if b' =? 0 then match r' with None => one | Some r0 => r0 end
    else powi_aux f (a *. a) r' b'
  end.
Definition powi (a : expr) (b : Z) : expr := powi_aux 64 a None b.

(* ---- StandardGeometric (geometric.rs:189-201) ------------------------------------------------ *)
Definition leading_zeros64 (w : Z) : Z := if w <=? 0 then 64 else 63 - Z.log2 w.
Fixpoint std_geometric_loop (fuel : nat) (result : Z) : sampler Z :=
  match fuel with
  | O => sfail 2
  | S f =>
    w <- next_word ;;
    let x := leading_zeros64 w in
    let result := result + x in
    if x <? 64 then sret result else std_geometric_loop f result
  end.
Definition std_geometric : sampler Z := std_geometric_loop 64 0.

(* ---- Geometric (geometric.rs:78-158) ------------------------------------------------------------ *)
(* new: k = 1; pi = pi*pi; while pi > 0.5 { k += 1; pi = pi*pi } *)
Fixpoint geo_new_loop (fuel : nat) (pi : expr) (k : Z) : sampler (expr * Z) :=
  match fuel with
  | O => sfail 2
  | S f =>
    gt <- sask CGt pi half ;;
    if gt then geo_new_loop f (pi *. pi) (k + 1) else sret (pi, k)
  end.
(* p >= 2/3: count failures until u <= p *)
Fixpoint geo_trivial (fuel : nat) (p : expr) (failures : Z) : sampler Z :=
  match fuel with
  | O => sfail 2
  | S f =>
    u <- draw_std F64 ;;
    le <- sask CLe u p ;;
    if le then sret failures else geo_trivial f p (failures + 1)
  end.
Fixpoint geo_d (fuel : nat) (pi : expr) (failures : Z) : sampler Z :=
  match fuel with
  | O => sfail 2
  | S f =>
    u <- draw_std F64 ;;
    lt <- sask CLt u pi ;;
    if lt then geo_d f pi (failures + 1) else sret failures
  end.
Fixpoint geo_m (fuel : nat) (p : expr) (k : Z) : sampler Z :=
  match fuel with
  | O => sfail 2
  | S f =>
    w <- next_word ;;
    let m := w mod 2^k in
    let p_reject := if m <=? 2^31 - 1 then powi (one -. p) m else epow (one -. p) (zf m) in
    u <- draw_std F64 ;;
    lt <- sask CLt u p_reject ;;
    if lt then sret m else geo_m f p k
  end.
Definition geometric (p : Z * Z) : sampler Z :=
  let pe := dyx p in
  ge <- sask CGe pe (rat 2 3) ;;
  if ge then geo_trivial 256 pe 0
  else if rounds_to_one p then sret U64MAX
  else
    let pi0 := one -. pe in
    '(pi, k) <- geo_new_loop 64 (pi0 *. pi0) 1 ;;
    if 64 <=? k then sfail 3 else       (* 1 << k overflows *)
    d <- geo_d 256 pi 0 ;;
    m <- geo_m 256 pe k ;;
    let r := (d * 2^k) mod 2^64 + m in
    if r <? 2^64 then sret r else sfail 3.

(* ---- Zeta (zeta.rs) ----------------------------------------------------------------------------- *)
Definition emax (t : fty) : Z := match t with F32 => 128 | F64 => 1024 end.
Fixpoint zeta_loop (fuel : nat) (t : fty) (s_minus_1 b : expr) : sampler Z :=
  match fuel with
  | O => sfail 2
  | S f =>
    u <- draw_oc t ;;
    let xe := epow u (num (-1) /. s_minus_1) in
    inf <- sask CGe xe (Dy 1 (emax t)) ;;
    if inf then sret (-1) else
    x <- sfloor xe ;;
    let xf := num x in
    let tt := epow (one +. one /. xf) s_minus_1 in
    v <- draw_std t ;;
    acc <- sask CLe (v *. xf *. (tt -. one) *. b) (tt *. (b -. one)) ;;
    if acc then sret x else zeta_loop f t s_minus_1 b
  end.
Definition zeta (t : fty) (s : Z * Z) : sampler Z :=
  let s_minus_1 := dyx s -. one in
  let b := epow (num 2) s_minus_1 in
  zeta_loop 128 t s_minus_1 b.

(* ---- Zipf (zipf.rs) ------------------------------------------------------------------------------ *)
Fixpoint zipf_loop (fuel : nat) (t : fty) (s_is_1 : bool) (s oms q tt : expr) : sampler Z :=
  match fuel with
  | O => sfail 2
  | S f =>
    p <- draw_std t ;;
    let pt := p *. tt in
    le <- sask CLe pt one ;;
    let inv_b := if le then pt
                 else if s_is_1 then eexp (pt -. one)
                 else epow (pt *. oms +. s) q in
    x <- sfloor (inv_b +. one) ;;
    let ratio0 := epow (num x) (eneg s) in
    let ratio := if 1 <? x then ratio0 *. epow inv_b s else ratio0 in
    y <- draw_std t ;;
    lt <- sask CLt y ratio ;;
    if lt then sret x else zipf_loop f t s_is_1 s oms q tt
  end.
Definition zipf (t : fty) (n s : Z * Z) : sampler Z :=
  let s_is_1 := dy_eqb s (1, 0) in
  let se := dyx s in
  let oms := one -. se in
  let q := if s_is_1 then num 0 else one /. oms in
  let tt := if s_is_1 then one +. eln (dyx n) else (epow (dyx n) oms -. se) *. q in
  zipf_loop 128 t s_is_1 se oms q tt.

(* ---- Poisson (poisson.rs) ---------------------------------------------------------------------------- *)
(* KnuthMethod::sample; the float counter is returned as an integer *)
Fixpoint knuth_loop (fuel : nat) (t : fty) (exp_lambda p : expr) (result : Z) : sampler Z :=
  match fuel with
  | O => sfail 2
  | S f =>
    gt <- sask CGt p exp_lambda ;;
    if gt then
      u <- draw_std t ;;
      knuth_loop f t exp_lambda (p *. u) (result + 1)
    else sret (result - 1)
  end.
Definition knuth (t : fty) (lambda : expr) : sampler Z :=
  let exp_lambda := eexp (eneg lambda) in
  p <- draw_std t ;;
  knuth_loop 1024 t exp_lambda p 1.
