(* Model/Discrete.v — ideal real-number models (decision trees over exact expressions) of the
   discrete samplers of rand_distr: StandardGeometric, Geometric, Zeta, Zipf, Poisson, Binomial,
   Hypergeometric.  Transcribed operation by operation from src/*.rs in the style of
   Model/Continuous.v: every rounded float operation of the code is one node of the expression,
   in the association order of the source; integer arithmetic stays in Z; float -> integer
   conversions go through `sfloor`.  Constructors (`new`) are part of the sampler models.
   Parameters are exact (integers as Z, floats as dyadic pairs).  No proofs in this file.

   Conventions / approximations (all validated against the crate through Model/ContIO.icase):
   - `x as f64` for an integer x is exact when |x| <= 2^53 (`zf`), one rounding otherwise.
   - `1.0 - p == 1.0` for an exact parameter p in [0,1] holds iff p <= 2^-54 (round to nearest
     even); this float test is modelled by that exact dyadic comparison (`rounds_to_one`).
   - comparisons of a parameter with an inexact source constant (2/3, ...) are `sask`s on the
     ideal constant: the interval semantics forks when the parameter is within rounding of it.
   - `powi` is the square-and-multiply loop of compiler-rt's __powidf2 (one node per product;
     the initial `1.0 * a` is exact and carries no node).  A product `a * a` of a value with itself
     is written `Un Sqr a` (same rounding budget as a product, no duplication of the operand).
   - rand's `Uniform::new(0.0, high)`: scale = high - 0.0 = high is exact and the adjusting loop of
     `new_bounded` never fires for low = 0 (scale * (1 - eps) + 0 <= high); a sample is
     `value0_1 * scale + 0.0` with value0_1 = (w >> 12) * 2^-52 exact: ONE rounded product
     (the addition of 0.0 is exact and carries no node).
   - results held in a float (Poisson, Zeta, Zipf) are returned as the integer they hold; Zeta
     returns -1 when the code returns +infinity.
   - parameters are assumed valid (the constructor returns Ok); non-finite parameters (s = inf,
     n = inf for Zipf) are outside the model; Hypergeometric is modelled for N < 2^51 (sfail 4
     beyond) and its PopulationTooLarge error (initial_p underflowing to 0) is not modelled.
   - float arithmetic on integer-valued (or half-integer-valued) operands below 2^51 is exact and is
     carried out in Z (`zf (y + 1)`, `plus_half m`, ...) instead of through widened nodes.
   - a uniform draw v that is exactly 0.0 makes `ln v` = -inf in BTPE regions 3/4 and in the H2PE
     tails / squeeze; the code's behaviour on it (reject the proposal, resp. accept in the squeeze)
     is modelled explicitly (`vz`) since -inf is not a value of the expression language.
   - loops carry fuel (`sfail 2` on exhaustion): 64-256 for rejection loops, parameter-derived
     counts for BINV (110 + 2), BTPE 5.1, HIN, H2PE 4.1 and fraction_of_products_of_factorials.
   - failure code 3 marks the places where the code would panic (u64 underflow, f64_to_u64
     assertion, 1 << 64, index out of range).                                                  *)
From Coq Require Import ZArith List Bool.
From RD Require Import Base.Expr Base.Run Model.Sampler Model.Continuous.
Import ListNotations.
Open Scope Z_scope.
Open Scope sampler_scope.

Local Notation "a +. b" := (Bin Add a b) (at level 50, left associativity).
Local Notation "a -. b" := (Bin Sub a b) (at level 50, left associativity).
Local Notation "a *. b" := (Bin Mul a b) (at level 40, left associativity).
Local Notation "a /. b" := (Bin Div a b) (at level 40, left associativity).

Definition half : expr := Dy 1 (-1).
(* integer -> f64 cast *)
Definition zf (k : Z) : expr := if Z.abs k <=? 2^53 then num k else rnd (num k).
(* an inexact f64 source constant converted with F::from: a second rounding for f32 *)
Definition cst (t : fty) (e : expr) : expr := match t with F64 => e | F32 => rnd e end.
(* 1.0 - p == 1.0 in binary64 for an exact p in [0,1] *)
Definition rounds_to_one (p : Z * Z) : bool := dy_leb p (1, -54).
Definition U64MAX : Z := 2^64 - 1.

(* compiler-rt __powidf2 for b >= 0: r = 1; loop { if b&1 { r *= a }; b /= 2; if b == 0 break; a *= a } *)
Fixpoint powi_aux (fuel : nat) (a : expr) (r : option expr) (b : Z) : expr :=
  match fuel with
  | O => one
  | S f =>
    let r' := if Z.odd b then Some (match r with None => a | Some r0 => r0 *. a end) else r in
    let b' := b / 2 in
    if b' =? 0 then match r' with None => one | Some r0 => r0 end
    else powi_aux f (Un Sqr a) r' b'
  end.
Definition powi (a : expr) (b : Z) : expr := powi_aux 64 a None b.

(* ---- StandardGeometric (geometric.rs:189-201) ------------------------------------------------ *)
Definition leading_zeros64 (w : Z) : Z := if w <=? 0 then 64 else 63 - Z.log2 w.
Fixpoint std_geometric_loop (fuel : nat) (result : Z) : sampler Z :=
  match fuel with
  | O => sfail 2
  | S f =>
    w <- next_word ;;
    let x := leading_zeros64 w in
    let result := result + x in
    if x <? 64 then sret result else std_geometric_loop f result
  end.
Definition std_geometric : sampler Z := std_geometric_loop 64 0.

(* ---- Geometric (geometric.rs:78-158) ------------------------------------------------------------ *)
(* new: k = 1; pi = pi*pi; while pi > 0.5 { k += 1; pi = pi*pi } *)
Fixpoint geo_new_loop (fuel : nat) (pi : expr) (k : Z) : sampler (expr * Z) :=
  match fuel with
  | O => sfail 2
  | S f =>
    gt <- sask CGt pi half ;;
    if gt then geo_new_loop f (Un Sqr pi) (k + 1) else sret (pi, k)
  end.
(* p >= 2/3: count failures until u <= p *)
Fixpoint geo_trivial (fuel : nat) (p : expr) (failures : Z) : sampler Z :=
  match fuel with
  | O => sfail 2
  | S f =>
    u <- draw_std F64 ;;
    le <- sask CLe u p ;;
    if le then sret failures else geo_trivial f p (failures + 1)
  end.
Fixpoint geo_d (fuel : nat) (pi : expr) (failures : Z) : sampler Z :=
  match fuel with
  | O => sfail 2
  | S f =>
    u <- draw_std F64 ;;
    lt <- sask CLt u pi ;;
    if lt then geo_d f pi (failures + 1) else sret failures
  end.
Fixpoint geo_m (fuel : nat) (p : expr) (k : Z) : sampler Z :=
  match fuel with
  | O => sfail 2
  | S f =>
    w <- next_word ;;
    let m := w mod 2^k in
    let p_reject := if m <=? 2^31 - 1 then powi (one -. p) m else epow (one -. p) (zf m) in
    u <- draw_std F64 ;;
    lt <- sask CLt u p_reject ;;
    if lt then sret m else geo_m f p k
  end.
Definition geometric (p : Z * Z) : sampler Z :=
  let pe := dyx p in
  ge <- sask CGe pe (rat 2 3) ;;
  if ge then geo_trivial 256 pe 0
  else if rounds_to_one p then sret U64MAX
  else
    let pi0 := one -. pe in
    '(pi, k) <- geo_new_loop 64 (Un Sqr pi0) 1 ;;
    if 64 <=? k then sfail 3 else       (* 1 << k overflows *)
    d <- geo_d 256 pi 0 ;;
    m <- geo_m 256 pe k ;;
    let r := (d * 2^k) mod 2^64 + m in
    if r <? 2^64 then sret r else sfail 3.

(* ---- Zeta (zeta.rs) ----------------------------------------------------------------------------- *)
Definition emax (t : fty) : Z := match t with F32 => 128 | F64 => 1024 end.
Fixpoint zeta_loop (fuel : nat) (t : fty) (s_minus_1 b : expr) : sampler Z :=
  match fuel with
  | O => sfail 2
  | S f =>
    u <- draw_oc t ;;
    let xe := epow u (num (-1) /. s_minus_1) in
    inf <- sask CGe xe (Dy 1 (emax t)) ;;
    if inf then sret (-1) else
    x <- sfloor xe ;;
    let xf := num x in
    let tt := epow (one +. one /. xf) s_minus_1 in
    v <- draw_std t ;;
    acc <- sask CLe (v *. xf *. (tt -. one) *. b) (tt *. (b -. one)) ;;
    if acc then sret x else zeta_loop f t s_minus_1 b
  end.
Definition zeta (t : fty) (s : Z * Z) : sampler Z :=
  let s_minus_1 := dyx s -. one in
  let b := epow (num 2) s_minus_1 in
  zeta_loop 128 t s_minus_1 b.

(* ---- Zipf (zipf.rs) ------------------------------------------------------------------------------ *)
Fixpoint zipf_loop (fuel : nat) (t : fty) (s_is_1 : bool) (s oms q tt : expr) : sampler Z :=
  match fuel with
  | O => sfail 2
  | S f =>
    p <- draw_std t ;;
    let pt := p *. tt in
    le <- sask CLe pt one ;;
    let inv_b := if le then pt
                 else if s_is_1 then eexp (pt -. one)
                 else epow (pt *. oms +. s) q in
    x <- sfloor (inv_b +. one) ;;
    let ratio0 := epow (num x) (eneg s) in
    let ratio := if 1 <? x then ratio0 *. epow inv_b s else ratio0 in
    y <- draw_std t ;;
    lt <- sask CLt y ratio ;;
    if lt then sret x else zipf_loop f t s_is_1 s oms q tt
  end.
Definition zipf (t : fty) (n s : Z * Z) : sampler Z :=
  let s_is_1 := dy_eqb s (1, 0) in
  let se := dyx s in
  let oms := one -. se in
  let q := if s_is_1 then num 0 else one /. oms in
  let tt := if s_is_1 then one +. eln (dyx n) else (epow (dyx n) oms -. se) *. q in
  zipf_loop 128 t s_is_1 se oms q tt.

(* ---- Poisson (poisson.rs) ---------------------------------------------------------------------------- *)
(* KnuthMethod::sample; the float counter is returned as an integer *)
Fixpoint knuth_loop (fuel : nat) (t : fty) (exp_lambda p : expr) (result : Z) : sampler Z :=
  match fuel with
  | O => sfail 2
  | S f =>
    gt <- sask CGt p exp_lambda ;;
    if gt then
      u <- draw_std t ;;
      knuth_loop f t exp_lambda (p *. u) (result + 1)
    else sret (result - 1)
  end.
Definition knuth (t : fty) (lambda : expr) : sampler Z :=
  let exp_lambda := eexp (eneg lambda) in
  p <- draw_std t ;;
  knuth_loop 1024 t exp_lambda p 1.

(* RejectionMethod (Ahrens-Dieter PD) *)
Record pd_consts := { pd_lambda : expr; pd_s : expr; pd_d : expr; pd_l : Z; pd_c : expr;
                      pd_c0 : expr; pd_c1 : expr; pd_c2 : expr; pd_c3 : expr; pd_omega : expr }.
(* coefficients a_0..a_9 of Table 1, as d / 10^10 *)
Definition PD_A : list Z :=
  [-5000000002; 3333333343; -2499998565; 1999997049; -1666848753;
   1428833286; -1241963125; 1101687109; -1142650302; 1055093006].
Definition PD_FACT : list Z := [1; 1; 2; 6; 24; 120; 720; 5040; 40320; 362880].
Definition pd_coef (t : fty) (a : Z) : expr :=
  cst t (if a <? 0 then eneg (dec (- a) 10) else dec a 10).
(* Step F: (px, py, fx, fy) for an integer-valued float k *)
Definition pd_f (t : fty) (P : pd_consts) (k : Z) : sampler (expr * expr * expr * expr) :=
  let lam := pd_lambda P in
  let kf := num k in
  let x := (kf -. lam +. half) /. pd_s P in
  let fx := eneg half *. x *. x in
  let fy := pd_omega P *. (((pd_c3 P *. x *. x +. pd_c2 P) *. x *. x +. pd_c1 P) *. x *. x +. pd_c0 P) in
  if k <? 0 then sfail 3 else
  if k <? 10 then
    let px := eneg lam in
    let py := epow lam kf /. num (nth (Z.to_nat k) PD_FACT 1) in
    sret (px, py, fx, fy)
  else
    let delta0 := one /. (num 12 *. kf) in
    let delta := delta0 -. cst t (dec 48 1) *. powi delta0 3 in
    let v := (lam -. kf) /. kf in
    small <- sask CLe (eabs v) (Dy 1 (-2)) ;;
    let px := if small then
                kf *. powi v 2 *. fold_left (fun acc a => acc *. v +. pd_coef t a) (rev PD_A) (num 0) -. delta
              else kf *. eln (one +. v) -. (lam -. kf) -. delta in
    let py := one /. esqrt (num 2 *. Pi) /. esqrt kf in
    sret (px, py, fx, fy).
Fixpoint pd_loop (fuel : nat) (t : fty) (P : pd_consts) : sampler Z :=
  match fuel with
  | O => sfail 2
  | S f =>
    (* Step E *)
    e <- exp1 t ;;
    w <- next_word ;;
    (* rng.random() * 2.0 - 1.0 : exact *)
    let um := match t with F64 => 2 * (w / 2^11) - 2^53 | F32 => 2 * (hi32 w / 2^8) - 2^24 end in
    let uabs := Exact (Dy (Z.abs um) (- fprec t)) in
    let sgn := if 0 <=? um then 1 else -1 in
    let tt := cst t (dec 18 1) +. e *. num sgn in
    gt <- sask CGt tt (cst t (eneg (dec 6744 4))) ;;
    if gt then
      k2 <- sfloor (pd_lambda P +. pd_s P *. tt) ;;
      '(px, py, fx, fy) <- pd_f t P k2 ;;
      (* Step H *)
      acc <- sask CLe (pd_c P *. uabs) (py *. eexp (px +. e) -. fy *. eexp (fx +. e)) ;;
      if acc then sret k2 else pd_loop f t P
    else pd_loop f t P
  end.
Definition pd_new (t : fty) (lam : expr) : sampler pd_consts :=
  let b1 := cst t (rat 1 24) /. lam in
  let b2 := cst t (dec 3 1) *. b1 *. b1 in
  let c3 := cst t (rat 1 7) *. b1 *. b2 in
  let c2 := b2 -. num 15 *. c3 in
  let c1 := b1 -. num 6 *. b2 +. num 45 *. c3 in
  let c0 := one -. b1 +. num 3 *. b2 -. num 15 *. c3 in
  l <- sfloor (lam -. cst t (dec 11484 4)) ;;
  sret {| pd_lambda := lam; pd_s := esqrt lam; pd_d := num 6 *. powi lam 2; pd_l := l;
          pd_c := cst t (dec 1069 4) /. lam; pd_c0 := c0; pd_c1 := c1; pd_c2 := c2; pd_c3 := c3;
          pd_omega := one /. esqrt (num 2 *. Pi) /. esqrt lam |}.
Definition pd_sample (t : fty) (P : pd_consts) : sampler Z :=
  let lam := pd_lambda P in
  (* Step N: Normal::new(lambda, s).sample *)
  z <- std_normal t ;;
  let g := lam +. pd_s P *. z in
  ge0 <- sask CGe g (num 0) ;;
  if ge0 then
    k1 <- sfloor g ;;
    (* Step I *)
    if pd_l P <=? k1 then sret k1 else
    (* Step S *)
    u <- draw_std t ;;
    b <- sask CGe (pd_d P *. u) (powi (lam -. num k1) 3) ;;
    if b then sret k1 else
    '(px, py, fx, fy) <- pd_f t P k1 ;;
    b2 <- sask CLe (fy *. (one -. u)) (py *. eexp (px -. fx)) ;;
    if b2 then sret k1 else pd_loop 64 t P
  else pd_loop 64 t P.
Definition poisson (t : fty) (lambda : Z * Z) : sampler Z :=
  if dy_ltb lambda (12, 0) then knuth t (dyx lambda)
  else P <- pd_new t (dyx lambda) ;; pd_sample t P.

(* ---- Binomial (binomial.rs) ---------------------------------------------------------------------------- *)
(* 1.0 - p for an exact p in [0.5, 1]: exact (Sterbenz) *)
Definition dy_1m (p : Z * Z) : Z * Z :=
  let '(m, e) := p in if e <? 0 then (2 ^ (- e) - m, e) else (1 - m * 2 ^ e, 0).
(* k + 0.5 for an integer-valued float k: exact below 2^51 *)
Definition plus_half (k : Z) : expr := if Z.abs k <? 2^51 then Dy (2 * k + 1) (-1) else zf k +. half.

(* BINV inner loop; None = x exceeded BINV_MAX_X = 110 (restart) *)
Fixpoint binv_inner (fuel : nat) (a s u r : expr) (x : Z) : sampler (option Z) :=
  match fuel with
  | O => sfail 2
  | S f =>
    gt <- sask CGt u r ;;
    if gt then
      let u := u -. r in
      let x := x + 1 in
      if 110 <? x then sret None
      else binv_inner f a s u (r *. (a /. zf x -. s)) x
    else sret (Some x)
  end.
Fixpoint binv_outer (fuel : nat) (r a s : expr) : sampler Z :=
  match fuel with
  | O => sfail 2
  | S f =>
    u <- draw_std F64 ;;
    o <- binv_inner 112 a s u r 0 ;;
    match o with Some x => sret x | None => binv_outer f r a s end
  end.

(* BTPE step 5.1: f *= a/i - s for i = lo+1..hi (f = None stands for the exact 1.0) *)
Fixpoint btpe_up (cnt : nat) (a s : expr) (i : Z) (f : option expr) : expr :=
  match cnt with
  | O => match f with None => one | Some f0 => f0 end
  | S c =>
    let i := i + 1 in
    let g := a /. zf i -. s in
    btpe_up c a s i (Some (match f with None => g | Some f0 => f0 *. g end))
  end.
Fixpoint btpe_down (cnt : nat) (a s : expr) (i : Z) (f : expr) : expr :=
  match cnt with
  | O => f
  | S c => let i := i + 1 in btpe_down c a s i (f /. (a /. zf i -. s))
  end.
Definition stirling (a : expr) : expr :=
  let a2 := Un Sqr a in
  (num 13860 -. (num 462 -. (num 132 -. (num 99 -. num 140 /. a2) /. a2) /. a2) /. a2) /. a /. num 166320.
Definition f64_to_u64 (e : expr) : sampler Z :=
  y <- sfloor e ;; if (y <? 0) || (U64MAX <=? y) then sfail 3 else sret y.

(* the value of `f` after the match of step 5.1 (binomial.rs:296-327), as one expression *)
Definition btpe_f51 (n : Z) (pe : expr) (m y : Z) : expr :=
  let s := pe /. (one -. pe) in
  let a := s *. (zf n +. one) in
  if m <? y then btpe_up (Z.to_nat (y - m)) a s m None
  else if y <? m then btpe_down (Z.to_nat (m - y)) a s y one
  else one.
Section Btpe.
Variables (n : Z) (pe : expr).
Let nf := zf n.
Let np := nf *. pe.
Let q := one -. pe.
Let npq := np *. q.
Let f_m := np +. pe.
(* Step 5: Some y = accept, None = continue *)
Definition btpe_step5 (m : Z) (x_m : expr) (y : Z) (v : expr) : sampler (option Z) :=
  let k := Z.abs (y - m) in
  sq <- (if 20 <? k then sask CLt (zf k) (half *. npq -. one) else sret false) ;;
  if negb sq then
    (* 5.1 *)
    let f := btpe_f51 n pe m y in
    gt <- sask CGt v f ;;
    if gt then sret None else sret (Some y)
  else
    (* 5.2 *)
    let kf := zf k in
    let rho := (kf /. npq) *. ((kf *. (kf /. num 3 +. Dy 5 (-3)) +. rat 1 6) /. npq +. half) in
    let t := eneg half *. kf *. kf /. npq in
    let alpha := eln v in
    lt <- sask CLt alpha (t -. rho) ;;
    if lt then sret (Some y) else
    gt <- sask CGt alpha (t +. rho) ;;
    if gt then sret None else
    (* 5.3 *)
    if n <? y then sfail 3 else
    let x1 := zf (y + 1) in
    let f1 := zf (m + 1) in
    let z := zf (n - m + 1) in
    let w := zf (n - y + 1) in
    let y_sub_m := zf (y - m) in
    let bound := x_m *. eln (f1 /. x1) +. (zf (n - m) +. half) *. eln (z /. w)
                 +. y_sub_m *. eln (w *. pe /. (x1 *. q))
                 +. stirling f1 +. stirling z -. stirling x1 -. stirling w in
    gt2 <- sask CGt alpha bound ;;
    if gt2 then sret None else sret (Some y).

Fixpoint btpe_loop (fuel : nat) (m : Z) (p1 x_m x_l x_r c p2 lambda_l lambda_r p3 p4 : expr) : sampler Z :=
  match fuel with
  | O => sfail 2
  | S fu =>
    let again := btpe_loop fu m p1 x_m x_l x_r c p2 lambda_l lambda_r p3 p4 in
    let step5 (y : Z) (v : expr) : sampler Z :=
      o <- btpe_step5 m x_m y v ;; match o with Some y => sret y | None => again end in
    w1 <- next_word ;; w2 <- next_word ;;
    (* Uniform::new(0., p4).sample / Uniform::new(0., 1.).sample *)
    let u := Exact (Dy (w1 / 2^12) (-52)) *. p4 in
    let v := Exact (Dy (w2 / 2^12) (-52)) in
    let vz := (w2 / 2^12 =? 0) in      (* v == 0.0: ln v = -inf in regions 3 and 4 *)
    g1 <- sask CGt u p1 ;;
    if negb g1 then f64_to_u64 (x_m -. p1 *. v +. u) else
    g2 <- sask CGt u p2 ;;
    if negb g2 then
      (* region 2 *)
      let x := x_l +. (u -. p1) /. c in
      let v := v *. c +. one -. eabs (x -. x_m) /. p1 in
      gt <- sask CGt v one ;;
      if gt then again else y <- f64_to_u64 x ;; step5 y v
    else
    g3 <- sask CGt u p3 ;;
    if negb g3 then
      (* region 3 *)
      if vz then again else            (* y_tmp = -inf < 0 *)
      let y_tmp := x_l +. eln v /. lambda_l in
      neg <- sask CLt y_tmp (num 0) ;;
      if neg then again else
      y <- f64_to_u64 y_tmp ;;
      step5 y (v *. ((u -. p2) *. lambda_l))
    else
      (* region 4: `as u64` saturates *)
      if vz then (if n <? U64MAX then again else sfail 4) else      (* y = u64::MAX > n *)
      y0 <- sfloor (x_r -. eln v /. lambda_r) ;;
      let y := Z.min (Z.max y0 0) U64MAX in
      if n <? y then again else step5 y (v *. ((u -. p3) *. lambda_r))
  end.

Definition btpe (flipped : bool) : sampler Z :=
  p1k <- sfloor (dec 2195 3 *. esqrt npq -. dec 46 1 *. q) ;;
  let p1 := plus_half p1k in
  m <- f64_to_u64 f_m ;;
  let mf := zf m in
  let x_m := plus_half m in
  let x_l := x_m -. p1 in
  let x_r := x_m +. p1 in
  let c := dec 134 3 +. dec 205 1 /. (dec 153 1 +. mf) in
  let p2 := p1 *. (one +. num 2 *. c) in
  let lam (a : expr) := a *. (one +. half *. a) in
  let lambda_l := lam ((f_m -. x_l) /. (f_m -. x_l *. pe)) in
  let lambda_r := lam ((x_r -. f_m) /. (x_r *. q)) in
  let p3 := p2 +. c /. lambda_l in
  let p4 := p3 +. c /. lambda_r in
  y <- btpe_loop 64 m p1 x_m x_l x_r c p2 lambda_l lambda_r p3 p4 ;;
  sret (if flipped then n - y else y).
End Btpe.

Definition binomial (n : Z) (p : Z * Z) : sampler Z :=
  if dy_eqb p (0, 0) then sret 0 else
  if dy_eqb p (1, 0) then sret n else
  let flipped := dy_ltb (1, -1) p in
  let p' := if flipped then dy_1m p else p in
  let pe := dyx p' in
  let nf := zf n in
  let np := nf *. pe in
  lt <- sask CLt np (num 10) ;;
  if lt then
    if rounds_to_one p' then knuth F64 np      (* q == 1.0: Poisson limit; `as u64` of a count *)
    else
      let q := one -. pe in
      let s := pe /. q in
      let r := epow q nf in
      let a := (nf +. one) *. s in
      x <- binv_outer 64 r a s ;;
      sret (if flipped then n - x else x)
  else btpe n pe flipped.

(* ---- Hypergeometric (hypergeometric.rs) ------------------------------------------------------------------ *)
(* fraction_of_products_of_factorials; the running product starts at the exact 1.0 (None) *)
Definition fmul (r : option expr) (x : expr) : option expr :=
  Some (match r with None => x | Some r0 => r0 *. x end).
Definition fdiv (r : option expr) (x : expr) : option expr :=
  Some (match r with None => one /. x | Some r0 => r0 /. x end).
Fixpoint fpf_loop (cnt : nat) (i min_top min_bottom max_top max_bottom : Z) (r : option expr) : option expr :=
  match cnt with
  | O => r
  | S c =>
    let r := if i <=? min_top then fmul r (zf i) else r in
    let r := if i <=? min_bottom then fdiv r (zf i) else r in
    let r := if i <=? max_top then fmul r (zf i) else r in
    let r := if i <=? max_bottom then fdiv r (zf i) else r in
    fpf_loop c (i + 1) min_top min_bottom max_top max_bottom r
  end.
Definition fraction_of_products_of_factorials (num0 num1 den0 den1 : Z) : expr :=
  let min_top := Z.min num0 num1 in
  let min_bottom := Z.min den0 den1 in
  let min_all := Z.min min_top min_bottom in
  let max_top := Z.max num0 num1 in
  let max_bottom := Z.max den0 den1 in
  let max_all := Z.max max_top max_bottom in
  match fpf_loop (Z.to_nat (max_all - min_all)) (min_all + 1) min_top min_bottom max_top max_bottom None with
  | None => one | Some r => r end.

Definition LOGSQRT2PI : expr := dec 91893853320467274178 20.
Definition ln_of_factorial (v : expr) : expr :=
  let v_3 := v +. num 3 in
  let ln_fac := (v_3 +. half) *. eln v_3 -. v_3 +. LOGSQRT2PI +. one /. (num 12 *. v_3) in
  ln_fac -. eln ((v +. num 3) *. (v +. num 2) *. (v +. one)).

(* HIN: while u > p && x < min(n1,k) *)
Fixpoint hin_loop (fuel : nat) (n1 n2 k : Z) (u p : expr) (x : Z) : sampler Z :=
  match fuel with
  | O => sfail 2
  | S f =>
    gt <- sask CGt u p ;;
    if gt && (x <? Z.min n1 k) then
      let u := u -. p in
      let p := p *. zf ((n1 - x) * (k - x)) in
      let p := p /. zf ((x + 1) * (n2 - k + 1 + x)) in
      hin_loop f n1 n2 k u p (x + 1)
    else sret x
  end.

(* H2PE step 4.1 products *)
Fixpoint h2pe_up (cnt : nat) (n1 n2 k i : Z) (f : option expr) : sampler expr :=
  match cnt with
  | O => sret (match f with None => one | Some f0 => f0 end)
  | S c =>
    let i := i + 1 in
    if (n1 <? i) || (k <? i) then sfail 3 else      (* u64 underflow in n1 - i, k - i *)
    let f := fmul f (zf (n1 - i + 1) *. zf (k - i + 1)) in
    let f := fdiv f (zf i *. zf (n2 - k + i)) in
    h2pe_up c n1 n2 k i f
  end.
Fixpoint h2pe_down (cnt : nat) (n1 n2 k i : Z) (f : option expr) : sampler expr :=
  match cnt with
  | O => sret (match f with None => one | Some f0 => f0 end)
  | S c =>
    let i := i + 1 in
    if (n1 <? i) || (k <? i) then sfail 3 else
    let f := fmul f (zf i *. zf (n2 - k + i)) in
    let f := fdiv f (zf (n1 - i + 1) *. zf (k - i + 1)) in
    h2pe_down c n1 n2 k i f
  end.

(* the value of `f` after the two `for` loops of step 4.1 (hypergeometric.rs:359-377) *)
Definition h2pe_f41 (n1 n2 k m y : Z) : sampler expr :=
  if m <? y then h2pe_up (Z.to_nat (y - m)) n1 n2 k m None
  else h2pe_down (Z.to_nat (m - Z.max y 0)) n1 n2 k (Z.max y 0) None.
Section H2pe.
(* all integer quantities are below 2^51 here, so that float arithmetic on integer-valued (or
   half-integer-valued) operands is exact and is carried out in Z (`zf`, `plus_half`) *)
Variables (n1 n2 k m : Z) (a lambda_l lambda_r x_l x_r p1 p2 p3 : expr).
Let mf := zf m.
Definition mhalf : expr := Dy (-1) (-1).
Definition cubic (r : expr) : expr := one +. r *. (mhalf +. r /. num 3).
(* x < 0.0 for x = (+-)ym / d with d > 0: false on a (signed) zero *)
Definition sneg (is_zero : bool) (x : expr) : sampler bool :=
  if is_zero then sret false else sask CLt x (num 0).
(* Step 4: Some y = accept, None = continue *)
Definition h2pe_step4 (y : Z) (v : expr) (vz : bool) : sampler (option Z) :=
  let yf := zf y in
  if (m <? 100) || (y <=? 50) then
    (* 4.1 *)
    f <- h2pe_f41 n1 n2 k m y ;;
    le <- sask CLe v f ;;
    if le then sret (Some y) else sret None
  else
    (* 4.2 *)
    let y1 := zf (y + 1) in
    let ym := zf (y - m) in
    let yn := zf (n1 - y + 1) in
    let yk := zf (k - y + 1) in
    let nk := zf (n2 - k + (y + 1)) in
    let r := eneg ym /. y1 in
    let s := ym /. yn in
    let t := ym /. yk in
    let e := eneg ym /. nk in
    let g := yn *. yk /. (y1 *. nk) -. one in
    gneg <- sask CLt g (num 0) ;;
    let dg := if gneg then one +. g else one in
    let gu := g *. cubic g in
    let gl := gu -. powi g 4 /. (num 4 *. dg) in
    let xm := plus_half m in
    let xn := plus_half (n1 - m) in
    let xk := plus_half (k - m) in
    let nm := plus_half (n2 - k + m) in
    let ub := xm *. r *. cubic r +. xn *. s *. cubic s +. xk *. t *. cubic t +. nm *. e *. cubic e
              +. yf *. gu -. mf *. gl +. dec 34 4 in
    if vz then sret (Some y) else      (* v == 0.0: av = -inf passes the squeeze *)
    let av := eln v in
    gt <- sask CGt av ub ;;
    if gt then sret None else
    let z := (y =? m) in
    let dd (x w : expr) (neg : bool) := if neg then w *. powi x 4 /. (one +. x) else w *. powi x 4 in
    rn <- sneg z r ;; sn <- sneg z s ;; tn <- sneg z t ;; en <- sneg z e ;;
    let dr := dd r xm rn in
    let ds := dd s xn sn in
    let dt := dd t xk tn in
    let de := dd e nm en in
    lt <- sask CLt av (ub -. Dy 1 (-2) *. (dr +. ds +. dt +. de) +. (yf +. mf) *. (gl -. gu) -. dec 78 4) ;;
    if lt then sret (Some y) else
    (* 4.3 *)
    let av_critical := a -. ln_of_factorial yf -. ln_of_factorial (zf n1 -. yf)
                       -. ln_of_factorial (zf k -. yf) -. ln_of_factorial (zf (n2 - k) +. yf) in
    le <- sask CLe (eln v) av_critical ;;
    if le then sret (Some y) else sret None.

Fixpoint h2pe_loop (fuel : nat) : sampler Z :=
  match fuel with
  | O => sfail 2
  | S fu =>
    let step4 (y : Z) (v : expr) (vz : bool) : sampler Z :=
      o <- h2pe_step4 y v vz ;; match o with Some y => sret y | None => h2pe_loop fu end in
    w1 <- next_word ;; w2 <- next_word ;;
    let u := Exact (Dy (w1 / 2^12) (-52)) *. p3 in      (* Uniform::new(0.0, p3).sample *)
    let v := u_std F64 w2 in
    let vz := (w2 / 2^11 =? 0) in      (* v == 0.0: ln v = -inf, the tail proposals are out of range *)
    le1 <- sask CLe u p1 ;;
    if le1 then y <- sfloor (x_l +. u) ;; step4 y v vz else
    if vz then h2pe_loop fu else
    le2 <- sask CLe u p2 ;;
    if le2 then
      y <- sfloor (x_l +. eln v /. lambda_l) ;;
      if Z.max 0 (k - n2) <=? y then step4 y (v *. (u -. p1) *. lambda_l) false else h2pe_loop fu
    else
      y <- sfloor (x_r -. eln v /. lambda_r) ;;
      if Z.max y 0 <=? Z.min n1 k then step4 y (v *. (u -. p2) *. lambda_r) false else h2pe_loop fu
  end.
End H2pe.

Definition hypergeometric (N K ns : Z) : sampler Z :=
  let n := N in
  if 2^51 <=? n then sfail 4 else
  let without := n - K in
  let '(sign_x, offset_x, n1, n2) :=
    if without <? K then (-1, ns, without, K) else (1, 0, K, without) in
  let '(k, offset_x, sign_x) :=
    if ns <=? n / 2 then (ns, offset_x, sign_x) else (n - ns, offset_x + n1 * sign_x, - sign_x) in
  m <- sfloor ((zf k +. one) *. (zf n1 +. one) /. (zf n +. num 2)) ;;
  x <- (if m - Z.max 0 (k - n2) <? 10 then
          (* HIN *)
          let '(p, x0) := if k <? n2 then (fraction_of_products_of_factorials n2 (n - k) n (n2 - k), 0)
                          else (fraction_of_products_of_factorials n1 k n (k - n2), k - n2) in
          u <- draw_std F64 ;;
          hin_loop (Z.to_nat (Z.min n1 k - x0) + 2) n1 n2 k u p x0
        else
          (* H2PE *)
          let mf := zf m in
          let a := ln_of_factorial mf +. ln_of_factorial (zf n1 -. mf) +. ln_of_factorial (zf k -. mf)
                   +. ln_of_factorial (zf (n2 - k) +. mf) in
          let numerator := zf (n - k) *. zf k *. zf n1 *. zf n2 in
          let denominator := zf (n - 1) *. zf n *. zf n in
          let d := Dy 3 (-1) *. esqrt (numerator /. denominator) +. half in
          let x_l := mf -. d +. half in
          let x_r := mf +. d +. half in
          let k_l := eexp (a -. ln_of_factorial x_l -. ln_of_factorial (zf n1 -. x_l)
                           -. ln_of_factorial (zf k -. x_l) -. ln_of_factorial (zf (n2 - k) +. x_l)) in
          let k_r := eexp (a -. ln_of_factorial (x_r -. one) -. ln_of_factorial (zf n1 -. x_r +. one)
                           -. ln_of_factorial (zf k -. x_r +. one) -. ln_of_factorial (zf (n2 - k) +. x_r -. one)) in
          let lambda_l := eneg (eln ((x_l *. (zf (n2 - k) +. x_l)) /. ((zf n1 -. x_l +. one) *. (zf k -. x_l +. one)))) in
          let lambda_r := eneg (eln (((zf n1 -. x_r +. one) *. (zf k -. x_r +. one)) /. (x_r *. (zf (n2 - k) +. x_r)))) in
          let p1 := num 2 *. d in
          let p2 := p1 +. k_l /. lambda_l in
          let p3 := p2 +. k_r /. lambda_r in
          h2pe_loop n1 n2 k m a lambda_l lambda_r x_l x_r p1 p2 p3 64) ;;
  sret ((offset_x + sign_x * x) mod 2^64).
