(* Model/GuardSpec.v — the DOCUMENTED domain of every public constructor of rand_distr (C04),
   written from the doc comments of the error enums / constructors (DESIGN.md Appendix B), NOT
   from the code.  No proofs in this file.

   For each constructor, a function from argument VALUES to
       expect ::= MustOk | MustErr allowed | Unspecified
   built by `spec_of must may unspec`:
     must   : (condition documented on variant v, v)  — if any holds, the result MUST be an Err
              whose variant is one whose documented condition holds (those of `must` that hold,
              plus those of `may` that hold);
     may    : (condition, v) where the documentation is ambiguous about whether the condition is
              an error (it does not force an error, but v is acceptable when it holds);
     unspec : region in which the documentation is silent or self-contradictory: not judged,
              except that the constructor must not panic.
   Otherwise the constructor MUST return Ok.  No constructor may ever panic.

   The specification is executable (so that it can also be evaluated on concrete bit patterns as
   a direct oracle against the real code).  Its vocabulary is value-level only:
     v_nan, v_fin, v_pinf, v_ninf, v_inf          classification
     v_lt, v_le, v_eq                              the order of the extended reals on non-NaN values
                                                   (false as soon as one side is NaN; -0 = +0).
       These are Flocq's Bltb/Bleb/Beqb, whose meaning on finite values is given by
       Bltb_correct / Bleb_correct / Beqb_correct:  v_lt x y = Rlt_bool (B2R x) (B2R y), etc.
     gtZ x z                                       x > z for an integer z, exactly
     neg_zero                                      x is -0.0
   Float OPERATIONS appear in a specification only where the documentation itself states the
   condition on a computed float (`0.5 * k <= 0` for ChiSquared/StudentT/FisherF; Pert: the range
   max - min; Pert::with_mean: the mode implied by the mean).

   Unspecified regions (all from Appendix B unless marked NEW):
     Normal::from_mean_cv      mean non-finite (std_dev = cv*mean is then not finite, contradicting
                               "BadVariance: the standard deviation ... is not finite" vs "mean unrestricted")
     LogNormal::from_mean_cv   mean = +inf
     Exp::new                  lambda = +inf          (doc: only negative/NaN is an error; 1/inf = 0)
     Gamma::new                scale = +inf           (enum documents ScaleTooLarge "1/scale == 0",
                                                       never returned; tests require Ok)
     ChiSquared/StudentT       k = +inf;   FisherF: m or n = +-inf (only if no error condition holds)
     Beta::new                 alpha or beta = +inf
     Pert::with_mode           max = min (enum doc: `max < min`; Display: "min < max" required);
                               max - min not finite (overflow or infinite bounds); shape = +inf
     Pert::with_mean           shape = 0 or implied mode not finite: only "no panic"
     Triangular::new           infinite min or max
     Cauchy::new               scale = +inf
     Pareto/Weibull/InverseGaussian   either argument = +inf
     Zeta::new                 s = +inf
     Hypergeometric::new       every valid triple (PopulationTooLarge "may" be returned whenever
                               the initial probability underflows: documented, value-dependent)
   No Unspecified region was added beyond Appendix B.                                           *)
From Coq Require Import ZArith List Bool String Reals.
From Flocq Require Import Core.Core IEEE754.Binary IEEE754.Bits IEEE754.BinarySingleNaN.
From RD Require Import Model.Guards.
Import ListNotations.
Open Scope string_scope.
Open Scope Z_scope.

Inductive expect := MustOk | MustErr (allowed : list string) | Unspecified.

Definition agrees (r : gres) (e : expect) : Prop :=
  match r, e with
  | GPanic, _ => False
  | GOk, MustOk => True
  | GErr v, MustErr l => In v l
  | _, Unspecified => True
  | _, _ => False
  end.

(* executable version, for the harness *)
Definition agreesb (r : gres) (e : expect) : bool :=
  match r, e with
  | GPanic, _ => false
  | GOk, MustOk => true
  | GErr v, MustErr l => existsb (String.eqb v) l
  | _, Unspecified => true
  | _, _ => false
  end.

Definition collect (l : list (bool * string)) : list string := map snd (filter fst l).
Definition spec_of (must may : list (bool * string)) (unspec : bool) : expect :=
  match collect must with
  | [] => match collect may with
          | [] => if unspec then Unspecified else MustOk
          | _ => Unspecified
          end
  | l => MustErr (l ++ collect may)
  end.

Section Fmt.
Variable prec emax : Z.
Context (Hp : Prec_gt_0 prec) (Hpe : Prec_lt_emax prec emax).
Notation float := (binary_float prec emax).
Notation zero := (zero prec emax).
Notation one := (one prec emax Hp Hpe).
Notation half := (half prec emax Hp Hpe).
Notation fmul := (fmul prec emax Hp Hpe).
Notation fsub := (fsub prec emax Hp Hpe).
Notation fabs := (fabs prec emax).

(* ---- vocabulary ---- *)
Definition v_nan (x : float) : bool := is_nan x.
Definition v_fin (x : float) : bool := is_finite x.
Definition v_pinf (x : float) : bool := match x with B754_infinity false => true | _ => false end.
Definition v_ninf (x : float) : bool := match x with B754_infinity true => true | _ => false end.
Definition v_inf (x : float) : bool := v_pinf x || v_ninf x.
Definition v_lt (x y : float) : bool := Bltb x y.
Definition v_le (x y : float) : bool := Bleb x y.
Definition v_eq (x y : float) : bool := Beqb x y.
Definition neg_zero (x : float) : bool := match x with B754_zero true => true | _ => false end.
(* x > z, exactly, for an integer z *)
Definition gtZ (x : float) (z : Z) : bool :=
  match x with
  | B754_nan => false
  | B754_infinity s => negb s
  | B754_zero _ => z <? 0
  | B754_finite s m e _ =>
    if 0 <=? e then z <? cond_Zopp s (Z.pos m) * 2 ^ e
    else z * 2 ^ (- e) <? cond_Zopp s (Z.pos m)
  end.
Definition le0_or_nan (x : float) : bool := v_le x zero || v_nan x.
(* smallest positive normal number 2^(2-emax) (2^-1022 for f64, 2^-126 for f32) *)
Definition min_normal : float := cdy prec emax Hp Hpe 1 (2 - emax).
Definition v_subnormal (x : float) : bool :=
  v_fin x && negb (v_eq x zero) && v_lt (fabs x) min_normal.

(* ---- real-valued view, used to state the contracts on libm parameters ----
   M = 2^emax exceeds every finite float; ext x is the value of a non-NaN float as a real number,
   with +inf and -inf sent to +M and -M (so that `<=` on ext is the order of the extended reals). *)
Definition M : R := bpow radix2 emax.
Definition ext (x : float) : R :=
  match x with
  | B754_infinity false => M
  | B754_infinity true => (- M)%R
  | _ => B2R x
  end.
(* x >= 1, possibly +inf *)
Definition ge1 (x : float) : Prop :=
  (is_finite x = true /\ (1 <= B2R x)%R) \/ x = B754_infinity false.

(* ---- normal.rs ----
   Error::BadVariance  "The standard deviation or other dispersion parameter is not finite."
   Error::MeanTooSmall "The mean value is too small (log-normal samples must be positive)"
   Normal::new: mean unrestricted, std_dev must be finite.
   Normal::from_mean_cv: mean unrestricted, cv = abs(sigma/mu) (test: cv = -1 is an error).
   LogNormal::from_mean_cv: mean > 0, cv >= 0; "As a special exception, mu = 0, cv = 0 is allowed". *)
Definition spec_Normal_new (mean std_dev : float) : expect :=
  spec_of [(negb (v_fin std_dev), "BadVariance")] [] false.
Definition spec_Normal_from_mean_cv (mean cv : float) : expect :=
  spec_of [(negb (v_fin cv) || v_lt cv zero, "BadVariance")] [] (negb (v_fin mean)).
Definition spec_LogNormal_new (mu sigma : float) : expect :=
  spec_of [(negb (v_fin sigma), "BadVariance")] [] false.
Definition spec_LogNormal_from_mean_cv (mean cv : float) : expect :=
  spec_of [(negb (v_fin cv) || v_lt cv zero, "BadVariance");
           (negb (v_lt zero mean) && negb (v_eq mean zero && v_eq cv zero), "MeanTooSmall")]
          [] (v_pinf mean).

(* KNOWN DEFECT class of LogNormal::from_mean_cv (decidable): cv is finite but a = 1 + cv*cv
   overflows to +inf (cv > ~1.34e154 in f64, > ~1.84e19 in f32).  Documented: Ok (cv finite, >= 0);
   real code: sigma = sqrt(ln(a)) = inf, rejected by the nested Normal::new => Err(BadVariance).  *)
Definition LN_a (cv : float) : float := fadd prec emax Hp Hpe one (fmul cv cv).
Definition LN_known (cv : float) : bool := v_fin cv && v_pinf (LN_a cv).

(* ---- exponential.rs ---- LambdaTooSmall: "`lambda < 0` or is `-0.0` is `nan`." *)
Definition spec_Exp_new (lambda : float) : expect :=
  spec_of [(v_lt lambda zero || neg_zero lambda || v_nan lambda, "LambdaTooSmall")] [] (v_pinf lambda).

(* ---- gamma.rs ---- ShapeTooSmall "`shape <= 0` or `nan`", ScaleTooSmall "`scale <= 0` or `nan`",
   ScaleTooLarge "`1 / scale == 0`" (documented but contradicted by the tests: Unspecified) *)
Definition spec_Gamma_new (shape scale : float) : expect :=
  spec_of [(le0_or_nan shape, "ShapeTooSmall"); (le0_or_nan scale, "ScaleTooSmall")]
          [(v_pinf scale, "ScaleTooLarge")] (v_pinf scale).

(* ---- chi_squared.rs / student_t.rs / fisher_f.rs ---- "`0.5 * k <= 0` or `nan`" *)
Definition spec_ChiSquared_new (k : float) : expect :=
  spec_of [(le0_or_nan (fmul half k), "DoFTooSmall")] [] (v_pinf k).
Definition spec_StudentT_new (nu : float) : expect := spec_ChiSquared_new nu.
Definition spec_FisherF_new (m n : float) : expect :=
  spec_of [(le0_or_nan (fmul half m), "MTooSmall"); (le0_or_nan (fmul half n), "NTooSmall")]
          [] (v_inf m || v_inf n).

(* ---- beta.rs ---- *)
Definition spec_Beta_new (alpha beta : float) : expect :=
  spec_of [(le0_or_nan alpha, "AlphaTooSmall"); (le0_or_nan beta, "BetaTooSmall")]
          [] (v_pinf alpha || v_pinf beta).

(* ---- pert.rs ---- RangeTooSmall "`max < min` or `min` or `max` is NaN" (Display: "requirement
   min < max is not met"), ModeRange "`mode < min` or `mode > max` or `mode` is NaN",
   ShapeTooSmall "`shape < 0` or `shape` is NaN" *)
Definition spec_Pert_with_mode (min max shape mode : float) : expect :=
  spec_of [(v_lt max min || v_nan min || v_nan max, "RangeTooSmall");
           (v_lt mode min || v_lt max mode || v_nan mode, "ModeRange");
           (v_lt shape zero || v_nan shape, "ShapeTooSmall")]
          [(v_eq max min, "RangeTooSmall")]
          (negb (v_fin (fsub max min)) || v_pinf shape).
Definition spec_Pert_with_mean (min max shape mean : float) : expect :=
  let mode := Pert_implied_mode prec emax Hp Hpe min max shape mean in
  if v_eq shape zero || negb (v_fin mode) then Unspecified
  else spec_Pert_with_mode min max shape mode.

(* ---- triangular.rs ---- *)
Definition spec_Triangular_new (min max mode : float) : expect :=
  spec_of [(v_lt max min || v_nan min || v_nan max, "RangeTooSmall");
           (v_lt mode min || v_lt max mode || v_nan mode, "ModeRange")]
          [] (v_inf min || v_inf max).

(* ---- cauchy.rs / pareto.rs / weibull.rs / inverse_gaussian.rs ---- "`x <= 0` or `nan`" *)
Definition spec_Cauchy_new (median scale : float) : expect :=
  spec_of [(le0_or_nan scale, "ScaleTooSmall")] [] (v_pinf scale).
Definition spec_Pareto_new (scale shape : float) : expect :=
  spec_of [(le0_or_nan scale, "ScaleTooSmall"); (le0_or_nan shape, "ShapeTooSmall")]
          [] (v_pinf scale || v_pinf shape).
Definition spec_Weibull_new (scale shape : float) : expect :=
  spec_of [(le0_or_nan scale, "ScaleTooSmall"); (le0_or_nan shape, "ShapeTooSmall")]
          [] (v_pinf scale || v_pinf shape).
Definition spec_InverseGaussian_new (mean shape : float) : expect :=
  spec_of [(le0_or_nan mean, "MeanNegativeOrNull"); (le0_or_nan shape, "ShapeNegativeOrNull")]
          [] (v_pinf mean || v_pinf shape).

(* ---- gumbel.rs / frechet.rs ---- "location is infinite or NaN", "scale is not finite positive
   number", "shape is not finite positive number" *)
Definition not_finite_positive (x : float) : bool := v_le x zero || v_pinf x || v_nan x.
Definition spec_Gumbel_new (location scale : float) : expect :=
  spec_of [(not_finite_positive scale, "ScaleNotPositive");
           (v_inf location || v_nan location, "LocationNotFinite")] [] false.
Definition spec_Frechet_new (location scale shape : float) : expect :=
  spec_of [(not_finite_positive scale, "ScaleNotPositive");
           (not_finite_positive shape, "ShapeNotPositive");
           (v_inf location || v_nan location, "LocationNotFinite")] [] false.

(* ---- skew_normal.rs ---- ScaleTooSmall "The scale parameter is not finite or it is less or
   equal to zero.", BadShape "The shape parameter is not finite." *)
Definition spec_SkewNormal_new (location scale shape : float) : expect :=
  spec_of [(negb (v_fin scale) || v_le scale zero, "ScaleTooSmall");
           (negb (v_fin shape), "BadShape")] [] false.

(* ---- normal_inverse_gaussian.rs ---- AlphaNegativeOrNull "`alpha <= 0` or `nan`",
   AlphaInfinite "`alpha` is `inf`", AbsoluteBetaNotLessThanAlpha "`|beta| >= alpha` or `nan`" *)
Definition spec_NormalInverseGaussian_new (alpha beta : float) : expect :=
  spec_of [(le0_or_nan alpha, "AlphaNegativeOrNull");
           (v_pinf alpha && v_fin beta, "AlphaInfinite");
           (v_le alpha (fabs beta) || v_nan beta, "AbsoluteBetaNotLessThanAlpha")] [] false.

(* ---- poisson.rs ---- ShapeTooSmall "`lambda <= 0`", NonFinite "`lambda = inf` or `lambda = nan`",
   ShapeTooLarge "`lambda` is too large, see Poisson::MAX_LAMBDA" (= 1.844e19, a real number) *)
Definition spec_Poisson_new (lambda : float) : expect :=
  spec_of [(v_inf lambda || v_nan lambda, "NonFinite");
           (v_le lambda zero, "ShapeTooSmall");
           (gtZ lambda MAX_LAMBDA_Z, "ShapeTooLarge")] [] false.

(* ---- binomial.rs ---- ProbabilityTooSmall "`p < 0` or `nan`", ProbabilityTooLarge "`p > 1`";
   every n : u64 is valid *)
Definition spec_Binomial_new (n : Z) (p : float) : expect :=
  spec_of [(v_lt p zero || v_nan p, "ProbabilityTooSmall"); (v_lt one p, "ProbabilityTooLarge")] [] false.

(* ---- geometric.rs ---- InvalidProbability "`p < 0 || p > 1` or `nan`" *)
Definition spec_Geometric_new (p : float) : expect :=
  spec_of [(v_lt p zero || v_lt one p || v_nan p, "InvalidProbability")] [] false.

(* ---- zeta.rs ---- STooSmall "`s <= 1` or `nan`" *)
Definition spec_Zeta_new (s : float) : expect :=
  spec_of [(v_le s one || v_nan s, "STooSmall")] [] (v_pinf s).

(* ---- zipf.rs ---- STooSmall "`s < 0` or `s` is `nan`", NTooSmall "`n < 1` or `n` is `nan`",
   IllDefined "`n = inf` and `s <= 1`" *)
Definition spec_Zipf_new (n s : float) : expect :=
  spec_of [(v_lt s zero || v_nan s, "STooSmall"); (v_lt n one || v_nan n, "NTooSmall");
           (v_pinf n && v_le s one, "IllDefined")] [] false.

(* ---- multi/dirichlet.rs ---- AlphaTooShort "`alpha.len() < 2`", AlphaTooSmall "`alpha <= 0.0`
   or `nan`", AlphaSubnormal "`alpha` is subnormal", AlphaInfinite "`alpha` is infinite";
   per element, the first offending element decides (Appendix B).  FailedToCreateGamma,
   FailedToCreateBeta, SizeTooSmall have no documented condition on alpha: never allowed.       *)
Fixpoint Dirichlet_first_offence (alpha : list float) : option string :=
  match alpha with
  | [] => None
  | a :: rest =>
    if le0_or_nan a then Some "AlphaTooSmall" else
    if v_pinf a then Some "AlphaInfinite" else
    if v_subnormal a then Some "AlphaSubnormal" else
    Dirichlet_first_offence rest
  end.
Definition spec_Dirichlet_new (alpha : list float) : expect :=
  if (List.length alpha <? 2)%nat then MustErr ["AlphaTooShort"] else
  match Dirichlet_first_offence alpha with
  | Some v => MustErr [v]
  | None => MustOk
  end.

End Fmt.
Arguments M : simpl never.
Arguments ext : simpl never.

(* ---- hypergeometric.rs (u64 arguments) ---- ProbabilityTooLarge "`population_with_feature >
   total_population_size`", SampleSizeTooLarge "`sample_size > total_population_size`",
   PopulationTooLarge "`total_population_size` is too large, causing floating point underflow"
   (value-dependent: allowed for every valid triple, never required)                           *)
Definition is_u64 (x : Z) : Prop := 0 <= x <= u64_max.
(* KNOWN DEFECT classes of Hypergeometric::new (decidable): VALID triples on which a debug build
   panics with an arithmetic overflow (a release build wraps):
   known1: `offset_x += n1 as i64 * sign_x` overflows i64: the feature group is the larger one
           (K > N-K, so sign_x = -1 and offset_x = n as i64), more than half the population is
           sampled (n > N/2), n >= 2^63 (so `n as i64` is negative) and n - (N-K) < 2^63.
           E.g. new(u64::MAX, u64::MAX - 1, 2^63).
   known2: `min_all + 1` overflows u64 in fraction_of_products_of_factorials:
           N = u64::MAX, K in {0, N}, n in {0, N}.  E.g. new(u64::MAX, u64::MAX, u64::MAX).      *)
Definition hyper_known1 (N K n : Z) : bool :=
  (K <=? N) && (n <=? N) && (K >? N - K) && (n >? N / 2) && (9223372036854775808 <=? n)
  && (n - (N - K) <? 9223372036854775808).
Definition hyper_known2 (N K n : Z) : bool :=
  (N =? u64_max)%Z && ((K =? 0)%Z || (K =? N)%Z) && ((n =? 0)%Z || (n =? N)%Z).
Definition hyper_known (N K n : Z) : bool := hyper_known1 N K n || hyper_known2 N K n.

Definition spec_Hypergeometric_new (N K n : Z) : expect :=
  spec_of [(K >? N, "ProbabilityTooLarge"); (n >? N, "SampleSizeTooLarge")] [] true.
