(* Model/GuardIO.v — harness-facing dispatch for C04: model result and documented-domain expectation by
   constructor name on IEEE bit patterns, and the two comparisons made for every argument tuple:
   model vs real crate (validates the hand model) and real crate vs documented spec (the direct oracle). *)
From Coq Require Import String ZArith List Bool.
From Flocq Require Import Core IEEE754.BinarySingleNaN.
From RD Require Import Model.Guards Model.GuardSpec.
Import ListNotations.
Open Scope Z_scope.

Section Fmt.
Variable prec emax : Z.
Context (Hp : Prec_gt_0 prec) (Hpe : Prec_lt_emax prec emax).
Variable dec : Z -> binary_float prec emax.
Variable is64 : bool.

Definition sp1 (f : binary_float prec emax -> expect) (a : list Z) : option expect :=
  match a with [x] => Some (f (dec x)) | _ => None end.
Definition sp2 (f : binary_float prec emax -> binary_float prec emax -> expect) (a : list Z) : option expect :=
  match a with [x; y] => Some (f (dec x) (dec y)) | _ => None end.
Definition sp3 (f : binary_float prec emax -> binary_float prec emax -> binary_float prec emax -> expect) (a : list Z) : option expect :=
  match a with [x; y; z] => Some (f (dec x) (dec y) (dec z)) | _ => None end.
Definition sp4 (f : binary_float prec emax -> binary_float prec emax -> binary_float prec emax -> binary_float prec emax -> expect)
  (a : list Z) : option expect :=
  match a with [x; y; z; w] => Some (f (dec x) (dec y) (dec z) (dec w)) | _ => None end.

Definition spec_gen (name : string) (a : list Z) : option expect :=
  if String.eqb name "Normal::new" then sp2 ltac:(first [exact (spec_Normal_new prec emax Hp Hpe) | exact (spec_Normal_new prec emax)]) a else
  if String.eqb name "Normal::from_mean_cv" then sp2 ltac:(first [exact (spec_Normal_from_mean_cv prec emax Hp Hpe) | exact (spec_Normal_from_mean_cv prec emax)]) a else
  if String.eqb name "LogNormal::new" then sp2 ltac:(first [exact (spec_LogNormal_new prec emax Hp Hpe) | exact (spec_LogNormal_new prec emax)]) a else
  if String.eqb name "LogNormal::from_mean_cv" then sp2 ltac:(first [exact (spec_LogNormal_from_mean_cv prec emax Hp Hpe) | exact (spec_LogNormal_from_mean_cv prec emax)]) a else
  if String.eqb name "Exp::new" then sp1 ltac:(first [exact (spec_Exp_new prec emax Hp Hpe) | exact (spec_Exp_new prec emax)]) a else
  if String.eqb name "Gamma::new" then sp2 ltac:(first [exact (spec_Gamma_new prec emax Hp Hpe) | exact (spec_Gamma_new prec emax)]) a else
  if String.eqb name "ChiSquared::new" then sp1 ltac:(first [exact (spec_ChiSquared_new prec emax Hp Hpe) | exact (spec_ChiSquared_new prec emax)]) a else
  if String.eqb name "StudentT::new" then sp1 ltac:(first [exact (spec_StudentT_new prec emax Hp Hpe) | exact (spec_StudentT_new prec emax)]) a else
  if String.eqb name "FisherF::new" then sp2 ltac:(first [exact (spec_FisherF_new prec emax Hp Hpe) | exact (spec_FisherF_new prec emax)]) a else
  if String.eqb name "Beta::new" then sp2 ltac:(first [exact (spec_Beta_new prec emax Hp Hpe) | exact (spec_Beta_new prec emax)]) a else
  if String.eqb name "Pert::with_mode" then sp4 ltac:(first [exact (spec_Pert_with_mode prec emax Hp Hpe) | exact (spec_Pert_with_mode prec emax)]) a else
  if String.eqb name "Pert::with_mean" then sp4 ltac:(first [exact (spec_Pert_with_mean prec emax Hp Hpe) | exact (spec_Pert_with_mean prec emax)]) a else
  if String.eqb name "Triangular::new" then sp3 ltac:(first [exact (spec_Triangular_new prec emax Hp Hpe) | exact (spec_Triangular_new prec emax)]) a else
  if String.eqb name "Cauchy::new" then sp2 ltac:(first [exact (spec_Cauchy_new prec emax Hp Hpe) | exact (spec_Cauchy_new prec emax)]) a else
  if String.eqb name "Pareto::new" then sp2 ltac:(first [exact (spec_Pareto_new prec emax Hp Hpe) | exact (spec_Pareto_new prec emax)]) a else
  if String.eqb name "Weibull::new" then sp2 ltac:(first [exact (spec_Weibull_new prec emax Hp Hpe) | exact (spec_Weibull_new prec emax)]) a else
  if String.eqb name "InverseGaussian::new" then sp2 ltac:(first [exact (spec_InverseGaussian_new prec emax Hp Hpe) | exact (spec_InverseGaussian_new prec emax)]) a else
  if String.eqb name "Gumbel::new" then sp2 ltac:(first [exact (spec_Gumbel_new prec emax Hp Hpe) | exact (spec_Gumbel_new prec emax)]) a else
  if String.eqb name "Frechet::new" then sp3 ltac:(first [exact (spec_Frechet_new prec emax Hp Hpe) | exact (spec_Frechet_new prec emax)]) a else
  if String.eqb name "SkewNormal::new" then sp3 ltac:(first [exact (spec_SkewNormal_new prec emax Hp Hpe) | exact (spec_SkewNormal_new prec emax)]) a else
  if String.eqb name "NormalInverseGaussian::new" then sp2 ltac:(first [exact (spec_NormalInverseGaussian_new prec emax Hp Hpe) | exact (spec_NormalInverseGaussian_new prec emax)]) a else
  if String.eqb name "Poisson::new" then sp1 ltac:(first [exact (spec_Poisson_new prec emax Hp Hpe) | exact (spec_Poisson_new prec emax)]) a else
  if String.eqb name "Binomial::new" then
    (if is64 then match a with [n; p] => Some (ltac:(first [exact (spec_Binomial_new prec emax Hp Hpe) | exact (spec_Binomial_new prec emax)]) n (dec p)) | _ => None end else None) else
  if String.eqb name "Geometric::new" then (if is64 then sp1 ltac:(first [exact (spec_Geometric_new prec emax Hp Hpe) | exact (spec_Geometric_new prec emax)]) a else None) else
  if String.eqb name "Zeta::new" then sp1 ltac:(first [exact (spec_Zeta_new prec emax Hp Hpe) | exact (spec_Zeta_new prec emax)]) a else
  if String.eqb name "Zipf::new" then sp2 ltac:(first [exact (spec_Zipf_new prec emax Hp Hpe) | exact (spec_Zipf_new prec emax)]) a else
  if String.eqb name "Hypergeometric::new" then
    (if is64 then match a with [N; K; n] => Some (spec_Hypergeometric_new N K n) | _ => None end else None) else
  if String.eqb name "Dirichlet::new" then Some (ltac:(first [exact (spec_Dirichlet_new prec emax Hp Hpe) | exact (spec_Dirichlet_new prec emax)]) (map dec a)) else
  None.
End Fmt.

Definition spec64 (name : string) (args : list Z) : option expect := spec_gen 53 1024 Hp64 Hpe64 dec64 true name args.
Definition spec32 (name : string) (args : list Z) : option expect := spec_gen 24 128 Hp32 Hpe32 dec32 false name args.

(* what the real crate returned *)
Definition rres (code : Z) (variant : string) : gres :=
  if code =? 0 then GOk else if code =? 1 then GErr variant else GPanic.

Definition gres_eqb (a b : gres) : bool :=
  match a, b with GOk, GOk => true | GPanic, GPanic => true | GErr x, GErr y => String.eqb x y | _, _ => false end.

(* per tuple: 10 * (model vs crate) + (crate vs documented spec); 0 = agree, 1 = disagree, 3 = not judged (no model/spec) *)
Definition gcase (is64 : bool) (name : string) (args : list Z) (code : Z) (variant : string) : Z :=
  let r := rres code variant in
  let m := match (if is64 then ctor64 name args else ctor32 name args) with
           | Some g => if gres_eqb g r then 0 else 1 | None => 3 end in
  let s := match (if is64 then spec64 name args else spec32 name args) with
           | Some e => if agreesb r e then 0 else 1 | None => 3 end in
  10 * m + s.
