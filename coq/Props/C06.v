(* Props/C06.v — the ziggurat tables regenerated from src/ziggurat_tables.rs satisfy the defining
   equations (every one of the 4 x 257 entries; proof by reflection through the verified interval
   evaluator).  The algorithm identities are in Props/C06_identity.v.  Statements only.            *)
From Coq Require Import Reals ZArith List.
From Interval Require Import Xreal.
From RD Require Import Base.Expr Gen.ZigTables Proofs.ZigTables.
Require RD.GenBase.ZigTables RD.Gen.Consts RD.GenBase.Consts RD.Gen.ZigNormTail.
Import ListNotations.
Open Scope Z_scope.

(* abscissae strictly decreasing, density table strictly increasing *)
Theorem C06_norm_strict_mono : forall i, (i <= 255)%nat ->
  RLt (ent ZIG_NORM_X (S i)) (ent ZIG_NORM_X i) /\ RLt (ent ZIG_NORM_F i) (ent ZIG_NORM_F (S i)).
Proof. exact (zig_strict_mono _ _ norm_chk_mono). Qed.
Theorem C06_exp_strict_mono : forall i, (i <= 255)%nat ->
  RLt (ent ZIG_EXP_X (S i)) (ent ZIG_EXP_X i) /\ RLt (ent ZIG_EXP_F i) (ent ZIG_EXP_F (S i)).
Proof. exact (zig_strict_mono _ _ exp_chk_mono). Qed.

(* |f(X_i) - F_i| <= 1e-14 for all 257 entries; f = exp(-x^2/2) resp. exp(-x) *)
Theorem C06_norm_f_is_pdf : forall i, (i <= 256)%nat -> RLe (err_f pdf_norm ZIG_NORM_X ZIG_NORM_F i) (tenm 14).
Proof. exact (zig_f_is_pdf _ _ _ norm_chk_f). Qed.
Theorem C06_exp_f_is_pdf : forall i, (i <= 256)%nat -> RLe (err_f pdf_exp ZIG_EXP_X ZIG_EXP_F i) (tenm 14).
Proof. exact (zig_f_is_pdf _ _ _ exp_chk_f). Qed.

(* |X_i (F_{i+1} - F_i) / (X_0 F_1) - 1| <= 1e-8 for the layers 1..255 *)
Theorem C06_norm_layer_areas : forall i, (1 <= i <= 255)%nat -> RLe (err_area ZIG_NORM_X ZIG_NORM_F i) (tenm 8).
Proof. exact (zig_layer_areas _ _ norm_chk_area). Qed.
Theorem C06_exp_layer_areas : forall i, (1 <= i <= 255)%nat -> RLe (err_area ZIG_EXP_X ZIG_EXP_F i) (tenm 8).
Proof. exact (zig_layer_areas _ _ exp_chk_area). Qed.

(* base strip of the exponential: |(X_1 F_1 + e^{-r}) / (X_0 F_1) - 1| <= 1e-8 *)
Theorem C06_exp_base_area : RLe (err_base ZIG_EXP_X ZIG_EXP_F (pdf_exp (dyx ZIG_EXP_R))) (tenm 8).
Proof. exact (le_b_sound _ _ exp_chk_base). Qed.

(* end points: 257 entries, X_256 = 0, F_256 = 1, X_1 = R *)
Theorem C06_norm_ends : chk_ends ZIG_NORM_X ZIG_NORM_F ZIG_NORM_R = true.
Proof. exact norm_chk_ends. Qed.
Theorem C06_exp_ends : chk_ends ZIG_EXP_X ZIG_EXP_F ZIG_EXP_R = true.
Proof. exact exp_chk_ends. Qed.

(* the meaning of the decided relations *)
Theorem C06_RLe_meaning : forall a b, le_b a b = true ->
  exists x y, evalX a = Xreal x /\ evalX b = Xreal y /\ (x <= y)%R.
Proof. exact le_b_sound. Qed.

(* the sampler code the model was written against is the code in the tree (regenerated fingerprints) *)
Theorem C06_fingerprints :
  Gen.Consts.fp_utils____ziggurat = GenBase.Consts.fp_utils____ziggurat /\
  Gen.Consts.fp_normal__StandardNormal_Distribution_f64_sample__pdf = GenBase.Consts.fp_normal__StandardNormal_Distribution_f64_sample__pdf /\
  Gen.Consts.fp_normal__StandardNormal_Distribution_f64_sample__zero_case = GenBase.Consts.fp_normal__StandardNormal_Distribution_f64_sample__zero_case /\
  Gen.Consts.fp_exponential__Exp1_Distribution_f64_sample__pdf = GenBase.Consts.fp_exponential__Exp1_Distribution_f64_sample__pdf /\
  Gen.Consts.fp_exponential__Exp1_Distribution_f64_sample__zero_case = GenBase.Consts.fp_exponential__Exp1_Distribution_f64_sample__zero_case.
Proof. repeat split; reflexivity. Qed.

(* base strip of the normal: |(X_1 F_1 + int_r^40 exp(-x^2/2) dx) / (X_0 F_1) - 1| <= 1e-8 (the integral beyond 40 is below 1e-340);
   Gen/ZigNormTail.v is regenerated from the table literals and proved with Coq-Interval's `integral` tactic on every change *)
(* statement (see Gen/ZigNormTail.v):  Rabs ((zn_x1 * zn_f1 + RInt (fun x => exp (-(x*x)/2)) zn_r 40) / (zn_x0 * zn_f1) - 1) <= 1 / 10^8 *)
Theorem C06_norm_base_area : ltac:(let t := type of Gen.ZigNormTail.norm_base_area in exact t).
Proof. exact Gen.ZigNormTail.norm_base_area. Qed.
(* the constants of that lemma are the table entries *)
Theorem C06_norm_base_consts :
  Gen.ZigNormTail.zn_dy = [ZIG_NORM_R; nth 0 ZIG_NORM_X (0,0); nth 1 ZIG_NORM_X (0,0); nth 1 ZIG_NORM_F (0,0)].
Proof. reflexivity. Qed.

Print Assumptions C06_norm_base_area.
Print Assumptions C06_norm_base_consts.
Print Assumptions C06_norm_strict_mono.
Print Assumptions C06_exp_strict_mono.
Print Assumptions C06_norm_f_is_pdf.
Print Assumptions C06_exp_f_is_pdf.
Print Assumptions C06_norm_layer_areas.
Print Assumptions C06_exp_layer_areas.
Print Assumptions C06_exp_base_area.
Print Assumptions C06_norm_ends.
Print Assumptions C06_exp_ends.
Print Assumptions C06_RLe_meaning.
Print Assumptions C06_fingerprints.
