(* Props/C05_bounds.v — property C05 (sampling terminates with a small, bounded consumption of random
   words; no parameter value makes sampling loop forever), parts on the loops of the discrete samplers.
   Statements only; proofs in Proofs/LoopBoundsFloat.v (IEEE binary64, Flocq) and Proofs/LoopBounds.v
   (ideal models of Model/Discrete.v).
     evals r v      the exact semantics of the decision tree r returns v                  (Base/Run.v)
     fails r c      the exact semantics of r reaches the leaf `Fail c`           (Proofs/LoopBounds.v)
                    codes: 1 = words exhausted, 2 = loop fuel exhausted, 3 = panic in the code
     allout P Q r   every returned value satisfies P and every reachable failure code satisfies Q
     word w         0 <= w < 2^64                                                                        *)
From Coq Require Import Reals ZArith List Lra Lia Bool.
From Interval Require Import Xreal.
From Flocq Require Import Core.Core IEEE754.BinarySingleNaN.
From RD Require Import Base.Expr Base.Run Model.Sampler Model.Continuous Model.Discrete Model.Multi
  Proofs.LawsInvCdf Proofs.LoopBoundsFloat Proofs.LoopBounds Proofs.ConsumptionDiscrete.
Import ListNotations.

(* ======== 1. Geometric::new on IEEE binary64: pi = pi*pi; while pi > 0.5 { k += 1; pi = pi*pi } ======== *)
Section Float.
Open Scope R_scope.
(* binary64 product, round to nearest even (Hp53 : 0 < 53 and Hpe53 : 53 < 1024 are `eq_refl`) *)
Local Notation mul64 := (@Bmult 53 1024 Hp53 Hpe53 mode_NE).

(* squaring a binary64 value of (1/2, 1) loses at least one ulp (2^-53) and stays >= 1/4 *)
Theorem C05_fsq_decreases : forall x : binary_float 53 1024, is_finite x = true -> / 2 < B2R x < 1 ->
  is_finite (mul64 x x) = true /\
  / 4 <= B2R (mul64 x x) <= B2R x - bpow radix2 (-53) /\
  B2R (mul64 x x) < B2R x.
Proof. exact fsq_decreases. Qed.

(* the loop (geo_newB: fuel 64, comparison against the float 0.5, mul64) terminates with
   1 <= k <= 53 for every finite pi0 in [0, 1); the final pi is in [0, 1/2], and >= 1/4 if pi0 >= 1/2 *)
Theorem C05_geometric_new_terminates : forall pi0 : binary_float 53 1024,
  is_finite pi0 = true -> 0 <= B2R pi0 < 1 ->
  exists pi k, geo_newB pi0 = Some (pi, k) /\ (1 <= k <= 53)%Z /\ is_finite pi = true /\
               0 <= B2R pi <= / 2 /\ (/ 2 <= B2R pi0 -> / 4 <= B2R pi).
Proof. exact geometric_new_terminates. Qed.
(* what geo_newB is *)
Theorem C05_geo_newB_unfold : forall pi0 fuel pi k,
  geo_newB pi0 = geo_new_loopB 64 (mul64 pi0 pi0) 1 /\
  geo_new_loopB 0 pi k = None /\
  geo_new_loopB (S fuel) pi k =
    (if Bltb half64 pi then geo_new_loopB fuel (mul64 pi pi) (k + 1) else Some (pi, k)) /\
  B2R half64 = / 2.
Proof. exact (fun pi0 fuel pi k => conj eq_refl (conj eq_refl (conj eq_refl half64_val))). Qed.
(* pi0 <= 1/2: the loop body never runs, k = 1 *)
Theorem C05_geometric_new_small : forall pi0 : binary_float 53 1024,
  is_finite pi0 = true -> 0 <= B2R pi0 <= / 2 -> geo_newB pi0 = Some (mul64 pi0 pi0, 1%Z).
Proof. exact geometric_new_small. Qed.
(* exact arithmetic: x^(2^j) <= 1/2 for 0 <= x <= 1 - 2^-j *)
Theorem C05_exact_squarings_bound : forall x (j : nat), 0 <= x <= 1 - / 2 ^ j -> x ^ (2 ^ j) <= / 2.
Proof. exact exact_squarings_bound. Qed.

(* the worst case pi0 = 1 - 2^-53 needs exactly k = 53 *)
Example C05_ex_geometric_new_worst :
  option_map snd (geo_newB (@B754_finite 53 1024 false 9007199254740991 (-53) eq_refl)) = Some 53%Z.
Proof. vm_compute. reflexivity. Qed.
End Float.

Open Scope Z_scope.

(* ======== 2. the loops of the models of Model/Discrete.v ================================================ *)
Theorem C05_allout_meaning : forall A (P : A -> Prop) (Q : Z -> Prop) r,
  allout P Q r <-> (forall v, evals r v -> P v) /\ (forall c, fails r c -> Q c).
Proof. exact @allout_spec. Qed.
Theorem C05_evals_fails_excl : forall A (r : run A) v c, evals r v -> fails r c -> False.
Proof. exact @evals_fails_excl. Qed.

(* (a) StandardGeometric: result x >= 0, exactly x / 64 + 1 words consumed; the fuel (64 iterations) is
   exhausted only by 64 consecutive zero words *)
Theorem C05_std_geometric_words : forall ws x rest, Forall word ws -> evals (std_geometric ws) (x, rest) ->
  0 <= x < 64 * 64 /\ length ws = (length rest + Z.to_nat (x / 64) + 1)%nat.
Proof. exact std_geometric_words. Qed.
Theorem C05_std_geometric_fuel : forall ws, Forall word ws -> fails (std_geometric ws) 2 ->
  (64 <= length ws)%nat /\ Forall (fun w => w = 0) (firstn 64 ws).
Proof. exact std_geometric_fuel. Qed.
Theorem C05_std_geometric_loop_words : forall fuel result ws x rest, Forall word ws ->
  evals (std_geometric_loop fuel result ws) (x, rest) ->
  result <= x /\ (x - result) / 64 < Z.of_nat fuel /\
  length ws = (length rest + Z.to_nat ((x - result) / 64) + 1)%nat.
Proof. exact std_geometric_loop_words. Qed.
Example C05_ex_std_geometric : std_geometric [0; 1; 7] = Ret (127, [7]).
Proof. vm_compute. reflexivity. Qed.

(* (b) BINV: the inner loop with fuel >= 111 (the model gives 112) never fails, reads no word, and returns
   Some x with x <= 110 or None (restart); every pass of the outer loop consumes exactly one word *)
Theorem C05_binv_inner_no_fuel_exhaustion : forall fuel a s u r ws, (111 <= fuel)%nat ->
  forall c, ~ fails (binv_inner fuel a s u r 0 ws) c.
Proof. exact binv_inner_no_fuel_exhaustion. Qed.
Theorem C05_binv_inner_result : forall fuel a s u r ws o rest, (111 <= fuel)%nat ->
  evals (binv_inner fuel a s u r 0 ws) (o, rest) ->
  rest = ws /\ match o with Some y => 0 <= y <= 110 | None => True end.
Proof. exact binv_inner_result. Qed.
Theorem C05_binv_outer_words : forall fuel r a s ws x rest, evals (binv_outer fuel r a s ws) (x, rest) ->
  0 <= x <= 110 /\ exists j, (1 <= j <= fuel)%nat /\ length ws = (length rest + j)%nat.
Proof. exact binv_outer_words. Qed.
Theorem C05_binv_outer_fail : forall fuel r a s ws c, fails (binv_outer fuel r a s ws) c ->
  (c = 1 /\ (length ws < fuel)%nat) \/ (c = 2 /\ (fuel <= length ws)%nat).
Proof. exact binv_outer_fail. Qed.
Example C05_ex_binv : forall a s u r ws, ~ fails (binv_inner 112 a s u r 0 ws) 2.
Proof. intros a s u r ws. apply binv_inner_no_fuel_exhaustion. repeat constructor. Qed.

(* (c) Knuth's Poisson loop: result x >= 0 and exactly x + 1 words consumed *)
Theorem C05_knuth_words : forall t lambda ws x rest, evals (knuth t lambda ws) (x, rest) ->
  0 <= x < 1024 /\ length ws = (length rest + Z.to_nat x + 1)%nat.
Proof. exact knuth_words. Qed.
Theorem C05_knuth_loop_words : forall fuel t el p result ws x rest,
  evals (knuth_loop fuel t el p result ws) (x, rest) ->
  result - 1 <= x < result - 1 + Z.of_nat fuel /\ length ws = (length rest + Z.to_nat (x - (result - 1)))%nat.
Proof. exact knuth_loop_words. Qed.
Theorem C05_knuth_fail : forall t lambda ws c, fails (knuth t lambda ws) c ->
  (c = 1 /\ (length ws < 1025)%nat) \/ (c = 2 /\ (1025 <= length ws)%nat).
Proof. exact knuth_fail. Qed.
Example C05_ex_knuth : forall t lambda ws rest, evals (knuth t lambda ws) (3, rest) -> length ws = (length rest + 4)%nat.
Proof. intros t lambda ws rest E. destruct (knuth_words _ _ _ _ _ E) as [_ H]. lia. Qed.

(* (d) HIN: with the model's fuel the loop never fails, reads no word, makes at most min(n1,k) - x0
   iterations; together with its uniform draw exactly one word is consumed *)
Theorem C05_hin_loop_no_fuel_exhaustion : forall n1 n2 k u p x0 ws c, x0 <= Z.min n1 k ->
  ~ fails (hin_loop (Z.to_nat (Z.min n1 k - x0) + 2) n1 n2 k u p x0 ws) c.
Proof. exact hin_loop_no_fuel_exhaustion. Qed.
Theorem C05_hin_loop_result : forall n1 n2 k u p x0 ws x rest, x0 <= Z.min n1 k ->
  evals (hin_loop (Z.to_nat (Z.min n1 k - x0) + 2) n1 n2 k u p x0 ws) (x, rest) ->
  rest = ws /\ x0 <= x <= Z.min n1 k.
Proof. exact hin_loop_result. Qed.
Theorem C05_hin_one_word : forall n1 n2 k p x0 ws, x0 <= Z.min n1 k ->
  allout (fun q => length ws = S (length (snd q)) /\ x0 <= fst q <= Z.min n1 k) (fun c => c = 1 /\ ws = [])
         (sbind (draw_std F64) (fun u => hin_loop (Z.to_nat (Z.min n1 k - x0) + 2) n1 n2 k u p x0) ws).
Proof. exact hin_one_word. Qed.
Example C05_ex_hin : forall u p ws c, ~ fails (hin_loop 4 3 5 2 u p 0 ws) c.
Proof. intros u p ws c. apply (hin_loop_no_fuel_exhaustion 3 5 2 u p 0 ws c). discriminate. Qed.

(* (e) product loops: BTPE 5.1 multiplies / divides by exactly cnt factors a/j - s, j = i+1 .. i+cnt, and
   cnt = |y - m|; the H2PE 4.1 loops read no word, fail only with the code-3 panic, and not at all when
   the index range stays within min(n1,k) *)
Theorem C05_btpe_up_fold : forall cnt a s i f,
  btpe_up cnt a s i f = oget (fold_left (fun acc j => omul acc (btpe_g a s j)) (idx i cnt) f) /\
  length (idx i cnt) = cnt.
Proof. exact (fun cnt a s i f => conj (btpe_up_fold cnt a s i f) (idx_length i cnt)). Qed.
Theorem C05_btpe_down_fold : forall cnt a s i f,
  btpe_down cnt a s i f = fold_left (fun acc j => Bin Div acc (btpe_g a s j)) (idx i cnt) f.
Proof. exact btpe_down_fold. Qed.
Theorem C05_btpe_51_count : forall m y,
  (m < y -> Z.to_nat (y - m) = Z.abs_nat (y - m)) /\ (y < m -> Z.to_nat (m - y) = Z.abs_nat (y - m)).
Proof. exact btpe_51_count. Qed.
Theorem C05_h2pe_up_spec : forall cnt n1 n2 k i f ws,
  allout (fun q => snd q = ws) (fun c => c = 3) (h2pe_up cnt n1 n2 k i f ws).
Proof. exact h2pe_up_spec. Qed.
Theorem C05_h2pe_down_spec : forall cnt n1 n2 k i f ws,
  allout (fun q => snd q = ws) (fun c => c = 3) (h2pe_down cnt n1 n2 k i f ws).
Proof. exact h2pe_down_spec. Qed.
Theorem C05_h2pe_up_value : forall cnt n1 n2 k i f ws, i + Z.of_nat cnt <= Z.min n1 k ->
  h2pe_up cnt n1 n2 k i f ws = Ret (oget (fold_left (h2pe_step_up n1 n2 k) (idx i cnt) f), ws).
Proof. exact h2pe_up_value. Qed.
Theorem C05_h2pe_down_value : forall cnt n1 n2 k i f ws, i + Z.of_nat cnt <= Z.min n1 k ->
  h2pe_down cnt n1 n2 k i f ws = Ret (oget (fold_left (h2pe_step_down n1 n2 k) (idx i cnt) f), ws).
Proof. exact h2pe_down_value. Qed.
Example C05_ex_btpe_up : forall a s, btpe_up 2 a s 5 None = Bin Mul (btpe_g a s 6) (btpe_g a s 7).
Proof. reflexivity. Qed.

(* Geometric::new on the ideal (exact real) model: from pi0 = 1 - p, 2^-54 <= p <= 1, the loop returns
   1 <= k <= 54 without reading a word and cannot fail: fuel 64 suffices and `1 << k` cannot overflow *)
Theorem C05_geo_new_loop_model_result : forall p ws pi k rest, (/ 2 ^ 54 <= dyR p <= 1)%R ->
  evals (geo_new_loop 64 (Un Sqr (Bin Sub one (dyx p))) 1 ws) (pi, k, rest) -> 1 <= k <= 54 /\ rest = ws.
Proof. exact geo_new_loop_model_result. Qed.
Theorem C05_geo_new_loop_model_no_fail : forall p ws c, (/ 2 ^ 54 <= dyR p <= 1)%R ->
  ~ fails (geo_new_loop 64 (Un Sqr (Bin Sub one (dyx p))) 1 ws) c.
Proof. exact geo_new_loop_model_no_fail. Qed.
Theorem C05_rounds_to_one_false : forall p, rounds_to_one p = false -> (/ 2 ^ 54 < dyR p)%R.
Proof. exact rounds_to_one_false. Qed.

(* ======== 3. no constant rejection: for all parameters some word list is accepted ======================= *)
Theorem C05_geo_m_accepts : forall f p k w2 ws, word w2 -> evals (geo_m (S f) p k (0 :: w2 :: ws)) (0, ws).
Proof. exact geo_m_accepts. Qed.
Theorem C05_geo_trivial_accepts : forall f p x n ws, evalX p = Xreal x -> (0 <= x)%R ->
  evals (geo_trivial (S f) p n (0 :: ws)) (n, ws).
Proof. exact geo_trivial_accepts. Qed.
Theorem C05_geo_d_accepts : forall f pi x n ws, evalX pi = Xreal x -> (x <= / 2)%R ->
  evals (geo_d (S f) pi n ((2 ^ 64 - 1) :: ws)) (n, ws).
Proof. exact geo_d_accepts. Qed.
Theorem C05_unit_disc_accepts : forall f t ws,
  evals (unit_disc_loop (S f) t (2 ^ 63 :: 2 ^ 63 :: ws)) ([u_pm1 t (2 ^ 63); u_pm1 t (2 ^ 63)], ws).
Proof. exact unit_disc_accepts. Qed.
Example C05_ex_geo_m : forall p, evals (geo_m 256 p 5 [0; 12345; 9]) (0, [9]).
Proof. intros p. apply (geo_m_accepts 255 p 5 12345 [9]). split; [discriminate|reflexivity]. Qed.

Print Assumptions C05_fsq_decreases.
Print Assumptions C05_geometric_new_terminates.
Print Assumptions C05_geo_newB_unfold.
Print Assumptions C05_geometric_new_small.
(* ======== 4. BTPE and H2PE: exactly two words per proposal, for every word list and ALL parameters =========== *)
Theorem C05_two_per_iter_def : forall fuel ws q,
  two_per_iter fuel ws q <-> exists j : nat, (1 <= j <= fuel)%nat /\ length ws = (length (snd q) + 2 * j)%nat.
Proof. intros. reflexivity. Qed.
Theorem C05_btpe_loop_words : forall n pe fuel m p1 x_m x_l x_r c p2 lambda_l lambda_r p3 p4 ws,
  allout (two_per_iter fuel ws) (fun _ => True) (btpe_loop n pe fuel m p1 x_m x_l x_r c p2 lambda_l lambda_r p3 p4 ws).
Proof. exact btpe_loop_words. Qed.
Theorem C05_h2pe_loop_words : forall n1 n2 k m a lambda_l lambda_r x_l x_r p1 p2 p3 fuel ws,
  allout (two_per_iter fuel ws) (fun _ => True) (h2pe_loop n1 n2 k m a lambda_l lambda_r x_l x_r p1 p2 p3 fuel ws).
Proof. exact h2pe_loop_words. Qed.

Print Assumptions C05_two_per_iter_def.
Print Assumptions C05_btpe_loop_words.
Print Assumptions C05_h2pe_loop_words.
Print Assumptions C05_exact_squarings_bound.
Print Assumptions C05_allout_meaning.
Print Assumptions C05_evals_fails_excl.
Print Assumptions C05_std_geometric_words.
Print Assumptions C05_std_geometric_fuel.
Print Assumptions C05_std_geometric_loop_words.
Print Assumptions C05_binv_inner_no_fuel_exhaustion.
Print Assumptions C05_binv_inner_result.
Print Assumptions C05_binv_outer_words.
Print Assumptions C05_binv_outer_fail.
Print Assumptions C05_knuth_words.
Print Assumptions C05_knuth_loop_words.
Print Assumptions C05_knuth_fail.
Print Assumptions C05_hin_loop_no_fuel_exhaustion.
Print Assumptions C05_hin_loop_result.
Print Assumptions C05_hin_one_word.
Print Assumptions C05_btpe_up_fold.
Print Assumptions C05_btpe_down_fold.
Print Assumptions C05_btpe_51_count.
Print Assumptions C05_h2pe_up_spec.
Print Assumptions C05_h2pe_down_spec.
Print Assumptions C05_h2pe_up_value.
Print Assumptions C05_h2pe_down_value.
Print Assumptions C05_geo_new_loop_model_result.
Print Assumptions C05_geo_new_loop_model_no_fail.
Print Assumptions C05_rounds_to_one_false.
Print Assumptions C05_geo_m_accepts.
Print Assumptions C05_geo_trivial_accepts.
Print Assumptions C05_geo_d_accepts.
Print Assumptions C05_unit_disc_accepts.
