(* Props/C04_fl.v — property C04 (accessor clause) at the IEEE-754 level: Normal::from_mean_cv(mean, cv) stores std_dev = cv * mean
   (normal.rs:207), one rounded multiplication, read off /repo on every run (Gen/FlProg.v).  Hence std_dev() returns exactly
   fl(cv * mean) - what the accessor oracle of corr/c04.py compares bit for bit - finite absent overflow, within u |cv mean| + eta of
   the real product, and of the sign of mean (cv >= 0).  Proofs in Proofs/ScaleFl.v.                                              *)
From Coq Require Import ZArith Bool Reals.
From Flocq Require Import Core.Core IEEE754.BinarySingleNaN.
From RD Require Import Proofs.AffineFl Proofs.ScaleFl Gen.FlProg.
Open Scope R_scope.

Theorem C04_from_mean_cv_source : forall prec emax (Hp : Prec_gt_0 prec) (Hpe : Prec_lt_emax prec emax) (cv mean : binary_float prec emax),
  src_normal_from_mean_cv_std_dev prec emax Hp Hpe cv mean = scale_fl prec emax Hp Hpe cv mean /\
  scale_fl prec emax Hp Hpe cv mean = Bmult mode_NE cv mean.
Proof. intros. split; reflexivity. Qed.

Theorem C04_from_mean_cv_std_dev : forall prec emax (Hp : Prec_gt_0 prec) (Hpe : Prec_lt_emax prec emax) (cv mean : binary_float prec emax),
  is_finite cv = true -> is_finite mean = true -> Rabs (rnd prec emax (B2R cv * B2R mean)) < bpow radix2 emax ->
  B2R (scale_fl prec emax Hp Hpe cv mean) = rnd prec emax (B2R cv * B2R mean) /\
  is_finite (scale_fl prec emax Hp Hpe cv mean) = true /\
  Rabs (B2R (scale_fl prec emax Hp Hpe cv mean) - B2R cv * B2R mean) <= u prec * Rabs (B2R cv * B2R mean) + eta prec emax.
Proof.
  intros prec emax Hp Hpe cv mean Fc Fm O. destruct (scale_fl_value prec emax Hp Hpe cv mean Fc Fm O) as [V F].
  split; [exact V|]. split; [exact F|]. exact (scale_fl_error prec emax Hp Hpe cv mean Fc Fm O).
Qed.

Theorem C04_from_mean_cv_sign : forall prec emax (Hp : Prec_gt_0 prec) (Hpe : Prec_lt_emax prec emax) (cv mean : binary_float prec emax),
  is_finite cv = true -> is_finite mean = true -> Rabs (rnd prec emax (B2R cv * B2R mean)) < bpow radix2 emax ->
  0 <= B2R cv -> 0 <= B2R mean -> 0 <= B2R (scale_fl prec emax Hp Hpe cv mean).
Proof. exact scale_fl_nonneg. Qed.

Print Assumptions C04_from_mean_cv_source.
Print Assumptions C04_from_mean_cv_std_dev.
Print Assumptions C04_from_mean_cv_sign.
