(* Props/C03_discrete.v — part of property C03 on the EXECUTABLE discrete sampler models of
   Model/Discrete.v (the decision trees that C02's pathwise correspondence runs against the crate on
   identical parameter bits and RNG words): under the exact real semantics, for EVERY word list,
   every value a model returns lies in the support, and failure code 3 — the model's marker for the
   places where the code would panic (u64 underflow, `1 << 64`, overflowing add, f64_to_u64
   assertion, table index out of range) — is unreachable.
   Statements only; proofs in Proofs/SupportDiscrete.v.
     allout P Q r   every value returned by the exact semantics of r satisfies P and every reachable
                    failure code satisfies Q                       (Proofs/LoopBounds.v, C05_allout_meaning)
     nopanic c      c <> 3   (codes 1 = explicit word list exhausted, 2 = fuel of the model: see C05)
     dyR q          real value of the dyadic parameter q = (m, e)
   All seven discrete samplers are covered: StandardGeometric, Geometric, Zeta, Zipf, Poisson (Knuth and
   PD), Binomial (constant, Poisson limit, BINV, BTPE, flip), Hypergeometric (HIN, H2PE, reflections).
   The float program deviates from the ideal model at isolated draws (findings F6, F16 for Zipf, F9 for
   Binomial(u64::MAX, 0.5)); those are decided on the real code by the lattice oracle of this check.   *)
From Coq Require Import Reals ZArith List Lra Lia.
From Interval Require Import Xreal.
From RD Require Import Base.Expr Base.Run Model.Sampler Model.Continuous Model.Discrete
  Proofs.LawsInvCdf Proofs.LoopBounds Proofs.PmfBinomial Proofs.SupportDiscrete Proofs.SupportHyper.
Import ListNotations.
Open Scope Z_scope.

Theorem C03_nopanic_def : forall c, nopanic c <-> c <> 3.
Proof. intros c. reflexivity. Qed.

Theorem C03_allout_meaning : forall A (P : A -> Prop) (Q : Z -> Prop) r,
  allout P Q r <-> (forall v, evals r v -> P v) /\ (forall c, fails r c -> Q c).
Proof. exact @allout_spec. Qed.

(* StandardGeometric *)
Theorem C03_std_geometric_support : forall ws, Forall word ws ->
  allout (fun q => 0 <= fst q < 64 * 64) nopanic (std_geometric ws).
Proof. exact std_geometric_support. Qed.

(* Geometric(p), 0 < p <= 1 (all three branches: p >= 2/3, 1 - p == 1, and the power-of-two split:
   the shift `1 << k` has k <= 54 and `(d << k) + m` does not overflow) *)
Theorem C03_geometric_support : forall p ws, (0 < dyR p <= 1)%R ->
  allout (fun q => 0 <= fst q < 2 ^ 64) nopanic (geometric p ws).
Proof. exact geometric_support. Qed.

(* Zeta(s), s > 1: an integer >= 1, or -1 which stands for the documented +infinity of the proposal *)
Theorem C03_zeta_support : forall t s ws, (1 < dyR s)%R -> Forall word ws ->
  allout (fun q => fst q = -1 \/ 1 <= fst q) nopanic (zeta t s ws).
Proof. exact zeta_support. Qed.

(* Zipf(n, s), n an integer >= 1, s >= 0 (all of s = 1, s < 1, s > 1): an integer in [1, n] *)
Theorem C03_zipf_support : forall t n s N, dyR n = IZR N -> 1 <= N -> (0 <= dyR s)%R -> forall ws, Forall word ws ->
  allout (fun r => 1 <= fst r <= N) nopanic (zipf t n s ws).
Proof. exact zipf_support. Qed.

(* Poisson(lambda), lambda > 0, both methods (Knuth below 12, Ahrens-Dieter PD from 12): a
   nonnegative integer; the index into the factorial table of step F is never negative *)
Theorem C03_poisson_support : forall t lambda ws, (0 < dyR lambda)%R ->
  allout (fun q => 0 <= fst q) nopanic (poisson t lambda ws).
Proof. exact poisson_support. Qed.

(* Binomial, BINV: with the constants of the set-up (a = (n+1)s, s = p/q, r = q^n) the walk stops at
   x <= n for every uniform draw (u < 1 = r_0 + ... + r_n), so `n - sample` cannot underflow *)
Theorem C03_binv_support : forall (n : nat) (p : R), (0 < p < 1)%R -> forall fuel a s r ws,
  evalX a = Xreal ((INR n + 1) * (p / (1 - p))) -> evalX s = Xreal (p / (1 - p)) ->
  evalX r = Xreal ((1 - p) ^ n) -> Forall word ws ->
  allout (fun q => 0 <= fst q <= Z.of_nat n) nopanic (binv_outer fuel r a s ws).
Proof. exact binv_outer_le_n. Qed.

(* Binomial, BTPE (n p >= 10 after the flip to p <= 1/2): the two f64_to_u64 assertions (set-up and
   regions 1-3), the saturating cast of region 4 and the u64 subtraction n - y of step 5.3 are safe:
   p1 >= 2.5, x_l = m - floor(2.195 sqrt(npq) - 4.6 q) >= 0, x_r <= n - 1, lambda_l > 0 *)
Theorem C03_btpe_support : forall n pe p flipped ws, evalX pe = Xreal p -> (0 < p <= 1 / 2)%R -> (10 <= IZR n * p)%R ->
  0 <= n <= U64MAX -> Forall word ws ->
  allout (fun q => 0 <= fst q <= n) nopanic (btpe n pe flipped ws).
Proof. exact btpe_support. Qed.

(* Binomial(n, p), every u64 n and every p in [0, 1]: constant, Poisson limit (1 - p == 1.0), BINV and
   BTPE, with and without the p > 1/2 flip *)
Theorem C03_binomial_support : forall n p ws, 0 <= n <= U64MAX -> (0 <= dyR p <= 1)%R -> Forall word ws ->
  allout (fun q => 0 <= fst q <= n) nopanic (binomial n p ws).
Proof. exact binomial_support. Qed.

(* Hypergeometric, the H2PE branch on reduced parameters (n1 <= n2, 2k <= N, mode m >= 10): region 1
   (which has no range test in the code) stays inside [0, min(n1,k)], so the u64 products of step 4.1
   cannot underflow; lambda_l, lambda_r > 0 and p3 >= 0 whenever they are defined *)
Theorem C03_h2pe_branch_support : forall n n1 n2 k m ws,
  n1 + n2 = n -> 0 <= n1 <= n2 -> 0 <= k -> 2 * k <= n -> 10 <= m ->
  (IZR m <= (IZR k + 1) * (IZR n1 + 1) / (IZR n + 2) < IZR m + 1)%R -> Forall word ws ->
  allout (fun q => 0 <= fst q <= Z.min n1 k) nopanic (h2pe_branch n n1 n2 k m ws).
Proof. exact h2pe_branch_support. Qed.

(* Hypergeometric(N, K, n), K <= N, n <= N, N < 2^51 (beyond: failure code 4, outside the model): HIN
   and H2PE under all four combinations of the symmetry reductions *)
Theorem C03_hypergeometric_support : forall N K ns ws, 0 <= K <= N -> 0 <= ns <= N -> Forall word ws ->
  allout (fun q => Z.max 0 (ns + K - N) <= fst q <= Z.min ns K) nopanic (hypergeometric N K ns ws).
Proof. exact hypergeometric_support. Qed.

(* the model's `hypergeometric` is literally the composition these theorems are about *)
Theorem C03_hypergeometric_unfold : forall N K ns,
  hypergeometric N K ns =
  if 2 ^ 51 <=? N then sfail 4 else
  let without := N - K in
  let '(sign_x, offset_x, n1, n2) :=
    if without <? K then (-1, ns, without, K) else (1, 0, K, without) in
  let '(k, offset_x, sign_x) :=
    if ns <=? N / 2 then (ns, offset_x, sign_x) else (N - ns, offset_x + n1 * sign_x, - sign_x) in
  hyper_core N n1 n2 k sign_x offset_x.
Proof. exact hypergeometric_unfold. Qed.

(* ---- the hypotheses are satisfiable and the statements are not vacuous: concrete runs ---------- *)
Example C03_ex_std_geometric : evals (std_geometric [1; 7]) (63, [7]) /\ Forall word [1; 7].
Proof. split; [vm_compute; constructor|]. repeat constructor; discriminate. Qed.

Example C03_ex_geometric : evals (geometric (1, 0) [0; 9]) (0, [9]) /\ (0 < dyR (1%Z, 0%Z) <= 1)%R.
Proof.
  split; [|unfold dyR; simpl; lra].
  unfold geometric. cbn [sbind bind sask].
  eapply EvAsk; [apply dyx_eval|apply Support.rat_eval; apply not_0_IZR; lia|].
  replace (rcmp CGe (dyR (1, 0)) (IZR 2 / IZR 3)) with true.
  - apply (geo_trivial_accepts 255 (dyx (1, 0)) (dyR (1, 0)) 0 [9]); [apply dyx_eval|unfold dyR; simpl; lra].
  - unfold rcmp. destruct (Rle_dec (IZR 2 / IZR 3) (dyR (1, 0))) as [H|H]; [reflexivity|].
    exfalso. apply H. unfold dyR. simpl. lra.
Qed.

Print Assumptions C03_nopanic_def.
Print Assumptions C03_allout_meaning.
Print Assumptions C03_std_geometric_support.
Print Assumptions C03_geometric_support.
Print Assumptions C03_zeta_support.
Print Assumptions C03_zipf_support.
Print Assumptions C03_poisson_support.
Print Assumptions C03_binv_support.
Print Assumptions C03_btpe_support.
Print Assumptions C03_binomial_support.
Print Assumptions C03_h2pe_branch_support.
Print Assumptions C03_hypergeometric_support.
Print Assumptions C03_hypergeometric_unfold.
