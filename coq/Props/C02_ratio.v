(* Props/C02_ratio.v — BTPE step 5.1 and H2PE step 4.1 evaluate the exact pmf ratio pmf(y)/pmf(m).
   Statements only; proofs are in Proofs/PmfRatio.v (loops over R) and Proofs/PmfRatioModel.v (the
   terms btpe_f51 / h2pe_f41 of the executable model Model/Discrete.v that the pathwise
   correspondence runs against the crate). A wrong factor, a wrong loop bound or swapped
   numerator/denominator in these loops makes the corresponding statement false. *)
From Coq Require Import Reals ZArith List.
From Interval Require Import Xreal.
From RD Require Import Base.Expr Base.Run Model.Sampler Model.Continuous Model.Discrete
  Proofs.PmfBinomial Proofs.PmfHyper Proofs.PmfRatio Proofs.PmfRatioModel.
Open Scope R_scope.

(* the three loop shapes of the source, and their closed forms *)
Theorem C02_loop_defs :
  (forall g i f, loop_mul g i 0 f = f /\ forall c, loop_mul g i (S c) f = loop_mul g (S i) c (f * g (S i))) /\
  (forall g i f, loop_div g i 0 f = f /\ forall c, loop_div g i (S c) f = loop_div g (S i) c (f / g (S i))) /\
  (forall num den i f, loop_muldiv num den i 0 f = f /\
     forall c, loop_muldiv num den i (S c) f = loop_muldiv num den (S i) c (f * num (S i) / den (S i))).
Proof. exact (conj loop_mul_def (conj loop_div_def loop_muldiv_def)). Qed.

Theorem C02_btpe_f_def : forall a s m y,
  btpe_f a s m y =
  match Nat.compare m y with
  | Lt => loop_mul (fun i => a / INR i - s) m (y - m) 1
  | Gt => loop_div (fun i => a / INR i - s) y (m - y) 1
  | Eq => 1
  end.
Proof. exact btpe_f_def. Qed.

(* BTPE 5.1, real-number loop: f = pmf(y)/pmf(m) for every n, p in (0,1), m, y <= n *)
Theorem C02_btpe_exact_ratio : forall (n : nat) (p : R) (m y : nat), 0 < p < 1 ->
  (m <= n)%nat -> (y <= n)%nat ->
  let q := 1 - p in let s := p / q in let a := s * (INR n + 1) in
  btpe_f a s m y
  = (C n y * p ^ y * q ^ (n - y)) / (C n m * p ^ m * q ^ (n - m)).
Proof. exact btpe_exact_ratio. Qed.

(* the coded test `if v > f { continue } else { break }` accepts exactly when v * pmf(m) <= pmf(y) *)
Theorem C02_btpe_accept_iff : forall (n : nat) (p : R) (m y : nat) (v : R), 0 < p < 1 ->
  (m <= n)%nat -> (y <= n)%nat ->
  let q := 1 - p in let s := p / q in let a := s * (INR n + 1) in
  (~ (v > btpe_f a s m y) <->
   v * (C n m * p ^ m * q ^ (n - m)) <= C n y * p ^ y * q ^ (n - y)).
Proof. exact btpe_accept_iff. Qed.

(* the same for the term of the executable model *)
Theorem C02_btpe_f51_exact_ratio : forall (n m y : nat) (pe : expr) (p : R),
  evalX pe = Xreal p -> 0 < p < 1 -> (m <= n)%nat -> (y <= n)%nat ->
  evalX (btpe_f51 (Z.of_nat n) pe (Z.of_nat m) (Z.of_nat y))
  = Xreal ((C n y * p ^ y * (1 - p) ^ (n - y)) / (C n m * p ^ m * (1 - p) ^ (n - m))).
Proof. exact btpe_f51_exact_ratio. Qed.

Theorem C02_h2pe_f_def : forall n1 n2 k m y,
  h2pe_f n1 n2 k m y =
  if (m <? y)%nat
  then loop_muldiv (fun i => INR (n1 - i + 1) * INR (k - i + 1))
                   (fun i => INR i * INR (n2 - k + i)) m (y - m) 1
  else loop_muldiv (fun i => INR i * INR (n2 - k + i))
                   (fun i => INR (n1 - i + 1) * INR (k - i + 1)) y (m - y) 1.
Proof. exact h2pe_f_def. Qed.

(* H2PE 4.1: f = pmf(y)/pmf(m) of Hypergeometric(n1+n2, n1, k) for all reduced parameters and all
   m, y in the support *)
Theorem C02_h2pe_exact_ratio : forall n1 n2 k m y : nat,
  (k <= n2)%nat -> (m <= n1)%nat -> (m <= k)%nat -> (y <= n1)%nat -> (y <= k)%nat ->
  h2pe_f n1 n2 k m y
  = (C n1 y * C n2 (k - y) / C (n1 + n2) k) / (C n1 m * C n2 (k - m) / C (n1 + n2) k).
Proof. exact h2pe_exact_ratio. Qed.

Theorem C02_h2pe_accept_iff : forall (n1 n2 k m y : nat) (v : R),
  (k <= n2)%nat -> (m <= n1)%nat -> (m <= k)%nat -> (y <= n1)%nat -> (y <= k)%nat ->
  (v <= h2pe_f n1 n2 k m y <->
   v * hyper_pmf (n1 + n2) n1 k m <= hyper_pmf (n1 + n2) n1 k y).
Proof. exact h2pe_accept_iff. Qed.

Theorem C02_h2pe_f41_exact_ratio : forall (n1 n2 k m y : nat) ws,
  (k <= n2)%nat -> (m <= n1)%nat -> (m <= k)%nat -> (y <= n1)%nat -> (y <= k)%nat ->
  exists f, h2pe_f41 (Z.of_nat n1) (Z.of_nat n2) (Z.of_nat k) (Z.of_nat m) (Z.of_nat y) ws = Ret (f, ws) /\
    evalX f = Xreal ((C n1 y * C n2 (k - y)) / (C n1 m * C n2 (k - m))).
Proof. exact h2pe_f41_exact_ratio. Qed.

(* non-vacuity *)
Example C02_ex_btpe_f : btpe_f (1 * (INR 4 + 1)) 1 2 3 = 2 / 3 /\ btpe_f (1 * (INR 4 + 1)) 1 2 0 = 1 / 6.
Proof. exact (conj btpe_f_example btpe_f_example_down). Qed.
Example C02_ex_h2pe_f : h2pe_f 3 5 4 1 2 = 1.
Proof. exact h2pe_f_example. Qed.
Example C02_ex_btpe_f51 :
  evalX (btpe_f51 40 (Dy 1 (-1)) 20 22)
  = Xreal (C 40 22 * (/2) ^ 22 * (1 - /2) ^ 18 / (C 40 20 * (/2) ^ 20 * (1 - /2) ^ 20)).
Proof. exact btpe_f51_example. Qed.

Print Assumptions C02_loop_defs.
Print Assumptions C02_btpe_f_def.
Print Assumptions C02_btpe_exact_ratio.
Print Assumptions C02_btpe_accept_iff.
Print Assumptions C02_btpe_f51_exact_ratio.
Print Assumptions C02_h2pe_f_def.
Print Assumptions C02_h2pe_exact_ratio.
Print Assumptions C02_h2pe_accept_iff.
Print Assumptions C02_h2pe_f41_exact_ratio.
Print Assumptions C02_ex_btpe_f.
Print Assumptions C02_ex_h2pe_f.
Print Assumptions C02_ex_btpe_f51.
