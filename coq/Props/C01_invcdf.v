(* Props/C01_invcdf.v — the single-draw inverse-CDF sampler models (cauchy, pareto, weibull, gumbel,
   frechet, triangular) read one word, evaluate to the quantile transform of the uniform value that
   word denotes, and that transform inverts the documented CDF.  Statements only; the proofs and the
   vocabulary (dyR, word, uR_std, uR_oc, <D>_expr, Q_<D>, F_<D>) live in Proofs/LawsInvCdf.v and
   Proofs/LawsTriangular.v.                                                                        *)
From Coq Require Import Reals ZArith List Lra Lia.
From Interval Require Import Xreal.
From RD Require Import Base.Expr Base.Run Model.Sampler Model.Continuous.
From RD Require Import Proofs.LawsInvCdf Proofs.LawsTriangular.
Import ListNotations.
Open Scope R_scope.

(* ---------- the uniform draws ---------- *)
Theorem C01_uniform_std_eval : forall t w, evalX (u_std t w) = Xreal (uR_std t w).
Proof. exact u_std_eval. Qed.
Print Assumptions C01_uniform_std_eval.

Theorem C01_uniform_oc_eval : forall t w, evalX (u_oc t w) = Xreal (uR_oc t w).
Proof. exact u_oc_eval. Qed.
Print Assumptions C01_uniform_oc_eval.

Theorem C01_uniform_std_range : forall t w, word w -> 0 <= uR_std t w < 1.
Proof. exact uR_std_range. Qed.
Print Assumptions C01_uniform_std_range.

Theorem C01_uniform_oc_range : forall t w, word w -> 0 < uR_oc t w <= 1.
Proof. exact uR_oc_range. Qed.
Print Assumptions C01_uniform_oc_range.

Theorem C01_uniform_oc_one : forall t w, word w ->
  (uR_oc t w = 1 <-> (match t with F64 => 2 ^ 64 - 2 ^ 11 | F32 => 2 ^ 64 - 2 ^ 40 end <= w)%Z).
Proof. exact uR_oc_one. Qed.
Print Assumptions C01_uniform_oc_one.

(* ---------- (1) run ---------- *)
Theorem C01_cauchy_run : forall t median scale w ws,
  cauchy t median scale (w :: ws) = Ret (cauchy_expr t median scale w, ws).
Proof. exact cauchy_run. Qed.
Print Assumptions C01_cauchy_run.

Theorem C01_pareto_run : forall t scale shape w ws,
  pareto t scale shape (w :: ws) = Ret (pareto_expr t scale shape w, ws).
Proof. exact pareto_run. Qed.
Print Assumptions C01_pareto_run.

Theorem C01_weibull_run : forall t scale shape w ws,
  weibull t scale shape (w :: ws) = Ret (weibull_expr t scale shape w, ws).
Proof. exact weibull_run. Qed.
Print Assumptions C01_weibull_run.

Theorem C01_gumbel_run : forall t loc scale w ws,
  gumbel t loc scale (w :: ws) = Ret (gumbel_expr t loc scale w, ws).
Proof. exact gumbel_run. Qed.
Print Assumptions C01_gumbel_run.

Theorem C01_frechet_run : forall t loc scale shape w ws,
  frechet t loc scale shape (w :: ws) = Ret (frechet_expr t loc scale shape w, ws).
Proof. exact frechet_run. Qed.
Print Assumptions C01_frechet_run.

Theorem C01_triangular_run : forall t mn mx mode w ws,
  exists k, triangular t mn mx mode (w :: ws) = Ask CLt (tri_frange t mn mx w) (tri_dmm mn mode) k
         /\ k true = Ret (tri_lo_expr t mn mx mode w, ws)
         /\ k false = Ret (tri_hi_expr t mn mx mode w, ws).
Proof. exact triangular_run. Qed.
Print Assumptions C01_triangular_run.

Theorem C01_invcdf_run_nil : forall t a b c,
  cauchy t a b [] = Fail 1 /\ pareto t a b [] = Fail 1 /\ weibull t a b [] = Fail 1 /\
  gumbel t a b [] = Fail 1 /\ frechet t a b c [] = Fail 1 /\ triangular t a b c [] = Fail 1.
Proof. exact invcdf_run_nil. Qed.
Print Assumptions C01_invcdf_run_nil.

(* ---------- (2) value ---------- *)
Theorem C01_weibull_value : forall t scale shape w,
  0 < dyR scale -> 0 < dyR shape -> word w -> uR_oc t w < 1 ->
  evalX (weibull_expr t scale shape w) = Xreal (Q_weibull (dyR scale) (dyR shape) (uR_oc t w)).
Proof. exact weibull_value. Qed.
Print Assumptions C01_weibull_value.

Theorem C01_weibull_undefined : forall t scale shape w,
  uR_oc t w = 1 -> evalX (weibull_expr t scale shape w) = Xnan.
Proof. exact weibull_undefined. Qed.
Print Assumptions C01_weibull_undefined.

Theorem C01_pareto_value : forall t scale shape w,
  0 < dyR scale -> 0 < dyR shape -> word w ->
  evalX (pareto_expr t scale shape w) = Xreal (Q_pareto (dyR scale) (dyR shape) (uR_oc t w)).
Proof. exact pareto_value. Qed.
Print Assumptions C01_pareto_value.

Theorem C01_gumbel_value : forall t loc scale w,
  0 < dyR scale -> word w -> uR_oc t w < 1 ->
  evalX (gumbel_expr t loc scale w) = Xreal (Q_gumbel (dyR loc) (dyR scale) (uR_oc t w)).
Proof. exact gumbel_value. Qed.
Print Assumptions C01_gumbel_value.

Theorem C01_gumbel_undefined : forall t loc scale w,
  uR_oc t w = 1 -> evalX (gumbel_expr t loc scale w) = Xnan.
Proof. exact gumbel_undefined. Qed.
Print Assumptions C01_gumbel_undefined.

Theorem C01_frechet_value : forall t loc scale shape w,
  0 < dyR scale -> 0 < dyR shape -> word w -> uR_oc t w < 1 ->
  evalX (frechet_expr t loc scale shape w) =
  Xreal (Q_frechet (dyR loc) (dyR scale) (dyR shape) (uR_oc t w)).
Proof. exact frechet_value. Qed.
Print Assumptions C01_frechet_value.

Theorem C01_frechet_undefined : forall t loc scale shape w,
  uR_oc t w = 1 -> evalX (frechet_expr t loc scale shape w) = Xnan.
Proof. exact frechet_undefined. Qed.
Print Assumptions C01_frechet_undefined.

Theorem C01_cauchy_value : forall t median scale w,
  0 < dyR scale -> word w -> uR_std t w <> 1 / 2 ->
  evalX (cauchy_expr t median scale w) = Xreal (Q_cauchy (dyR median) (dyR scale) (uR_std t w)).
Proof. exact cauchy_value. Qed.
Print Assumptions C01_cauchy_value.

Theorem C01_cauchy_undefined : forall t median scale w,
  uR_std t w = 1 / 2 -> evalX (cauchy_expr t median scale w) = Xnan.
Proof. exact cauchy_undefined. Qed.
Print Assumptions C01_cauchy_undefined.

Theorem C01_triangular_radicands : forall a b c u,
  a <= b -> a <= c <= b -> 0 <= u < 1 ->
  0 <= u * (b - a) * (c - a) /\ 0 <= ((b - a) - u * (b - a)) * (b - c).
Proof. exact tri_radicands. Qed.
Print Assumptions C01_triangular_radicands.

Theorem C01_triangular_value : forall t mn mx mode w ws,
  (exists e, evals (triangular t mn mx mode (w :: ws)) (e, ws)) /\
  (forall v, evals (triangular t mn mx mode (w :: ws)) v ->
     snd v = ws /\ evalX (fst v) = Xreal (Q_tri (dyR mn) (dyR mx) (dyR mode) (uR_std t w))).
Proof. exact triangular_value. Qed.
Print Assumptions C01_triangular_value.

(* ---------- (3) event: the law ---------- *)
Theorem C01_weibull_event : forall lambda k u x,
  0 < lambda -> 0 < k -> 0 < u < 1 ->
  (Q_weibull lambda k u <= x <-> 1 - F_weibull lambda k x <= u).
Proof. exact weibull_event. Qed.
Print Assumptions C01_weibull_event.

Theorem C01_pareto_event : forall xm alpha u x,
  0 < xm -> 0 < alpha -> 0 < u <= 1 -> (xm <= x \/ u < 1) ->
  (Q_pareto xm alpha u <= x <-> 1 - F_pareto xm alpha x <= u).
Proof. exact pareto_event. Qed.
Print Assumptions C01_pareto_event.

Theorem C01_gumbel_event : forall mu beta u x,
  0 < beta -> 0 < u < 1 ->
  (Q_gumbel mu beta u <= x <-> u <= F_gumbel mu beta x).
Proof. exact gumbel_event. Qed.
Print Assumptions C01_gumbel_event.

Theorem C01_frechet_event : forall mu sigma alpha u x,
  0 < sigma -> 0 < alpha -> 0 < u < 1 ->
  (Q_frechet mu sigma alpha u <= x <-> u <= F_frechet mu sigma alpha x).
Proof. exact frechet_event. Qed.
Print Assumptions C01_frechet_event.

Theorem C01_cauchy_atan : forall x0 gamma u,
  0 < gamma ->
  (0 <= u < 1 / 2 -> atan ((Q_cauchy x0 gamma u - x0) / gamma) = PI * u) /\
  (1 / 2 < u < 1 -> atan ((Q_cauchy x0 gamma u - x0) / gamma) = PI * u - PI).
Proof. exact cauchy_atan. Qed.
Print Assumptions C01_cauchy_atan.

Theorem C01_cauchy_event : forall x0 gamma u x,
  0 < gamma ->
  (0 <= u < 1 / 2 -> (Q_cauchy x0 gamma u <= x <-> u + 1 / 2 <= F_cauchy x0 gamma x)) /\
  (1 / 2 < u < 1 -> (Q_cauchy x0 gamma u <= x <-> u - 1 / 2 <= F_cauchy x0 gamma x)).
Proof. exact cauchy_event. Qed.
Print Assumptions C01_cauchy_event.

Theorem C01_triangular_event : forall a b c u x,
  a < b -> a <= c <= b -> 0 <= u < 1 -> (0 < u \/ a <= x) ->
  (Q_tri a b c u <= x <-> u <= F_tri a b c x).
Proof. exact triangular_event. Qed.
Print Assumptions C01_triangular_event.

(* ---------- non-vacuity: the hypotheses instantiated at concrete parameters and words ---------- *)
Theorem C01_weibull_nonvacuous :
  evalX (weibull_expr F64 (3, 0)%Z (2, 0)%Z (2 ^ 63)) = Xreal (Q_weibull 3 2 ((2 ^ 52 + 1) / 2 ^ 53)) /\
  (forall u x, 0 < u < 1 -> (Q_weibull 3 2 u <= x <-> 1 - F_weibull 3 2 x <= u)).
Proof. exact weibull_nonvacuous. Qed.
Print Assumptions C01_weibull_nonvacuous.

Theorem C01_pareto_nonvacuous :
  evalX (pareto_expr F64 (3, 0)%Z (2, 0)%Z (2 ^ 63)) = Xreal (Q_pareto 3 2 ((2 ^ 52 + 1) / 2 ^ 53)) /\
  (forall u x, 0 < u <= 1 -> 3 <= x -> (Q_pareto 3 2 u <= x <-> 1 - F_pareto 3 2 x <= u)).
Proof. exact pareto_nonvacuous. Qed.
Print Assumptions C01_pareto_nonvacuous.

Theorem C01_gumbel_nonvacuous :
  evalX (gumbel_expr F64 (-5, 0)%Z (3, 0)%Z (2 ^ 63)) = Xreal (Q_gumbel (-5) 3 ((2 ^ 52 + 1) / 2 ^ 53)) /\
  (forall u x, 0 < u < 1 -> (Q_gumbel (-5) 3 u <= x <-> u <= F_gumbel (-5) 3 x)).
Proof. exact gumbel_nonvacuous. Qed.
Print Assumptions C01_gumbel_nonvacuous.

Theorem C01_frechet_nonvacuous :
  evalX (frechet_expr F64 (-5, 0)%Z (3, 0)%Z (2, 0)%Z (2 ^ 63)) =
    Xreal (Q_frechet (-5) 3 2 ((2 ^ 52 + 1) / 2 ^ 53)) /\
  (forall u x, 0 < u < 1 -> (Q_frechet (-5) 3 2 u <= x <-> u <= F_frechet (-5) 3 2 x)).
Proof. exact frechet_nonvacuous. Qed.
Print Assumptions C01_frechet_nonvacuous.

Theorem C01_cauchy_nonvacuous :
  evalX (cauchy_expr F64 (-5, 0)%Z (3, 0)%Z (2 ^ 62)) = Xreal (Q_cauchy (-5) 3 (1 / 4)) /\
  evalX (cauchy_expr F64 (-5, 0)%Z (3, 0)%Z (2 ^ 63)) = Xnan /\
  (forall x, Q_cauchy (-5) 3 (1 / 4) <= x <-> 3 / 4 <= F_cauchy (-5) 3 x) /\
  (forall x, Q_cauchy (-5) 3 (3 / 4) <= x <-> 1 / 4 <= F_cauchy (-5) 3 x).
Proof. exact cauchy_nonvacuous. Qed.
Print Assumptions C01_cauchy_nonvacuous.

Theorem C01_triangular_nonvacuous :
  (forall v, evals (triangular F64 (0, 0)%Z (4, 0)%Z (1, 0)%Z [2 ^ 63]%Z) v ->
     evalX (fst v) = Xreal (4 - sqrt 6)) /\
  (forall u x, 0 <= u < 1 -> 0 <= x -> (Q_tri 0 4 1 u <= x <-> u <= F_tri 0 4 1 x)).
Proof. exact triangular_nonvacuous. Qed.
Print Assumptions C01_triangular_nonvacuous.
