(* Props/C08_float.v — WeightedAliasIndex with FLOAT weights (f32, f64).

   For integer weights C08 (Props/C08.v) proves that `sample` returns an in-range index of
   non-zero weight for every (column, threshold) pair.  For float weights this is FALSE:
   C08_float_sentinel_refuted exhibits, by computation in the executable model
   Model/FloatWeights.v, the accepted weight vector [5e-324] (f64 bit pattern 1) for which
   `sample` returns 4294967295 — the u32::MAX "empty list" sentinel left in `aliases[0]` —
   when the threshold draw Uniform(0, S) returns S itself (defect F8): rand's UniformFloat
   does not guarantee the exclusive upper bound, and the alias table only protects the
   sentinel with `r < no_alias_odds[c]`, which is `S < S` = false.

   What does hold for ALL float weight lists is stated after the refutation: the complete
   characterisation of the result of `new`.                                                  *)
From Coq Require Import ZArith List Bool Lia Reals.
From Flocq Require Import Core.Core IEEE754.Binary IEEE754.Bits IEEE754.BinarySingleNaN.
From RD Require Import Model.Tree Model.Uniform Model.FloatWeights.
From RD Require Import Proofs.FloatWeightsProofs Proofs.FloatWeightsAlias.
Import ListNotations.
Open Scope Z_scope.

(* ---------- the F8 witness: one f64 weight, the smallest subnormal 5e-324 ---------- *)
Definition F8_bits : list Z := [1].
Definition F8_ws : list fl64 := map fdec64 F8_bits.
Definition F8_words : list Z := [0; 0xffffffffffffffff].   (* column draw, threshold draw *)
Definition F8_dummy : fatab 53 1024 :=
  {| ft_al := []; ft_odds := []; ft_sum := B754_nan; ft_unif := (B754_nan, B754_nan) |}.
(* the table built by `new` (Ok-projection; that `new` returns Ok is part of the theorem) *)
Definition F8_tab : fatab 53 1024 :=
  match falias_new 53 1024 FHp64 FHpe64 F8_ws with Ok t => t | _ => F8_dummy end.

(* harness: `alias f64 0 x0000000000000001 S:0,0 S:0,ffffffffffffffff` prints
   ok|[4294967295]|[x0000000000000001]|[x0000000000000001]|idx:0:2;idx:4294967295:2 *)
Theorem C08_float_sentinel_refuted :
  exists (ws : list fl64) (t : fatab 53 1024) (w : Z),
    0 <= w < 2^64 /\
    falias_new 53 1024 FHp64 FHpe64 ws = Ok t /\
    (* column 0 holds the sentinel and odds = sum = 5e-324 *)
    ft_al 53 1024 t = [4294967295] /\
    map fenc64 (ft_odds 53 1024 t) = [1] /\ fenc64 (ft_sum 53 1024 t) = 1 /\
    feq 53 1024 (geto 53 1024 (ft_odds 53 1024 t) 0) (ft_sum 53 1024 t) = true /\
    (* Uniform::new(0.0, S) is {low = 0, scale = S}; the all-ones word yields r = S itself *)
    (fenc64 (fst (ft_unif 53 1024 t)), fenc64 (snd (ft_unif 53 1024 t))) = (0, 1) /\
    fenc64 (falias_threshold 53 1024 FHp64 FHpe64 t w) = fenc64 (ft_sum 53 1024 t) /\
    (* and sample returns the sentinel, which is not an index *)
    falias_pick 53 1024 t 0 (falias_threshold 53 1024 FHp64 FHpe64 t w) = 4294967295 /\
    falias_sample 53 1024 FHp64 FHpe64 t [0; w] = Some (4294967295, 2) /\
    4294967295 >= Z.of_nat (length (ft_al 53 1024 t)) /\
    (* reconstructing the weights from the table is fine: weights() = [5e-324] *)
    option_map (map fenc64) (falias_weights 53 1024 FHp64 FHpe64 t) = Some [1].
Proof.
  exists F8_ws, F8_tab, 0xffffffffffffffff.
  split; [vm_compute; split; [discriminate | reflexivity] |].
  repeat split; try (vm_compute; reflexivity). vm_compute. discriminate.
Qed.

(* the same input with a zero threshold word samples index 0: the table is otherwise fine *)
Example C08_float_witness_other_word :
  falias_sample 53 1024 FHp64 FHpe64 F8_tab [0; 0] = Some (0, 2).
Proof. vm_compute. reflexivity. Qed.

(* the defect is not specific to f64 or to one weight: f32 5e-45 (bits 1), and bits 1,2,3 *)
Example C08_float_sentinel_f32 :
  aio_run32 [1] [[0; 0xffffffffffffffff]] = ATab [4294967295] [1] (Some [1]) [Some (4294967295, 2)] /\
  aio_run32 [3] [[0; 0xffffffffffffffff]] = ATab [4294967295] [3] (Some [3]) [Some (4294967295, 2)].
Proof. split; vm_compute; reflexivity. Qed.

(* ---------- what holds for all float weights, both formats ---------- *)
Section Fmt.
Variable prec emax : Z.
Context (Hp : Prec_gt_0 prec) (Hpe : Prec_lt_emax prec emax).
Notation float := (BinarySingleNaN.binary_float prec emax).

(* Complete characterisation of the result of `new`.  The code computes
     n_f  = n as W                       (round-to-nearest conversion of the u32 length)
     maxw = W::MAX / n_f                 (rounded division)
   and rejects w unless `0.0 <= w && w <= maxw`, i.e. w is NaN, strictly negative (-0.0 is
   accepted), or `w <= maxw` is false (+inf, or a finite w with w > maxw as real numbers —
   see C08_float_maxw below).  The sum is the pairwise sum clamped to MAX; InsufficientNonZero
   iff it compares equal to 0.0.  Otherwise the construction succeeds: no panic.               *)
Theorem C08_float_new_errors : forall ws : list float,
  let n := Z.of_nat (length ws) in
  let bad_len := n = 0 \/ n > 4294967295 in
  let bad_w := exists w, In w ws /\
     (is_nan w = true \/ fneg_strict prec emax w = true \/
      fle prec emax w (falias_maxw prec emax Hp Hpe ws) = false) in
  let zero_sum := feq prec emax (falias_sum prec emax Hp Hpe ws) (fzero prec emax) = true in
  (bad_len -> falias_new prec emax Hp Hpe ws = Err InvalidInput) /\
  (~ bad_len -> bad_w -> falias_new prec emax Hp Hpe ws = Err InvalidWeight) /\
  (~ bad_len -> ~ bad_w -> zero_sum -> falias_new prec emax Hp Hpe ws = Err InsufficientNonZero) /\
  (~ bad_len -> ~ bad_w -> ~ zero_sum ->
     exists t, falias_new prec emax Hp Hpe ws = Ok t /\
               length (ft_al prec emax t) = length ws /\ length (ft_odds prec emax t) = length ws /\
               ft_sum prec emax t = falias_sum prec emax Hp Hpe ws /\
               ft_unif prec emax t = (fzero prec emax, falias_sum prec emax Hp Hpe ws)).
Proof. exact (alias_float_new_errors prec emax Hp Hpe). Qed.

(* the accepted sum is a finite, strictly positive float *)
Theorem C08_float_sum_pos : forall (ws : list float) t,
  falias_new prec emax Hp Hpe ws = Ok t ->
  is_finite (ft_sum prec emax t) = true /\ (0 < B2R (ft_sum prec emax t))%R.
Proof. exact (alias_float_sum_pos prec emax Hp Hpe). Qed.

(* meaning of `w <= maxw` for the weights that are neither NaN nor infinite; `32 < emax` (true for
   f32 and f64) makes the conversion of the u32 length to the float format finite *)
Theorem C08_float_maxw : forall (ws : list float) (w : float),
  32 < emax -> (0 < length ws)%nat -> Z.of_nat (length ws) <= 4294967295 ->
  is_finite (falias_maxw prec emax Hp Hpe ws) = true /\
  (is_finite w = true ->
     (fle prec emax w (falias_maxw prec emax Hp Hpe ws) = true <->
      (B2R w <= B2R (falias_maxw prec emax Hp Hpe ws))%R)) /\
  fle prec emax (B754_infinity false) (falias_maxw prec emax Hp Hpe ws) = false.
Proof. exact (alias_float_maxw prec emax Hp Hpe). Qed.
End Fmt.

Print Assumptions C08_float_sentinel_refuted.
Print Assumptions C08_float_witness_other_word.
Print Assumptions C08_float_sentinel_f32.
Print Assumptions C08_float_new_errors.
Print Assumptions C08_float_sum_pos.
Print Assumptions C08_float_maxw.
