(* Props/C10_float.v — WeightedTreeIndex with FLOAT weights (f32, f64).

   For integer weights C10 (Props/C10.v) proves that try_sample never trips its two internal
   assertions and samples exactly proportionally.  For float weights the crate documents
   "it is guaranteed that this method will not panic if a call to is_valid returns true".
   That guarantee is FALSE: C10_float_assert_refuted exhibits, by computation in the executable
   model Model/FloatWeights.v (validated case-by-case against the real code, see the header of
   that file), a tree built by `new` with is_valid() = true on
   which try_sample panics (`assert!(target_weight < self.get(index))`), defect F7.

   What does hold for ALL float weight lists is stated after the refutation:
   error characterisation of new/push/update, lengths, and atomicity of failing operations.    *)
From Coq Require Import ZArith List Bool Lia.
From Flocq Require Import Core.Core IEEE754.Binary IEEE754.Bits IEEE754.BinarySingleNaN.
From RD Require Import Model.Tree Model.Uniform Model.FloatWeights Proofs.FloatWeightsProofs.
From RD Require Proofs.FloatWeightsDescend.
Import ListNotations.
Open Scope Z_scope.

(* ---------- the F7 witness: three f32 weights (0.642052, 0.19634718, 0.4312635) ---------- *)
Definition F7_bits : list Z := [0x3f245d85; 0x3e490f3c; 0x3edcce92].
Definition F7_ws : list fl32 := map fdec32 F7_bits.
Definition F7_word : Z := 0xffffffffffffffff.            (* first RNG word *)
(* the state built by `new` (Ok-projection; that `new` returns Ok is part of the theorem) *)
Definition F7_tree : list fl32 :=
  match ftree_new 24 128 FHp32 FHpe32 F7_ws with Ok t => t | _ => [] end.
(* the target drawn by rng.random_range(0.0..total) from F7_word *)
Definition F7_target : fl32 :=
  match ftree_target_of_word 24 128 FHp32 FHpe32 F7_tree F7_word with Some x => x | None => B754_nan end.

(* the model reproduces the observable state of the real code on the witness
   (harness: `tree f32 0 N:x3f245d85,x3e490f3c,x3edcce92 S:ffffffffffffffff` prints
    subtotals [x3fa2844e,x3e490f3c,x3edcce92], gets [x3f245d83,x3e490f3c,x3edcce92], then `panic`) *)
Example C10_float_witness_state :
  ftree_new 24 128 FHp32 FHpe32 F7_ws = Ok F7_tree /\
  map fenc32 F7_tree = [0x3fa2844e; 0x3e490f3c; 0x3edcce92] /\
  map (fun i => fenc32 (ftree_get 24 128 FHp32 FHpe32 F7_tree i)) [0;1;2]%nat
    = [0x3f245d83; 0x3e490f3c; 0x3edcce92] /\
  (* get(0) is 2 ulp BELOW the weight that was passed in *)
  nth 0 F7_bits 0 - fenc32 (ftree_get 24 128 FHp32 FHpe32 F7_tree 0) = 2 /\
  ftree_target_of_word 24 128 FHp32 FHpe32 F7_tree F7_word = Some F7_target /\
  (* the target is total - 1ulp; after subtracting both child subtotals the residual equals get(0) *)
  fenc32 F7_target = 0x3fa2844d /\
  option_map (fun p => (fst p, fenc32 (snd p))) (fdescend 24 128 FHp32 FHpe32 4 F7_tree 0 F7_target)
    = Some (0%nat, 0x3f245d83).
Proof. repeat split; vm_compute; reflexivity. Qed.

(* F7: is_valid() = true and yet try_sample panics *)
Theorem C10_float_assert_refuted :
  exists (ws : list fl32) (w : Z) (t : list fl32) (target : fl32),
    0 <= w < 2^64 /\
    ftree_new 24 128 FHp32 FHpe32 ws = Ok t /\
    ftree_is_valid 24 128 t = true /\
    ftree_target_of_word 24 128 FHp32 FHpe32 t w = Some target /\
    ftree_try_sample 24 128 FHp32 FHpe32 t target = Panic /\
    ftree_try_sample_word 24 128 FHp32 FHpe32 t w = (Panic, 1).
Proof.
  exists F7_ws, F7_word, F7_tree, F7_target.
  split; [vm_compute; split; [discriminate | reflexivity] |].
  repeat split; vm_compute; reflexivity.
Qed.

(* consequently the crate's documented guarantee, read as a statement about the model, is false *)
Corollary C10_float_is_valid_does_not_prevent_panic :
  ~ (forall (t : list fl32) (w : Z), 0 <= w < 2^64 -> ftree_is_valid 24 128 t = true ->
       fst (ftree_try_sample_word 24 128 FHp32 FHpe32 t w) <> Panic).
Proof.
  intros H. destruct C10_float_assert_refuted as [ws [w [t [target [Hw [_ [V [_ [_ E]]]]]]]]].
  apply (H t w Hw V). rewrite E. reflexivity.
Qed.

(* the defect is not specific to f32: an f64 witness (0.469..., 0.246..., 0.543...), compared with
   the harness output of `tree f64 0 N:x3fde053a2ef29388,x3fcf8fb2d617959c,x3fe1667d2c686bfa
   S:ffffffffffffffff` (record = outcome, len, is_empty, is_valid, subtotals, gets) *)
Example C10_float_assert_refuted_f64 :
  tio_run64 [TNew [0x3fde053a2ef29388; 0x3fcf8fb2d617959c; 0x3fe1667d2c686bfa];
             TSample 0xffffffffffffffff] =
  [(POk,    (3, false, true, [0x3ff426837cb3cd92; 0x3fcf8fb2d617959c; 0x3fe1667d2c686bfa],
                             [0x3fde053a2ef29384; 0x3fcf8fb2d617959c; 0x3fe1667d2c686bfa]));
   (PPanic, (3, false, true, [0x3ff426837cb3cd92; 0x3fcf8fb2d617959c; 0x3fe1667d2c686bfa],
                             [0x3fde053a2ef29384; 0x3fcf8fb2d617959c; 0x3fe1667d2c686bfa]))].
Proof. vm_compute. reflexivity. Qed.

(* ---------- what holds for all float weights, both formats ---------- *)
Section Fmt.
Variable prec emax : Z.
Context (Hp : Prec_gt_0 prec) (Hpe : Prec_lt_emax prec emax).
Notation float := (BinarySingleNaN.binary_float prec emax).

(* `new`: InvalidWeight iff some weight is NaN or strictly negative (-inf or negative non-zero;
   -0.0 and +inf are accepted); otherwise Ok; never Overflow (float addition saturates to inf
   silently) and never a panic *)
Theorem C10_float_new_errors : forall ws : list float,
  (ftree_new prec emax Hp Hpe ws = Err InvalidWeight <->
     exists w, In w ws /\ (is_nan w = true \/ fneg_strict prec emax w = true)) /\
  ((forall w, In w ws -> is_nan w = false /\ fneg_strict prec emax w = false) ->
     exists t, ftree_new prec emax Hp Hpe ws = Ok t /\ length t = length ws) /\
  ftree_new prec emax Hp Hpe ws <> Err Overflow /\
  ftree_new prec emax Hp Hpe ws <> Err InsufficientNonZero /\
  ftree_new prec emax Hp Hpe ws <> Err InvalidInput /\
  ftree_new prec emax Hp Hpe ws <> Panic.
Proof. exact (tree_float_new_errors prec emax Hp Hpe). Qed.

(* len / is_empty behave as for the plain weight list *)
Theorem C10_float_len :
  (forall ws t, ftree_new prec emax Hp Hpe ws = Ok t -> length t = length ws) /\
  (forall t w t', ftree_push prec emax Hp Hpe t w = Ok t' -> length t' = S (length t)) /\
  (forall t, length (fst (ftree_pop prec emax Hp Hpe t)) = Nat.pred (length t)) /\
  (forall t, snd (ftree_pop prec emax Hp Hpe t) = None <-> t = []) /\
  (forall t i w t', ftree_update prec emax Hp Hpe t i w = Ok t' -> length t' = length t) /\
  (forall t : list float, ftree_is_empty prec emax t = true <-> length t = 0%nat) /\
  (forall t : list float, ftree_len prec emax t = Z.of_nat (length t)).
Proof. exact (tree_float_len prec emax Hp Hpe). Qed.

(* push then pop returns the pushed value (the remaining STATE may differ by rounding) *)
Theorem C10_float_push_pop_value : forall t w t',
  ftree_push prec emax Hp Hpe t w = Ok t' -> snd (ftree_pop prec emax Hp Hpe t') = Some w.
Proof. exact (tree_float_push_pop_value prec emax Hp Hpe). Qed.

(* an operation returning an error leaves the state unchanged, and the error is InvalidWeight *)
Theorem C10_float_error_atomic : forall t o e,
  snd (fstep prec emax Hp Hpe t o) = FErr e ->
  fst (fstep prec emax Hp Hpe t o) = t /\ e = InvalidWeight.
Proof. exact (tree_float_error_atomic prec emax Hp Hpe). Qed.

(* exact result classification of push / update *)
Theorem C10_float_push_result : forall t w,
  (fbad_w prec emax w = true -> ftree_push prec emax Hp Hpe t w = Err InvalidWeight) /\
  (fbad_w prec emax w = false -> exists t', ftree_push prec emax Hp Hpe t w = Ok t').
Proof. exact (tree_float_push_result prec emax Hp Hpe). Qed.

Theorem C10_float_update_result : forall t i w,
  (fbad_w prec emax w = true -> ftree_update prec emax Hp Hpe t i w = Err InvalidWeight) /\
  (fbad_w prec emax w = false -> (length t <= i)%nat -> ftree_update prec emax Hp Hpe t i w = Panic) /\
  (fbad_w prec emax w = false -> (i < length t)%nat -> exists t', ftree_update prec emax Hp Hpe t i w = Ok t').
Proof. exact (tree_float_update_result prec emax Hp Hpe). Qed.

(* try_sample: Err(InsufficientNonZero) iff total == 0.0; with is_valid() it never returns Err
   (but may panic, see above) *)
Theorem C10_float_zero_total : forall (t : list float) target,
  feq prec emax (ftree_total prec emax t) (fzero prec emax) = true ->
  ftree_try_sample prec emax Hp Hpe t target = Err InsufficientNonZero.
Proof. exact (tree_float_sample_zero prec emax Hp Hpe). Qed.

Theorem C10_float_valid_not_err : forall (t : list float) target e,
  ftree_is_valid prec emax t = true -> ftree_try_sample prec emax Hp Hpe t target <> Err e.
Proof. exact (tree_float_valid_not_err prec emax Hp Hpe). Qed.
(* The descent loop itself is sound for floats: on a non-empty state and a target that is not
   strictly negative (nn: NaN, +-0, +inf or positive) it never runs out of fuel, never leaves the
   vector, and its residual is not strictly negative.  So the model's Panic on try_sample is
   exactly a failing `assert!`: the first assert can fail only through a NaN residual (inf - inf),
   the second one whenever rounding makes `resid < get(index)` false — as in F7.               *)
Theorem C10_float_panic_iff : forall (t : list float) target, t <> [] ->
  FloatWeightsDescend.nn prec emax target ->
  exists i resid,
    fdescend prec emax Hp Hpe (S (length t)) t 0 target = Some (i, resid) /\ (i < length t)%nat /\
    FloatWeightsDescend.nn prec emax resid /\
    (ftree_sample_target prec emax Hp Hpe t target = Ok i <->
       (is_nan resid = false /\ flt prec emax resid (ftree_get prec emax Hp Hpe t i) = true)) /\
    (ftree_sample_target prec emax Hp Hpe t target = Panic <->
       (is_nan resid = true \/ flt prec emax resid (ftree_get prec emax Hp Hpe t i) = false)) /\
    (forall e, ftree_sample_target prec emax Hp Hpe t target <> Err e).
Proof. exact (FloatWeightsDescend.tree_float_panic_iff prec emax Hp Hpe). Qed.

(* every target drawn by random_range(0.0..total) from a 64-bit word is not strictly negative *)
Theorem C10_float_target_nn : forall (total : float) w target, 0 <= w ->
  random_range prec emax Hp Hpe (fzero prec emax) total w = Some target ->
  FloatWeightsDescend.nn prec emax target.
Proof. exact (FloatWeightsDescend.random_range_target_nn prec emax Hp Hpe). Qed.

(* complete outcome analysis of try_sample from an RNG word on a state with is_valid() = true:
   never an Err; either the total is +inf (random_range panics on the non-finite bound), or one
   word is consumed, the loop stops at an in-range index i, and the result is Ok i or — when an
   assertion fails — Panic *)
Theorem C10_float_sample_word_valid : forall (t : list float) w, 0 <= w ->
  ftree_is_valid prec emax t = true ->
  (is_finite (ftree_total prec emax t) = false /\
     ftree_try_sample_word prec emax Hp Hpe t w = (Panic, 0)) \/
  (exists target i resid,
     ftree_target_of_word prec emax Hp Hpe t w = Some target /\
     fdescend prec emax Hp Hpe (S (length t)) t 0 target = Some (i, resid) /\ (i < length t)%nat /\
     ((is_nan resid = false /\ flt prec emax resid (ftree_get prec emax Hp Hpe t i) = true /\
         ftree_try_sample_word prec emax Hp Hpe t w = (Ok i, 1)) \/
      ((is_nan resid = true \/ flt prec emax resid (ftree_get prec emax Hp Hpe t i) = false) /\
         ftree_try_sample_word prec emax Hp Hpe t w = (Panic, 1)))).
Proof. exact (FloatWeightsDescend.tree_float_sample_word_valid prec emax Hp Hpe). Qed.
End Fmt.

Print Assumptions C10_float_witness_state.
Print Assumptions C10_float_assert_refuted.
Print Assumptions C10_float_is_valid_does_not_prevent_panic.
Print Assumptions C10_float_assert_refuted_f64.
Print Assumptions C10_float_new_errors.
Print Assumptions C10_float_len.
Print Assumptions C10_float_push_pop_value.
Print Assumptions C10_float_error_atomic.
Print Assumptions C10_float_push_result.
Print Assumptions C10_float_update_result.
Print Assumptions C10_float_zero_total.
Print Assumptions C10_float_valid_not_err.
Print Assumptions C10_float_panic_iff.
Print Assumptions C10_float_target_nn.
Print Assumptions C10_float_sample_word_valid.
