(* Props/C07.v — property C07: location and scale parameters act as exact affine maps on a fixed
   random stream, and the same RNG words are consumed.  Statements only; proofs in
   Proofs/Equivariance.v.

   Vocabulary (Proofs/Equivariance.v):
     rmap f r       the decision tree r with f applied to every leaf
     smap f m ws    = rmap (fun '(a, rest) => (f a, rest)) (m ws): same decisions, same words read,
                      same failures (also on word lists that are too short), leaf (a, rest) -> (f a, rest)
     req r1 r2      equality of trees, pointwise on the continuations of the Ask nodes (no axiom);
                    seq m1 m2 := forall ws, req (m1 ws) (m2 ws)
     <D>_std, gamma_core, skew_normal_std   the sampler's code without its location/scale
   Parts: (1) tree statements  (2) their meaning for the exact semantics `evals`
          (3) semantic corollaries on real values  (4) InverseGaussian, Triangular, Pert (semantic only).   *)
From Coq Require Import Reals ZArith List Lra.
From Interval Require Import Xreal.
From RD Require Import Base.Expr Base.Run Model.Sampler Model.Continuous Proofs.LawsInvCdf Proofs.LawsTriangular
  Proofs.Equivariance.
Import ListNotations.
Open Scope Z_scope.

(* ---- (1) trees --------------------------------------------------------------------------------- *)
(* Normal: mean + std_dev * z  (z the StandardNormal variate of the same stream) *)
Theorem C07_normal_tree : forall t mean sd ws,
  normal t mean sd ws = smap (fun z => Bin Add (dyx mean) (Bin Mul (dyx sd) z)) (std_normal t) ws.
Proof. exact normal_smap. Qed.
Theorem C07_normal_tree_req : forall t mean sd,
  seq (normal t mean sd) (smap (normal_from_zscore mean sd) (std_normal t)).
Proof. exact normal_smap_req. Qed.
(* the model of Normal::from_zscore / LogNormal::from_zscore IS the leaf expression *)
Theorem C07_normal_from_zscore : forall mean sd z,
  normal_from_zscore mean sd z = Bin Add (dyx mean) (Bin Mul (dyx sd) z) /\
  evalX (normal_from_zscore mean sd z) = Xadd (xdy (fst mean) (snd mean)) (Xmul (xdy (fst sd) (snd sd)) (evalX z)) /\
  evalX (normal_from_zscore mean sd z) = Xadd (Xreal (dyR mean)) (Xmul (Xreal (dyR sd)) (evalX z)).
Proof. exact normal_from_zscore_spec. Qed.
Theorem C07_lognormal_from_zscore : forall mu sigma z,
  lognormal_from_zscore mu sigma z = Un Exp (Bin Add (dyx mu) (Bin Mul (dyx sigma) z)) /\
  evalX (lognormal_from_zscore mu sigma z) = Xexp (Xadd (Xreal (dyR mu)) (Xmul (Xreal (dyR sigma)) (evalX z))).
Proof. exact lognormal_from_zscore_spec. Qed.

(* LogNormal: exp (mu + sigma * z); = exp of the Normal sample on the same stream *)
Theorem C07_lognormal_tree : forall t mu sigma ws,
  lognormal t mu sigma ws = smap (fun z => Un Exp (Bin Add (dyx mu) (Bin Mul (dyx sigma) z))) (std_normal t) ws.
Proof. exact lognormal_smap. Qed.
Theorem C07_lognormal_tree_req : forall t mu sigma,
  seq (lognormal t mu sigma) (smap (lognormal_from_zscore mu sigma) (std_normal t)).
Proof. exact lognormal_smap_req. Qed.
Theorem C07_lognormal_is_exp_normal : forall t mu sigma ws,
  lognormal t mu sigma ws = smap (Un Exp) (normal t mu sigma) ws.
Proof. exact lognormal_normal. Qed.
Theorem C07_lognormal_is_exp_normal_req : forall t mu sigma,
  seq (lognormal t mu sigma) (smap (Un Exp) (normal t mu sigma)).
Proof. exact lognormal_normal_req. Qed.

(* Exp(lambda): z * (1/lambda), z the Exp1 variate *)
Theorem C07_exp_tree : forall t lambda ws,
  exp_lambda t lambda ws = smap (fun z => Bin Mul z (Bin Div one (dyx lambda))) (exp1 t) ws.
Proof. exact exp_lambda_smap. Qed.
Theorem C07_exp_tree_req : forall t lambda, seq (exp_lambda t lambda) (smap (exp_scale lambda) (exp1 t)).
Proof. exact exp_lambda_smap_req. Qed.

(* single-draw families: by computation, no axiom *)
Theorem C07_cauchy_tree : forall t median scale ws,
  cauchy t median scale ws = smap (fun c => Bin Add (dyx median) (Bin Mul (dyx scale) c)) (cauchy_std t) ws.
Proof. exact cauchy_smap. Qed.
Theorem C07_gumbel_tree : forall t loc scale ws,
  gumbel t loc scale ws = smap (fun g => Bin Sub (dyx loc) (Bin Mul (dyx scale) g)) (gumbel_std t) ws.
Proof. exact gumbel_smap. Qed.
Theorem C07_frechet_tree : forall t loc scale shape ws,
  frechet t loc scale shape ws = smap (fun g => Bin Add (dyx loc) (Bin Mul (dyx scale) g)) (frechet_std t shape) ws.
Proof. exact frechet_smap. Qed.
Theorem C07_pareto_tree : forall t scale shape ws,
  pareto t scale shape ws = smap (fun h => Bin Mul (dyx scale) h) (pareto_std t shape) ws.
Proof. exact pareto_smap. Qed.
Theorem C07_weibull_tree : forall t scale shape ws,
  weibull t scale shape ws = smap (fun h => Bin Mul (dyx scale) h) (weibull_std t shape) ws.
Proof. exact weibull_smap. Qed.
(* the standard samplers do not mention location or scale: they are these *)
Theorem C07_std_samplers : forall t shape,
  cauchy_std t = sbind (draw_std t) (fun x => sret (etan (Bin Mul Pi x))) /\
  gumbel_std t = sbind (draw_oc t) (fun x => sret (eln (eneg (eln x)))) /\
  frechet_std t shape = sbind (draw_oc t) (fun x => sret (epow (eneg (eln x)) (eneg (Bin Div one (dyx shape))))) /\
  pareto_std t shape = sbind (draw_oc t) (fun u => sret (epow u (Bin Div (num (-1)) (dyx shape)))) /\
  weibull_std t shape = sbind (draw_oc t) (fun x => sret (epow (eneg (eln x)) (Bin Div one (dyx shape)))).
Proof. exact std_samplers_spec. Qed.

(* SkewNormal: x * scale + loc, x the sample of the same code without the final linear map *)
Theorem C07_skew_normal_tree : forall t loc scale shape ws,
  skew_normal t loc scale shape ws =
  smap (fun x => Bin Add (Bin Mul x (dyx scale)) (dyx loc)) (skew_normal_std t shape) ws.
Proof. exact skew_normal_smap. Qed.
Theorem C07_skew_normal_tree_req : forall t loc scale shape,
  seq (skew_normal t loc scale shape) (smap (affine_r loc scale) (skew_normal_std t shape)).
Proof. exact skew_normal_smap_req. Qed.

(* Gamma, all three representations: the scale enters only in the final multiplication *)
Theorem C07_gamma_tree : forall t shape scale ws,
  gamma t shape scale ws = smap (gamma_scale shape scale) (gamma_core t shape) ws.
Proof. exact gamma_smap. Qed.
Theorem C07_gamma_tree_req : forall t shape scale,
  seq (gamma t shape scale) (smap (gamma_scale shape scale) (gamma_core t shape)).
Proof. exact gamma_smap_req. Qed.
Theorem C07_gamma_scale_map : forall shape scale v,
  gamma_scale shape scale v =
  if dy_eqb shape (1, 0) then Bin Mul v (Bin Div one (Bin Div one (dyx scale)))
  else if dy_ltb shape (1, 0) then Bin Mul v (dyx scale)
  else Bin Mul v (Bin Mul (Bin Sub (dyx shape) (rat 1 3)) (dyx scale)).
Proof. exact gamma_scale_spec. Qed.

(* ---- (2) what a tree statement means for the exact semantics -------------------------------------- *)
Theorem C07_req_evals : forall A (r1 r2 : run A) v, req r1 r2 -> (evals r1 v <-> evals r2 v).
Proof. exact @req_evals_iff. Qed.
Theorem C07_req_is_eq : forall A (r1 r2 : run A), req r1 r2 <-> r1 = r2.
Proof. exact @req_iff_eq. Qed.
Theorem C07_smap_evals : forall A B (f : A -> B) (m : sampler A) ws b rest,
  evals (smap f m ws) (b, rest) <-> exists a, evals (m ws) (a, rest) /\ b = f a.
Proof. exact @smap_evals. Qed.
Theorem C07_smap_commutes_sbind : forall A B C (f : B -> C) (m : sampler A) (k : A -> sampler B),
  seq (smap f (sbind m k)) (sbind m (fun x => smap f (k x))).
Proof. exact @smap_sbind. Qed.

(* ---- (3) real values: sample = affine map of the standard sample, same remaining words ------------ *)
Open Scope R_scope.

Theorem C07_normal_affine : forall t ws rest y mean sd,
  (exists e, evals (normal t mean sd ws) (e, rest) /\ evalX e = Xreal y) <->
  (exists z x, evals (std_normal t ws) (z, rest) /\ evalX z = Xreal x /\ y = dyR mean + dyR sd * x).
Proof. exact normal_affine. Qed.
Theorem C07_lognormal_affine : forall t ws rest y mu sigma,
  (exists e, evals (lognormal t mu sigma ws) (e, rest) /\ evalX e = Xreal y) <->
  (exists z x, evals (std_normal t ws) (z, rest) /\ evalX z = Xreal x /\ y = exp (dyR mu + dyR sigma * x)).
Proof. exact lognormal_affine. Qed.
Theorem C07_exp_scale : forall t ws rest y lambda, dyR lambda <> 0 ->
  (exists e, evals (exp_lambda t lambda ws) (e, rest) /\ evalX e = Xreal y) <->
  (exists z x, evals (exp1 t ws) (z, rest) /\ evalX z = Xreal x /\ y = x * (1 / dyR lambda)).
Proof. exact exp_lambda_scale. Qed.
Theorem C07_cauchy_affine : forall t ws rest y median scale,
  (exists e, evals (cauchy t median scale ws) (e, rest) /\ evalX e = Xreal y) <->
  (exists z x, evals (cauchy_std t ws) (z, rest) /\ evalX z = Xreal x /\ y = dyR median + dyR scale * x).
Proof. exact cauchy_affine. Qed.
Theorem C07_gumbel_affine : forall t ws rest y loc scale,
  (exists e, evals (gumbel t loc scale ws) (e, rest) /\ evalX e = Xreal y) <->
  (exists z x, evals (gumbel_std t ws) (z, rest) /\ evalX z = Xreal x /\ y = dyR loc - dyR scale * x).
Proof. exact gumbel_affine. Qed.
Theorem C07_frechet_affine : forall t ws rest y loc scale shape,
  (exists e, evals (frechet t loc scale shape ws) (e, rest) /\ evalX e = Xreal y) <->
  (exists z x, evals (frechet_std t shape ws) (z, rest) /\ evalX z = Xreal x /\ y = dyR loc + dyR scale * x).
Proof. exact frechet_affine. Qed.
Theorem C07_pareto_scale : forall t ws rest y scale shape,
  (exists e, evals (pareto t scale shape ws) (e, rest) /\ evalX e = Xreal y) <->
  (exists z x, evals (pareto_std t shape ws) (z, rest) /\ evalX z = Xreal x /\ y = dyR scale * x).
Proof. exact pareto_scale. Qed.
Theorem C07_weibull_scale : forall t ws rest y scale shape,
  (exists e, evals (weibull t scale shape ws) (e, rest) /\ evalX e = Xreal y) <->
  (exists z x, evals (weibull_std t shape ws) (z, rest) /\ evalX z = Xreal x /\ y = dyR scale * x).
Proof. exact weibull_scale. Qed.
Theorem C07_skew_normal_affine : forall t ws rest y loc scale shape,
  (exists e, evals (skew_normal t loc scale shape ws) (e, rest) /\ evalX e = Xreal y) <->
  (exists z x, evals (skew_normal_std t shape ws) (z, rest) /\ evalX z = Xreal x /\ y = x * dyR scale + dyR loc).
Proof. exact skew_normal_affine. Qed.
(* gamma_fac shape = 1 for shape <= 1 and shape - 1/3 otherwise (the precomputed d of Marsaglia-Tsang) *)
Theorem C07_gamma_scale : forall t ws rest y shape scale, dyR scale <> 0 ->
  (exists e, evals (gamma t shape scale ws) (e, rest) /\ evalX e = Xreal y) <->
  (exists z x, evals (gamma_core t shape ws) (z, rest) /\ evalX z = Xreal x /\
               y = x * (gamma_fac shape * dyR scale)).
Proof. exact gamma_scale_sem. Qed.
Theorem C07_gamma_fac : forall shape,
  gamma_fac shape = if dy_eqb shape (1, 0)%Z then 1 else if dy_ltb shape (1, 0)%Z then 1 else dyR shape - 1 / 3.
Proof. exact gamma_fac_spec. Qed.

(* ---- (4) semantic only: the expressions inside the decisions change ---------------------------------- *)
(* InverseGaussian: (mean, shape) -> (c mean, c shape) multiplies the sample by c; dy_mul is the exact
   product of dyadics *)
Theorem C07_dy_mul : forall c q, dyR (dy_mul c q) = dyR c * dyR q.
Proof. exact dyR_mul. Qed.
Theorem C07_inverse_gaussian_scale : forall t c mean shape ws rest y, 0 < dyR c ->
  (exists e, evals (inverse_gaussian t mean shape ws) (e, rest) /\ evalX e = Xreal y) <->
  (exists e', evals (inverse_gaussian t (dy_mul c mean) (dy_mul c shape) ws) (e', rest) /\
              evalX e' = Xreal (dyR c * y)).
Proof. exact inverse_gaussian_scale. Qed.
(* Triangular: x -> a + b x on (min, max, mode), b > 0 *)
Theorem C07_triangular_affine : forall t mn mx mode mn' mx' mode' a b ws rest y, 0 < b ->
  dyR mn' = a + b * dyR mn -> dyR mx' = a + b * dyR mx -> dyR mode' = a + b * dyR mode ->
  (exists e, evals (triangular t mn mx mode ws) (e, rest) /\ evalX e = Xreal y) ->
  (exists e', evals (triangular t mn' mx' mode' ws) (e', rest) /\ evalX e' = Xreal (a + b * y)).
Proof. exact triangular_affine. Qed.
(* Pert: the same map; the Beta parameters keep their real values, every decision of the Beta sampler
   compares the same two real numbers (tree simulation rsim), the same words are consumed *)
Theorem C07_pert_affine : forall mn mx mode mn' mx' mode' shape a b, 0 < b ->
  dyR mn' = a + b * dyR mn -> dyR mx' = a + b * dyR mx -> dyR mode' = a + b * dyR mode ->
  forall t ws rest y,
  (exists e, evals (pert t mn mx mode shape ws) (e, rest) /\ evalX e = Xreal y) ->
  (exists e', evals (pert t mn' mx' mode' shape ws) (e', rest) /\ evalX e' = Xreal (a + b * y)).
Proof. exact pert_affine. Qed.
Theorem C07_rsim_evals : forall A (R : A -> A -> Prop) r r' v,
  rsim R r r' -> evals r v -> exists v', evals r' v' /\ R v v'.
Proof. exact @rsim_evals. Qed.

(* ---- examples: the statements instantiated at concrete dyadics and words ----------------------------- *)
(* one word: the leaf of Cauchy(1, 2) is 1 + 2 * tan(pi * u), that of the standard sampler tan(pi * u) *)
Example C07_ex_cauchy :
  cauchy F64 (1, 0)%Z (2, 0)%Z [2 ^ 63]%Z =
    Ret (Bin Add (Dy 1 0) (Bin Mul (Dy 2 0) (Un Tan (Bin Mul Pi (Exact (Dy (2 ^ 52) (-53)))))), []) /\
  cauchy_std F64 [2 ^ 63]%Z = Ret (Un Tan (Bin Mul Pi (Exact (Dy (2 ^ 52) (-53)))), []) /\
  smap (fun c => Bin Add (Dy 1 0) (Bin Mul (Dy 2 0) c)) (cauchy_std F64) [2 ^ 63]%Z = cauchy F64 (1, 0)%Z (2, 0)%Z [2 ^ 63]%Z.
Proof. repeat split. Qed.
(* no word: both fail with the same code *)
Example C07_ex_short :
  cauchy F32 (1, 0)%Z (2, 0)%Z [] = Fail 1 /\ smap (fun c => Bin Add (Dy 1 0) (Bin Mul (Dy 2 0) c)) (cauchy_std F32) [] = Fail 1 /\
  normal F64 (1, 0)%Z (2, 0)%Z [] = Fail 1 /\ smap (normal_from_zscore (1, 0)%Z (2, 0)%Z) (std_normal F64) [] = Fail 1 /\
  gamma F64 (1, -1)%Z (3, 0)%Z [] = Fail 1 /\ smap (gamma_scale (1, -1)%Z (3, 0)%Z) (gamma_core F64 (1, -1)%Z) [] = Fail 1.
Proof. repeat split; vm_compute; reflexivity. Qed.
(* rmap on an explicit tree *)
Example C07_ex_rmap :
  req (rmap (fun z => Bin Add (Dy 1 0) (Bin Mul (Dy 2 0) z))
            (Ask CLt (Dy 1 0) (Dy 2 0) (fun b => if b then Ret (Dy 3 0) else Fail 2)))
      (Ask CLt (Dy 1 0) (Dy 2 0)
           (fun b => if b then Ret (Bin Add (Dy 1 0) (Bin Mul (Dy 2 0) (Dy 3 0))) else Fail 2)).
Proof. cbn. constructor. intros [|]; constructor. Qed.
(* the hypotheses of the semantic statements are satisfiable: the standard Cauchy sampler on the word 0
   yields tan(pi * 0) = 0, so Cauchy(1, 2) yields 1 + 2 * 0 having consumed the same word *)
Example C07_ex_cauchy_sem :
  (exists z x, evals (cauchy_std F64 [0%Z; 7%Z]) (z, [7%Z]) /\ evalX z = Xreal x /\ 1 = dyR (1, 0)%Z + dyR (2, 0)%Z * x) /\
  (exists e, evals (cauchy F64 (1, 0)%Z (2, 0)%Z [0%Z; 7%Z]) (e, [7%Z]) /\ evalX e = Xreal 1).
Proof.
  assert (exists z x, evals (cauchy_std F64 [0%Z; 7%Z]) (z, [7%Z]) /\ evalX z = Xreal x /\
                      1 = dyR (1, 0)%Z + dyR (2, 0)%Z * x) as H.
  { exists (Un Tan (Bin Mul Pi (Exact (Dy 0 (-53))))), 0. split; [constructor|]. split.
    - cbn [evalX xun xbin]. rewrite xdy_real. change (0 / 2 ^ 11)%Z with 0%Z.
      replace (IZR 0 * powerRZ 2 (-53)) with 0 by (simpl; ring). cbn [Xmul]. rewrite Rmult_0_r.
      rewrite Xtan_ok by (rewrite cos_0; apply R1_neq_R0). now rewrite tan_0.
    - unfold dyR. simpl. ring. }
  split; [exact H|]. apply C07_cauchy_affine. exact H.
Qed.
Example C07_ex_hyps : dyR (1, -1)%Z <> 0 /\ 0 < dyR (3, 1)%Z /\ dy_mul (3, 1)%Z (5, -2)%Z = (15, -1)%Z /\
  dyR (1, 0)%Z = 1 + 2 * dyR (0, 0)%Z /\ dyR (9, 0)%Z = 1 + 2 * dyR (4, 0)%Z /\ dyR (3, 0)%Z = 1 + 2 * dyR (1, 0)%Z.
Proof. unfold dyR. simpl. repeat split; try lra. Qed.

Print Assumptions C07_normal_tree.
Print Assumptions C07_normal_tree_req.
Print Assumptions C07_normal_from_zscore.
Print Assumptions C07_lognormal_from_zscore.
Print Assumptions C07_lognormal_tree.
Print Assumptions C07_lognormal_tree_req.
Print Assumptions C07_lognormal_is_exp_normal.
Print Assumptions C07_lognormal_is_exp_normal_req.
Print Assumptions C07_exp_tree.
Print Assumptions C07_exp_tree_req.
Print Assumptions C07_cauchy_tree.
Print Assumptions C07_gumbel_tree.
Print Assumptions C07_frechet_tree.
Print Assumptions C07_pareto_tree.
Print Assumptions C07_weibull_tree.
Print Assumptions C07_std_samplers.
Print Assumptions C07_skew_normal_tree.
Print Assumptions C07_skew_normal_tree_req.
Print Assumptions C07_gamma_tree.
Print Assumptions C07_gamma_tree_req.
Print Assumptions C07_gamma_scale_map.
Print Assumptions C07_req_evals.
Print Assumptions C07_req_is_eq.
Print Assumptions C07_smap_evals.
Print Assumptions C07_smap_commutes_sbind.
Print Assumptions C07_normal_affine.
Print Assumptions C07_lognormal_affine.
Print Assumptions C07_exp_scale.
Print Assumptions C07_cauchy_affine.
Print Assumptions C07_gumbel_affine.
Print Assumptions C07_frechet_affine.
Print Assumptions C07_pareto_scale.
Print Assumptions C07_weibull_scale.
Print Assumptions C07_skew_normal_affine.
Print Assumptions C07_gamma_scale.
Print Assumptions C07_gamma_fac.
Print Assumptions C07_dy_mul.
Print Assumptions C07_inverse_gaussian_scale.
Print Assumptions C07_triangular_affine.
Print Assumptions C07_pert_affine.
Print Assumptions C07_rsim_evals.
