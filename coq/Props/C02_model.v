(* Props/C02_model.v — part of property C02 stated on the EXECUTABLE sampler models of Model/Discrete.v (the
   decision trees that the pathwise correspondence runs against the crate): the exact inverse-transform
   samplers return x precisely when the uniform draw lies in the x-th cell of the documented cdf.
   Statements only; proofs in Proofs/PmfModelEvents.v.
     psum r x        r 0 + ... + r (x-1)                                   (Proofs/PmfBinomial.v)
     binv_r n p x    the value of BINV's variable r at loop counter x; = C(n,x) p^x (1-p)^(n-x) for x <= n
                     and 0 beyond (C02_binv_recurrence, C02_binv_recurrence_tail)
     hyper_pmf       the hypergeometric pmf                                 (Proofs/PmfHyper.v)
     prodR           product of a list of reals                                                            *)
From Coq Require Import Reals ZArith List Lra Lia.
From Interval Require Import Xreal.
From Flocq Require Import Core.
From RD Require Import Base.Expr Base.Run Model.Sampler Model.Continuous Model.Discrete
  Proofs.LawsInvCdf Proofs.LoopBounds Proofs.PmfBinomial Proofs.PmfHyper Proofs.PmfZeta Proofs.PmfZipf Proofs.SupportDiscrete Proofs.PmfModelEvents.
Import ListNotations.
Open Scope R_scope.

Theorem C02_binv_cell_def : forall n p U0 x0 y,
  binv_cell n p U0 x0 y <->
  exists x : nat, y = Z.of_nat x /\ (x0 <= x <= n)%nat /\
    (x = x0 \/ psum (binv_r n p) x < U0) /\ U0 <= psum (binv_r n p) (S x).
Proof. intros. reflexivity. Qed.

(* BINV's inner loop on the model, from any loop state (x, r = r_x, u = u0 - (r_0 + .. + r_(x-1))): it returns
   Some y exactly on the y-th cell, None (restart) only when u0 lies beyond the first 111 cells; it reads no word *)
Theorem C02_model_binv_event : forall (n : nat) p, 0 < p < 1 -> forall fuel a s u r (x : nat) ws U0,
  evalX a = Xreal ((INR n + 1) * (p / (1 - p))) -> evalX s = Xreal (p / (1 - p)) ->
  evalX r = Xreal (binv_r n p x) -> evalX u = Xreal (U0 - psum (binv_r n p) x) -> U0 < 1 -> (x <= n)%nat ->
  allout (fun q => snd q = ws /\ match fst q with Some y => binv_cell n p U0 x y
                                              | None => psum (binv_r n p) 111 < U0 end)
         (fun c => c = 2%Z) (binv_inner fuel a s u r (Z.of_nat x) ws).
Proof. exact binv_inner_event. Qed.

(* ... and the cells are those of the binomial cdf *)
Theorem C02_model_binv_cell_pmf : forall (n : nat) p U0 y, 0 < p < 1 -> 0 < U0 -> binv_cell n p U0 0 y ->
  exists x : nat, y = Z.of_nat x /\ (x <= n)%nat /\
    psum (fun j => C n j * p ^ j * (1 - p) ^ (n - j)) x < U0 <= psum (fun j => C n j * p ^ j * (1 - p) ^ (n - j)) (S x).
Proof. exact binv_cell_pmf. Qed.

(* Knuth's product method on the model (Poisson below 12, Binomial's Poisson limit): k is returned after
   exactly k+1 words, the first k partial products exceed exp(-lambda), the (k+1)-st does not *)
Theorem C02_model_knuth_event : forall t lambda LAM ws, evalX lambda = Xreal LAM -> Forall word ws ->
  allout (fun q => exists m : nat, (1 <= m <= length ws)%nat /\ fst q = (Z.of_nat m - 1)%Z /\ snd q = skipn m ws /\
            (forall j, (0 < j < m)%nat -> exp (- LAM) < prodR (map (uR_std t) (firstn j ws))) /\
            prodR (map (uR_std t) (firstn m ws)) <= exp (- LAM))
         nopanic (knuth t lambda ws).
Proof. exact knuth_event. Qed.

(* HIN on the model with reduced parameters (k <= n2): started at x0 with p = pmf(x0) and u = u0, the walk returns z
   exactly on the z-th cell of the hypergeometric cdf (or stops at the top of the support) *)
Theorem C02_model_hin_event : forall (n1 n2 k x0 : nat), (k <= n2)%nat -> forall fuel u p (x : nat) ws U0,
  let h := fun x => hyper_pmf (n1 + n2) n1 k x in
  evalX p = Xreal (h x) -> evalX u = Xreal (U0 - (psum h x - psum h x0)) -> (x0 <= x <= Nat.min n1 k)%nat ->
  allout (fun q => snd q = ws /\
            exists z : nat, fst q = Z.of_nat z /\ (x <= z <= Nat.min n1 k)%nat /\
              (z = x \/ psum h z - psum h x0 < U0) /\ (U0 <= psum h (S z) - psum h x0 \/ z = Nat.min n1 k))
         (fun c => c = 2%Z)
         (hin_loop fuel (Z.of_nat n1) (Z.of_nat n2) (Z.of_nat k) u p (Z.of_nat x) ws).
Proof. intros n1 n2 k x0 Hk fuel u p x ws U0 h. exact (hin_loop_event n1 n2 k x0 Hk fuel u p x ws U0). Qed.

(* Geometric: the two counting loops on the model. p >= 2/3: `failures` = number of leading uniforms above p; the
   quotient D of the power-of-two split: d = number of leading uniforms below pi = (1-p)^(2^k); both read d+1 words *)
Theorem C02_model_geo_trivial_event : forall fuel p P failures ws, evalX p = Xreal P -> Forall word ws ->
  allout (fun q => exists d : nat, (d < fuel)%nat /\ (d < length ws)%nat /\ fst q = (failures + Z.of_nat d)%Z /\ snd q = skipn (S d) ws /\
            (forall j, (j < d)%nat -> P < uR_std F64 (nth j ws 0%Z)) /\ uR_std F64 (nth d ws 0%Z) <= P)
         nopanic (geo_trivial fuel p failures ws).
Proof. exact geo_trivial_event. Qed.
Theorem C02_model_geo_d_event : forall fuel pi PI failures ws, evalX pi = Xreal PI -> Forall word ws ->
  allout (fun q => exists d : nat, (d < fuel)%nat /\ (d < length ws)%nat /\ fst q = (failures + Z.of_nat d)%Z /\ snd q = skipn (S d) ws /\
            (forall j, (j < d)%nat -> uR_std F64 (nth j ws 0%Z) < PI) /\ PI <= uR_std F64 (nth d ws 0%Z))
         nopanic (geo_d fuel pi failures ws).
Proof. exact geo_d_event. Qed.

(* Zeta on the model (the loop as called by `zeta t s`): every returned x >= 1 was proposed as floor(u^(-1/(s-1))) for the (0,1]
   draw u and accepted with its second draw v <= zeta_accept (s-1) x, the probability for which C02_zeta_identity gives
   proposal mass x acceptance = C x^-s; -1 stands for the documented +infinity of the proposal *)
Theorem C02_model_zeta_event : forall fuel t s ws, 1 < dyR s -> Forall word ws ->
  allout (fun q => fst q = (-1)%Z \/
            exists U V, 0 < U <= 1 /\ 0 <= V < 1 /\ fst q = Zfloor (Rpower U (- 1 / (dyR s - 1))) /\ (1 <= fst q)%Z /\
                        V <= zeta_accept (dyR s - 1) (IZR (fst q)))
         nopanic (zeta_loop fuel t (Bin Sub (dyx s) one) (epow (num 2) (Bin Sub (dyx s) one)) ws).
Proof. exact zeta_loop_event. Qed.

(* Zipf on the model, integer n >= 1 and every s >= 0: every returned x was proposed as floor(H^-1(p t) + 1) for the [0,1) draw p
   (t = total mass of the hat, H^-1 = zipf_inv: C02_zipf_inv_cdf_low, _ne1, _eq1) and accepted with its second draw y < ratio(x, H^-1(p t)),
   the probability for which C02_zipf_accept_identity / C02_zipf_accept_mass give the mass x^-s *)
Theorem C02_zipf_inv_def : forall s pt,
  zipf_inv s pt = if dy_eqb s (1%Z, 0%Z) then zipf_inv_eq1 pt else zipf_inv_ne1 (dyR s) pt.
Proof. intros. reflexivity. Qed.
Theorem C02_model_zipf_event : forall t n s N, dyR n = IZR N -> (1 <= N)%Z -> 0 <= dyR s -> forall ws, Forall word ws ->
  let T := if dy_eqb s (1%Z, 0%Z) then zipf_t_eq1 (IZR N) else zipf_t_ne1 (IZR N) (dyR s) in
  allout (fun r => exists P Y, 0 <= P < 1 /\ 0 <= Y < 1 /\ fst r = Zfloor (zipf_inv s (P * T) + 1) /\ (1 <= fst r <= N)%Z /\
                   Y < zipf_ratio (dyR s) (IZR (fst r)) (zipf_inv s (P * T)))
         nopanic (zipf t n s ws).
Proof. exact zipf_event. Qed.

(* non-vacuity: a concrete BINV state satisfies the hypotheses (n = 2, p = 1/2, start of the walk) *)
Example C02_ex_model_binv : forall ws,
  allout (fun q => snd q = ws /\ match fst q with Some y => binv_cell 2 (1 / 2) (/ 2) 0 y | None => False end)
         (fun c => c = 2%Z)
         (binv_inner 112 (Bin Mul (num 3) (num 1)) (num 1) (Dy 1 (-1)) (Dy 1 (-2)) 0 ws).
Proof.
  intros ws. assert (0 < 1 / 2 < 1) as Hp by lra.
  assert (E3 : evalX (Bin Mul (num 3) (num 1)) = Xreal ((INR 2 + 1) * (1 / 2 / (1 - 1 / 2)))).
  { cbn [evalX xbin]. rewrite !num_eval. cbn. f_equal. lra. }
  assert (E1 : evalX (num 1) = Xreal (1 / 2 / (1 - 1 / 2))) by (rewrite num_eval; f_equal; lra).
  assert (Er : evalX (Dy 1 (-2)) = Xreal (binv_r 2 (1 / 2) 0)).
  { cbn [evalX]. rewrite xdy_real. f_equal. cbn [binv_r]. change (powerRZ 2 (-2)) with (/ (2 * (2 * 1))). lra. }
  assert (Eu : evalX (Dy 1 (-1)) = Xreal (/ 2 - psum (binv_r 2 (1 / 2)) 0)).
  { cbn [evalX]. rewrite xdy_real. f_equal. cbn [psum]. change (powerRZ 2 (-1)) with (/ (2 * 1)). lra. }
  eapply allout_mono; [| |apply (binv_inner_event 2 (1 / 2) Hp 112 _ _ _ _ 0 ws (/ 2) E3 E1 Er Eu); [lra|lia]].
  - intros [[y|] rest]; cbn [fst snd]; intros [A B]; (split; [exact A|]); [exact B|].
    exfalso. assert (psum (binv_r 2 (1 / 2)) 111 = 1) as T; [|lra].
    assert (forall j, (3 <= j)%nat -> psum (binv_r 2 (1 / 2)) j = psum (binv_r 2 (1 / 2)) 3) as Tail.
    { induction j as [|j IHj]; intros Hj; [lia|]. destruct (Nat.eq_dec j 2) as [->|NE]; [reflexivity|].
      cbn [psum]. rewrite IHj by lia. rewrite (binv_recurrence_tail 2 (1 / 2) Hp j) by lia. cbn [psum]. ring. }
    transitivity (psum (binv_r 2 (1 / 2)) 3); [apply Tail; lia|apply (binv_r_total 2 (1 / 2) Hp)].
  - auto.
Qed.

Print Assumptions C02_binv_cell_def.
Print Assumptions C02_model_binv_event.
Print Assumptions C02_model_binv_cell_pmf.
Print Assumptions C02_model_knuth_event.
Print Assumptions C02_model_hin_event.
Print Assumptions C02_model_geo_trivial_event.
Print Assumptions C02_model_geo_d_event.
Print Assumptions C02_model_zeta_event.
Print Assumptions C02_zipf_inv_def.
Print Assumptions C02_model_zipf_event.
Print Assumptions C02_ex_model_binv.
