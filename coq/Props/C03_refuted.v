(* Props/C03_refuted.v — the known findings of C03 as theorems about the faithful models: the "finite sample for every draw"
   half of the property is FALSE of the ideal algorithms at the boundary draw, with the witness word; next to each is the theorem
   that holds away from the known class (…_except_known).  Statements only.                                              *)
From Coq Require Import Reals ZArith List Lia.
From Interval Require Import Xreal.
From RD Require Import Base.Expr Base.Run Model.Sampler Model.Continuous Proofs.LawsInvCdf.
Import ListNotations.
Open Scope R_scope.

(* F4: Frechet. The draw 1.0 (word with the top 53 / 24 bits set) has no real value: (-ln 1)^(-1/alpha) = 0^(-1/alpha) *)
Theorem C03_frechet_refuted : exists w, word w /\ forall t loc scale shape, evalX (frechet_expr t loc scale shape w) = Xnan.
Proof.
  exists (2^64 - 1)%Z. split; [unfold word; lia|].
  intros t loc scale shape. apply frechet_undefined. apply uR_oc_one; [unfold word; lia|]. destruct t; lia.
Qed.
Theorem C03_frechet_except_known : forall t loc scale shape w,
  0 < dyR scale -> 0 < dyR shape -> word w -> uR_oc t w < 1 ->
  exists x, evalX (frechet_expr t loc scale shape w) = Xreal x.
Proof. intros. eexists. now apply frechet_value. Qed.

(* F11: Gumbel. ln(-ln 1) = ln 0 *)
Theorem C03_gumbel_refuted : exists w, word w /\ forall t loc scale, evalX (gumbel_expr t loc scale w) = Xnan.
Proof.
  exists (2^64 - 1)%Z. split; [unfold word; lia|].
  intros t loc scale. apply gumbel_undefined. apply uR_oc_one; [unfold word; lia|]. destruct t; lia.
Qed.
Theorem C03_gumbel_except_known : forall t loc scale w,
  0 < dyR scale -> word w -> uR_oc t w < 1 ->
  exists x, evalX (gumbel_expr t loc scale w) = Xreal x.
Proof. intros. eexists. now apply gumbel_value. Qed.

Print Assumptions C03_frechet_refuted.
Print Assumptions C03_frechet_except_known.
Print Assumptions C03_gumbel_refuted.
Print Assumptions C03_gumbel_except_known.
