(* Props/C01.v — continuous samplers follow their documented law. Statements only. *)
From Coq Require Import ZArith List.
From RD Require Import Base.Expr Base.Run Model.Sampler Model.Continuous Gen.Consts.
Require RD.GenBase.Consts.
Import ListNotations.
Open Scope Z_scope.

(* the interval evaluator used by the pathwise correspondence encloses the exact value *)
Theorem C01_evalI_sound : forall prec p eta e w,
  Interval.Interval.contains (I.convert (evalI prec p eta w e)) (evalX e).
Proof. exact evalI_sound. Qed.
Print Assumptions C01_evalI_sound.
