(* Props/C01_identities.v — the real-number identities and inequalities that make the continuous
   rejection / transformation samplers of rand_distr produce their documented densities (ideal
   arithmetic, all parameters).  Statements only; proofs in Proofs/RejectGamma.v, Proofs/RejectBeta.v,
   Proofs/RejectIdentities.v.  Every Definition used in a statement has its defining equation restated
   here in a C01_*_defs theorem.

   Vocabulary
     std_normal_pdf x          exp(-x^2/2)/sqrt(2 pi)
     mt_v c x                  v = (1 + c x)^3                                   (gamma.rs:230-235)
     mt_logacc d c x           x^2/2 + d (1 - v + ln v): the code accepts iff ln u < mt_logacc (gamma.rs:240)
     mt_accept d c x           exp (mt_logacc d c x), the acceptance probability given x
     gamma_kernel k y          y^(k-1) e^(-y), unnormalised Gamma(k,1) density
     mt_K d c                  e^d / (sqrt(2 pi) * 3 d c * d^(d-2/3)), the constant of proportionality
     ig_y, ig_s, ig_x1, ig_x2  y = mu v v, sqrt(4 l y + y y), the returned roots   (inverse_gaussian.rs:99-111)
     ig_g mu l x               l (x-mu)^2/(mu^2 x);  ig_pdf the IG(mu,l) density;  ig_g' = d ig_g/dx
     skew_normalized a z1 z2   ((1+a) max + (1-a) min)/(sqrt(1+a^2) sqrt 2)         (skew_normal.rs:155-157)
     bb_V, bb_W, bb_R, bb_S    v, w, r, s of beta.rs:195-199;  bb_E a b r w = r + alpha ln(alpha/(b+w))
     bb_G, bb_g                log-logistic proposal CDF / density (lambda = 1/beta)
     bb_f a b w                w^(a-1)/(b+w)^(a+b), kernel of W = bX/(1-X), X ~ Beta(a,b)
     bb_C a b lam              lam alpha^alpha/(4 a^a)
     pert_v, pert_w            the Beta parameters computed by PertBuilder::with_mode (pert.rs:152-153)    *)
From Coq Require Import Reals Lra Lia.
From Coquelicot Require Import Coquelicot.
From RD Require Import Proofs.RejectGamma Proofs.RejectBeta Proofs.RejectIdentities.
Open Scope R_scope.

(* ===================== 1. Gamma: Marsaglia–Tsang (gamma.rs:190-246) ===================== *)

Theorem C01_mt_defs : forall d c x k y,
  std_normal_pdf x = exp (- (x ^ 2 / 2)) / sqrt (2 * PI) /\
  mt_v c x = (1 + c * x) ^ 3 /\
  mt_logacc d c x = x ^ 2 / 2 + d * (1 - mt_v c x + ln (mt_v c x)) /\
  mt_accept d c x = exp (mt_logacc d c x) /\
  gamma_kernel k y = Rpower y (k - 1) * exp (- y) /\
  mt_K d c = exp d / (sqrt (2 * PI) * (3 * d * c) * Rpower d (d - 2 / 3)) /\
  mt_h x = 9 * x ^ 2 / 2 + 1 - (1 + x) ^ 3 + 3 * ln (1 + x).
Proof. exact mt_defs. Qed.
Print Assumptions C01_mt_defs.

(* c as computed by new_raw: c > 0 and 9 d c^2 = 1 *)
Theorem C01_mt_c_spec : forall d, 0 < d -> let c := 1 / sqrt (9 * d) in 0 < c /\ 9 * d * c ^ 2 = 1.
Proof. exact mt_c_spec. Qed.
Print Assumptions C01_mt_c_spec.

(* (a) normal density * acceptance probability = K * Gamma(k,1) kernel at y = d v * |dy/dx|,
       k = d + 1/3, K independent of x *)
Theorem C01_mt_identity : forall d c x, 0 < d -> 0 < c -> 0 < 1 + c * x ->
  std_normal_pdf x * mt_accept d c x
  = mt_K d c * gamma_kernel (d + 1 / 3) (d * mt_v c x) * (3 * d * c * (1 + c * x) ^ 2).
Proof. exact mt_identity. Qed.
Print Assumptions C01_mt_identity.

Theorem C01_mt_identity_log : forall d c x, 0 < d -> 0 < c -> 0 < 1 + c * x ->
  - (x ^ 2 / 2) + mt_logacc d c x
  = ((d - 2 / 3) * ln (d * mt_v c x) - d * mt_v c x) + 2 * ln (1 + c * x)
    + (d - (d - 2 / 3) * ln d).
Proof. exact mt_identity_log. Qed.
Print Assumptions C01_mt_identity_log.

Theorem C01_mt_jacobian : forall d c x,
  is_derive (fun x => d * mt_v c x) x (3 * d * c * (1 + c * x) ^ 2).
Proof. exact mt_jacobian. Qed.
Print Assumptions C01_mt_jacobian.

(* (b) the acceptance function is a probability, for every d > 0 *)
Theorem C01_mt_h_nonpos : forall t, -1 < t -> mt_h t <= 0.
Proof. exact mt_h_nonpos. Qed.
Print Assumptions C01_mt_h_nonpos.

Theorem C01_mt_envelope : forall d x, 0 < d -> let c := 1 / sqrt (9 * d) in 0 < 1 + c * x ->
  mt_logacc d c x <= 0 /\ 0 < mt_accept d c x <= 1.
Proof. exact mt_envelope. Qed.
Print Assumptions C01_mt_envelope.

Theorem C01_mt_accept_at_0 : forall d c, mt_accept d c 0 = 1.
Proof. exact mt_accept_at_0. Qed.
Print Assumptions C01_mt_accept_at_0.

(* (c) the quick-accept test u < 1 - 0.0331 x^4 implies the exact test, for every shape >= 1 *)
Theorem C01_mt_squeeze : forall d x, 2 / 3 <= d -> let c := 1 / sqrt (9 * d) in
  0 < 1 - 0.0331 * x ^ 4 ->
  0 < 1 + c * x /\ ln (1 - 0.0331 * x ^ 4) <= mt_logacc d c x.
Proof. exact mt_squeeze. Qed.
Print Assumptions C01_mt_squeeze.

Theorem C01_mt_squeeze_test : forall d x u, 2 / 3 <= d -> let c := 1 / sqrt (9 * d) in
  0 < u -> u < 1 - 0.0331 * x ^ 4 -> ln u < mt_logacc d c x.
Proof. exact mt_squeeze_test. Qed.
Print Assumptions C01_mt_squeeze_test.

(* (d) what the small-shape and large-shape branches return *)
Theorem C01_gamma_boost_form : forall k scale v u, 0 < k ->
  let d := k + 1 - 1 / 3 in
  (v * Rpower u (1 / k) * d) * scale = scale * ((d * v) * Rpower u (/ k)).
Proof. exact gamma_boost_form. Qed.
Print Assumptions C01_gamma_boost_form.

Theorem C01_gamma_large_form : forall d scale v, v * (d * scale) = scale * (d * v).
Proof. exact gamma_large_form. Qed.
Print Assumptions C01_gamma_large_form.

(* (e) why the boost G * U^(1/k), G ~ Gamma(k+1), gives Gamma(k) for shape k < 1: conditional cdf min(1,(y/t)^k);
   the Gamma(k+1) kernel t^k e^-t integrated against its y-derivative k y^(k-1) t^-k over (y, M) is
   k y^(k-1) (e^-y - e^-M), which tends to k times the Gamma(k) kernel (and Gamma(k+1) = k Gamma(k)).
   Partial: the interchange of d/dy with the t-integral is not formalised. *)
Theorem C01_gamma_boost_event : forall k t u y, 0 < k -> 0 < t -> 0 < u -> 0 < y ->
  (t * Rpower u (1 / k) <= y <-> u <= Rpower (y / t) k).
Proof. exact gamma_boost_event. Qed.
Print Assumptions C01_gamma_boost_event.

Theorem C01_gamma_boost_kernel : forall k y M, 0 < k -> 0 < y -> y < M ->
  is_RInt (fun t => gamma_kernel (k + 1) t * (k * Rpower y (k - 1) * Rpower t (- k))) y M
          (k * Rpower y (k - 1) * (exp (- y) - exp (- M))).
Proof. exact gamma_boost_kernel. Qed.
Print Assumptions C01_gamma_boost_kernel.

Theorem C01_gamma_boost_kernel_limit : forall k y, 0 < k -> 0 < y ->
  is_lim (fun M => k * Rpower y (k - 1) * (exp (- y) - exp (- M))) p_infty (k * gamma_kernel k y).
Proof. exact gamma_boost_kernel_limit. Qed.
Print Assumptions C01_gamma_boost_kernel_limit.

Example C01_ex_mt :
  std_normal_pdf 1 * mt_accept 1 (1 / 3) 1
  = mt_K 1 (1 / 3) * gamma_kernel (1 + 1 / 3) (1 * mt_v (1 / 3) 1) * (3 * 1 * (1 / 3) * (1 + 1 / 3 * 1) ^ 2) /\
  0 < mt_accept 1 (1 / sqrt (9 * 1)) 1 <= 1 /\
  ln (1 - 0.0331 * 1 ^ 4) <= mt_logacc 1 (1 / sqrt (9 * 1)) 1.
Proof.
  assert (Hs : 0 < 1 + 1 / sqrt (9 * 1) * 1).
  { assert (0 < 1 / sqrt (9 * 1)) by (apply Rdiv_lt_0_compat; [lra | apply sqrt_lt_R0; lra]). lra. }
  split; [| split].
  - apply C01_mt_identity; lra.
  - apply (C01_mt_envelope 1 1); [lra | exact Hs].
  - apply (C01_mt_squeeze 1 1); lra.
Qed.

(* ===================== 2. Inverse Gaussian (inverse_gaussian.rs:91-112) ===================== *)

Theorem C01_ig_defs : forall mu l v x,
  ig_y mu v = mu * v * v /\
  ig_s mu l v = sqrt (4 * l * ig_y mu v + ig_y mu v * ig_y mu v) /\
  ig_x1 mu l v = mu + mu / (2 * l) * (ig_y mu v - ig_s mu l v) /\
  ig_x2 mu l v = mu * mu / ig_x1 mu l v /\
  ig_g mu l x = l * (x - mu) ^ 2 / (mu ^ 2 * x).
Proof. exact ig_defs. Qed.
Print Assumptions C01_ig_defs.

Theorem C01_ig_pdf_defs : forall mu l x,
  ig_pdf mu l x = sqrt (l / (2 * PI * x ^ 3)) * exp (- (l * (x - mu) ^ 2 / (2 * mu ^ 2 * x))) /\
  ig_g' mu l x = l * (x ^ 2 - mu ^ 2) / (mu ^ 2 * x ^ 2).
Proof. exact ig_pdf_defs. Qed.
Print Assumptions C01_ig_pdf_defs.

Theorem C01_ig_roots_product : forall mu l v, 0 < mu -> 0 < l ->
  ig_x1 mu l v * ig_x2 mu l v = mu ^ 2.
Proof. exact ig_roots_product. Qed.
Print Assumptions C01_ig_roots_product.

Theorem C01_ig_x2_closed : forall mu l v, 0 < mu -> 0 < l ->
  ig_x2 mu l v = mu + mu / (2 * l) * (ig_y mu v + ig_s mu l v).
Proof. exact ig_x2_closed. Qed.
Print Assumptions C01_ig_x2_closed.

(* both returned values solve  l (x - mu)^2 / (mu^2 x) = v^2  (a chi-square(1) variate) *)
Theorem C01_ig_roots_solve : forall mu l v, 0 < mu -> 0 < l ->
  ig_g mu l (ig_x1 mu l v) = v ^ 2 /\ ig_g mu l (ig_x2 mu l v) = v ^ 2.
Proof. exact ig_roots_solve. Qed.
Print Assumptions C01_ig_roots_solve.

Theorem C01_ig_x1_pos : forall mu l v, 0 < mu -> 0 < l -> 0 < ig_x1 mu l v <= mu.
Proof. exact ig_x1_pos. Qed.
Print Assumptions C01_ig_x1_pos.

Theorem C01_ig_x2_ge : forall mu l v, 0 < mu -> 0 < l -> mu <= ig_x2 mu l v.
Proof. exact ig_x2_ge. Qed.
Print Assumptions C01_ig_x2_ge.

Theorem C01_ig_choice_prob_range : forall mu l v, 0 < mu -> 0 < l ->
  1 / 2 <= mu / (mu + ig_x1 mu l v) < 1.
Proof. exact ig_choice_prob_range. Qed.
Print Assumptions C01_ig_choice_prob_range.

(* mu/(mu+x1) is the Michael–Schucany–Haas weight  w1/(w1+w2),  w_i = f(x_i)/|g'(x_i)| *)
Theorem C01_ig_choice_prob : forall mu l x1, 0 < mu -> 0 < l -> 0 < x1 < mu ->
  let x2 := mu * mu / x1 in
  let w1 := ig_pdf mu l x1 / Rabs (ig_g' mu l x1) in
  let w2 := ig_pdf mu l x2 / Rabs (ig_g' mu l x2) in
  w1 / (w1 + w2) = mu / (mu + x1).
Proof. exact ig_choice_prob. Qed.
Print Assumptions C01_ig_choice_prob.

Example C01_ex_ig :
  ig_x1 1 1 1 * ig_x2 1 1 1 = 1 ^ 2 /\ ig_g 1 1 (ig_x1 1 1 1) = 1 ^ 2 /\ 0 < ig_x1 1 1 1 <= 1 /\
  1 / 2 <= 1 / (1 + ig_x1 1 1 1) < 1 /\
  ig_pdf 2 1 1 / Rabs (ig_g' 2 1 1)
  / (ig_pdf 2 1 1 / Rabs (ig_g' 2 1 1) + ig_pdf 2 1 (2 * 2 / 1) / Rabs (ig_g' 2 1 (2 * 2 / 1)))
  = 2 / (2 + 1).
Proof.
  split; [| split; [| split; [| split]]].
  - apply C01_ig_roots_product; lra.
  - apply C01_ig_roots_solve; lra.
  - apply C01_ig_x1_pos; lra.
  - apply C01_ig_choice_prob_range; lra.
  - apply (C01_ig_choice_prob 2 1 1); lra.
Qed.

(* ===================== 3. Skew normal (skew_normal.rs:142-161) ===================== *)

Theorem C01_skew_def : forall a z1 z2,
  skew_normalized a z1 z2
  = ((1 + a) * Rmax z1 z2 + (1 - a) * Rmin z1 z2) / (sqrt (1 + a * a) * sqrt 2).
Proof. exact skew_def. Qed.
Print Assumptions C01_skew_def.

(* (S + a |D|)/sqrt(1+a^2) with S, D the 45-degree rotation of (z1, z2) *)
Theorem C01_skew_repr : forall a z1 z2,
  skew_normalized a z1 z2
  = ((z1 + z2) / sqrt 2 + a * Rabs ((z1 - z2) / sqrt 2)) / sqrt (1 + a * a).
Proof. exact skew_repr. Qed.
Print Assumptions C01_skew_repr.

Theorem C01_skew_rotation_isometry : forall z1 z2,
  ((z1 + z2) / sqrt 2) ^ 2 + ((z1 - z2) / sqrt 2) ^ 2 = z1 ^ 2 + z2 ^ 2.
Proof. exact skew_rotation_isometry. Qed.
Print Assumptions C01_skew_rotation_isometry.

Theorem C01_skew_shape_one : forall z1 z2, skew_normalized 1 z1 z2 = Rmax z1 z2.
Proof. exact skew_shape_one. Qed.
Print Assumptions C01_skew_shape_one.

Theorem C01_skew_shape_minus_one : forall z1 z2, skew_normalized (-1) z1 z2 = Rmin z1 z2.
Proof. exact skew_shape_minus_one. Qed.
Print Assumptions C01_skew_shape_minus_one.

Theorem C01_skew_max_min_repr : forall z1 z2,
  ((z1 + z2) / sqrt 2 + Rabs ((z1 - z2) / sqrt 2)) / sqrt 2 = Rmax z1 z2 /\
  ((z1 + z2) / sqrt 2 - Rabs ((z1 - z2) / sqrt 2)) / sqrt 2 = Rmin z1 z2.
Proof. exact skew_max_min_repr. Qed.
Print Assumptions C01_skew_max_min_repr.

(* shape 0: the general formula gives S; the code returns z1 without drawing z2 (same N(0,1) law) *)
Theorem C01_skew_shape_zero : forall z1 z2, skew_normalized 0 z1 z2 = (z1 + z2) / sqrt 2.
Proof. exact skew_shape_zero. Qed.
Print Assumptions C01_skew_shape_zero.

Example C01_ex_skew :
  skew_normalized 2 1 3 = ((1 + 3) / sqrt 2 + 2 * Rabs ((1 - 3) / sqrt 2)) / sqrt (1 + 2 * 2) /\
  skew_normalized 1 1 3 = 3 /\ skew_normalized (-1) 1 3 = 1.
Proof.
  split; [| split].
  - apply C01_skew_repr.
  - rewrite C01_skew_shape_one. apply Rmax_right. lra.
  - rewrite C01_skew_shape_minus_one. apply Rmin_left. lra.
Qed.

(* ===================== 4. Beta: Cheng's BB / BC (beta.rs:187-266) ===================== *)

Theorem C01_bb_defs : forall a b beta gamma lam u v r w,
  bb_V beta u = beta * ln (u / (1 - u)) /\
  bb_W a beta u = a * exp (bb_V beta u) /\
  bb_R gamma v = gamma * v - ln 4 /\
  bb_S a r w = a + r - w /\
  bb_E a b r w = r + (a + b) * ln ((a + b) / (b + w)) /\
  bb_G a lam w = Rpower w lam / (Rpower a lam + Rpower w lam) /\
  bb_g a lam w = lam * Rpower a lam * Rpower w (lam - 1) / (Rpower a lam + Rpower w lam) ^ 2 /\
  bb_f a b w = Rpower w (a - 1) / Rpower (b + w) (a + b) /\
  bb_C a b lam = lam * Rpower (a + b) (a + b) / (4 * Rpower a a).
Proof. exact bb_defs. Qed.
Print Assumptions C01_bb_defs.

Theorem C01_bb_W_pos : forall a beta u1, 0 < a -> 0 < bb_W a beta u1.
Proof. exact bb_W_pos. Qed.
Print Assumptions C01_bb_W_pos.

(* the proposal: W has CDF bb_G (inverse-CDF sampling from u1), with density bb_g *)
Theorem C01_bb_proposal_cdf : forall a beta u1, 0 < a -> 0 < beta -> 0 < u1 < 1 ->
  bb_G a (/ beta) (bb_W a beta u1) = u1.
Proof. exact bb_proposal_cdf. Qed.
Print Assumptions C01_bb_proposal_cdf.

Theorem C01_bb_proposal_density : forall a lam w, 0 < a -> 0 < w ->
  is_derive (bb_G a lam) w (bb_g a lam w).
Proof. exact bb_proposal_density. Qed.
Print Assumptions C01_bb_proposal_density.

(* the target: x^(a-1) (1-x)^(b-1) dx/dw at x = w/(b+w) is b^b * bb_f a b w *)
Theorem C01_beta_prime_kernel : forall a b w, 0 < b -> 0 < w ->
  let x := w / (b + w) in
  is_derive (fun w => w / (b + w)) w (b / (b + w) ^ 2) /\
  Rpower x (a - 1) * Rpower (1 - x) (b - 1) * (b / (b + w) ^ 2) = Rpower b b * bb_f a b w.
Proof. exact beta_prime_kernel. Qed.
Print Assumptions C01_beta_prime_kernel.

Theorem C01_bb_accept_ratio : forall a b beta u1, 0 < a -> 0 < b -> 0 < beta -> 0 < u1 < 1 ->
  let v := bb_V beta u1 in let w := bb_W a beta u1 in
  exp (bb_E a b (bb_R (a + / beta) v) w) / (u1 * u1)
  = bb_C a b (/ beta) * (bb_f a b w / bb_g a (/ beta) w).
Proof. exact bb_accept_ratio. Qed.
Print Assumptions C01_bb_accept_ratio.

(* step 4 of BB accepts  <->  u2 <= C * target(W) / proposal(W) *)
Theorem C01_bb_exact_test : forall a b beta u1 u2,
  0 < a -> 0 < b -> 0 < beta -> 0 < u1 < 1 -> 0 < u2 ->
  let v := bb_V beta u1 in let w := bb_W a beta u1 in
  (ln (u1 * u1 * u2) <= bb_E a b (bb_R (a + / beta) v) w
   <-> u2 <= bb_C a b (/ beta) * (bb_f a b w / bb_g a (/ beta) w)).
Proof. exact bb_exact_test. Qed.
Print Assumptions C01_bb_exact_test.

(* u1 = 1/2 gives w = a, where the acceptance probability is exactly 1 *)
Theorem C01_bb_accept_at_half : forall a b gamma beta, 0 < a -> 0 < b ->
  bb_W a beta (1 / 2) = a /\
  exp (bb_E a b (bb_R gamma (bb_V beta (1 / 2))) (bb_W a beta (1 / 2))) / (1 / 2 * (1 / 2)) = 1.
Proof. exact bb_accept_at_half. Qed.
Print Assumptions C01_bb_accept_at_half.

(* step 5 of BC (beta = 1/b) *)
Theorem C01_bc_exact_test : forall a b u1 u2, 0 < a -> 0 < b -> 0 < u1 < 1 -> 0 < u2 ->
  let v := bb_V (1 / b) u1 in let w := bb_W a (1 / b) u1 in
  (ln (u1 * u1 * u2) <= (a + b) * (ln ((a + b) / (b + w)) + v) - ln 4
   <-> u2 <= bb_C a b b * (bb_f a b w / bb_g a b w)).
Proof. exact bc_exact_test. Qed.
Print Assumptions C01_bc_exact_test.

Theorem C01_bb_key_ineq : forall a b w, 0 < a -> 0 < b -> 0 < w ->
  a - w <= (a + b) * ln ((a + b) / (b + w)).
Proof. exact bb_key_ineq. Qed.
Print Assumptions C01_bb_key_ineq.

(* step 3 (s >= t) and step 2 (s + 1 + ln 5 >= 5 z) only accept what step 4 accepts *)
Theorem C01_bb_squeeze3 : forall a b r w t, 0 < a -> 0 < b -> 0 < w ->
  t <= bb_S a r w -> t <= bb_E a b r w.
Proof. exact bb_squeeze3. Qed.
Print Assumptions C01_bb_squeeze3.

Theorem C01_bb_squeeze2 : forall a b r w z, 0 < a -> 0 < b -> 0 < w -> 0 < z ->
  5 * z <= bb_S a r w + 1 + ln 5 -> ln z <= bb_S a r w /\ ln z <= bb_E a b r w.
Proof. exact bb_squeeze2. Qed.
Print Assumptions C01_bb_squeeze2.

Theorem C01_beta_final_map : forall b w, 0 < b -> 0 < w ->
  0 < w / (b + w) < 1 /\ b / (b + w) = 1 - w / (b + w).
Proof. exact beta_final_map. Qed.
Print Assumptions C01_beta_final_map.

Example C01_ex_bb :
  bb_G 2 (/ (1 / 2)) (bb_W 2 (1 / 2) (1 / 3)) = 1 / 3 /\
  (ln (1 / 3 * (1 / 3) * (1 / 2))
     <= bb_E 2 3 (bb_R (2 + / (1 / 2)) (bb_V (1 / 2) (1 / 3))) (bb_W 2 (1 / 2) (1 / 3))
   <-> 1 / 2 <= bb_C 2 3 (/ (1 / 2))
                * (bb_f 2 3 (bb_W 2 (1 / 2) (1 / 3)) / bb_g 2 (/ (1 / 2)) (bb_W 2 (1 / 2) (1 / 3)))) /\
  (ln 1 <= bb_S 2 0 1 -> ln 1 <= bb_E 2 3 0 1).
Proof.
  split; [| split].
  - apply C01_bb_proposal_cdf; lra.
  - apply (C01_bb_exact_test 2 3 (1 / 2) (1 / 3) (1 / 2)); lra.
  - apply C01_bb_squeeze3; lra.
Qed.

(* ===================== 5. Algebraic forms ===================== *)

(* chi_squared.rs:126-130 *)
Theorem C01_chi1_square : forall z x, 0 <= x -> (z * z <= x <-> - sqrt x <= z <= sqrt x).
Proof. exact chi1_square. Qed.
Print Assumptions C01_chi1_square.

(* student_t.rs:84-87 *)
Theorem C01_student_t_form : forall dof chi z, 0 < dof -> 0 < chi ->
  z * sqrt (dof / chi) = z / sqrt (chi / dof).
Proof. exact student_t_form. Qed.
Print Assumptions C01_student_t_form.

(* fisher_f.rs:105-107 *)
Theorem C01_fisher_f_form : forall m n x y, 0 < m -> 0 < n -> 0 < y ->
  x / y * (n / m) = (x / m) / (y / n).
Proof. exact fisher_f_form. Qed.
Print Assumptions C01_fisher_f_form.

(* pert.rs:139-169 *)
Theorem C01_pert_defs : forall mn mx mode shape,
  pert_v mn mx mode shape = 1 + shape * (mode - mn) / (mx - mn) /\
  pert_w mn mx mode shape = 1 + shape * (mx - mode) / (mx - mn).
Proof. exact pert_defs. Qed.
Print Assumptions C01_pert_defs.

Theorem C01_pert_affine_beta : forall mn mx mode shape,
  mn < mx -> mn <= mode <= mx -> 0 <= shape ->
  let v := pert_v mn mx mode shape in let w := pert_w mn mx mode shape in
  1 <= v /\ 1 <= w /\ v + w = 2 + shape /\
  (forall B, 0 <= B <= 1 -> mn <= B * (mx - mn) + mn <= mx) /\
  mn + (mx - mn) * (v / (v + w)) = (mn + shape * mode + mx) / (shape + 2).
Proof. exact pert_affine_beta. Qed.
Print Assumptions C01_pert_affine_beta.

Theorem C01_pert_with_mean : forall mn mx mean shape, 0 < shape ->
  let mode := ((shape + 2) * mean - mn - mx) / shape in
  (mn + shape * mode + mx) / (shape + 2) = mean.
Proof. exact pert_with_mean. Qed.
Print Assumptions C01_pert_with_mean.

(* normal_inverse_gaussian.rs:115-117 *)
Theorem C01_nig_mixture_form : forall beta V z x, 0 < V ->
  (beta * V + sqrt V * z <= x <-> z <= (x - beta * V) / sqrt V).
Proof. exact nig_mixture_form. Qed.
Print Assumptions C01_nig_mixture_form.

(* normal.rs: Normal (std_dev of either sign) and LogNormal *)
Theorem C01_normal_affine_event : forall mu s z x,
  (0 < s -> (mu + s * z <= x <-> z <= (x - mu) / s)) /\
  (s < 0 -> (mu + s * z <= x <-> (x - mu) / s <= z)).
Proof. exact normal_affine_event. Qed.
Print Assumptions C01_normal_affine_event.

Theorem C01_normal_negative_std : forall mu s z, s < 0 -> mu + s * z = mu + Rabs s * (- z).
Proof. exact normal_negative_std. Qed.
Print Assumptions C01_normal_negative_std.

Theorem C01_lognormal_exp : forall mu s z x, 0 < s -> 0 < x ->
  (exp (mu + s * z) <= x <-> z <= (ln x - mu) / s).
Proof. exact lognormal_exp. Qed.
Print Assumptions C01_lognormal_exp.

Example C01_ex_forms :
  (3 * 3 <= 16 <-> - sqrt 16 <= 3 <= sqrt 16) /\
  2 * sqrt (5 / 7) = 2 / sqrt (7 / 5) /\
  3 / 4 * (6 / 5) = (3 / 5) / (4 / 6) /\
  pert_v 0 10 3 4 + pert_w 0 10 3 4 = 2 + 4 /\
  (1 / 2 * 4 + sqrt 4 * 1 <= 5 <-> 1 <= (5 - 1 / 2 * 4) / sqrt 4) /\
  (1 + -2 * 3 <= 0 <-> (0 - 1) / -2 <= 3) /\
  (exp (1 + 2 * 0) <= 3 <-> 0 <= (ln 3 - 1) / 2).
Proof.
  repeat split.
  - apply C01_chi1_square; lra.
  - apply C01_chi1_square; lra.
  - intros H. apply (C01_chi1_square 3 16); lra.
  - apply C01_student_t_form; lra.
  - apply C01_fisher_f_form; lra.
  - apply (C01_pert_affine_beta 0 10 3 4); lra.
  - apply (C01_nig_mixture_form (1 / 2) 4 1 5); lra.
  - apply (C01_nig_mixture_form (1 / 2) 4 1 5); lra.
  - apply (C01_normal_affine_event 1 (-2) 3 0); lra.
  - apply (C01_normal_affine_event 1 (-2) 3 0); lra.
  - apply (C01_lognormal_exp 1 2 0 3); lra.
  - apply (C01_lognormal_exp 1 2 0 3); lra.
Qed.
