(* Props/C03_support.v — part of property C03 on the ideal real-number models (Model/Continuous.v):
   every result `(e, rest)` that the exact semantics `evals` (Base/Run.v) can produce, and whose
   expression e denotes a real number x (evalX e = Xreal x), lies in the support.
   Statements only; proofs in Proofs/Support.v.
     dyR q          real value of the dyadic parameter q = (m, e): m * 2^e      (Proofs/LawsInvCdf.v)
     word w         0 <= w < 2^64
     allsem P r     P holds of every result of the exact semantics of the tree r                      *)
From Coq Require Import Reals ZArith List Lra.
From Interval Require Import Xreal.
From RD Require Import Base.Expr Base.Run Model.Sampler Model.Continuous Gen.ZigTables Proofs.LawsInvCdf Proofs.Support Proofs.SupportMore.
Import ListNotations.
Open Scope R_scope.

Theorem C03_allsem_meaning : forall A (P : A -> Prop) r, allsem P r <-> forall v, evals r v -> P v.
Proof. exact @allsem_evals. Qed.

(* Beta(alpha, beta): both reflections, both algorithms (Cheng BB and BC) *)
Theorem C03_beta_in_unit : forall t alpha beta ws e rest x,
  0 < dyR alpha -> 0 < dyR beta ->
  evals (Continuous.beta t alpha beta ws) (e, rest) -> evalX e = Xreal x -> 0 <= x <= 1.
Proof. exact beta_in_unit. Qed.
Theorem C03_beta_in_open_unit : forall t alpha beta ws e rest x,
  0 < dyR alpha -> 0 < dyR beta ->
  evals (Continuous.beta t alpha beta ws) (e, rest) -> evalX e = Xreal x -> 0 < x < 1.
Proof. exact beta_in_open_unit. Qed.
(* every W returned by the two rejection loops is a * exp(v), for all fuel and all word lists *)
Theorem C03_beta_loops_return_a_exp : forall fuel t a b alpha beta g k1 k2 ws,
  allsem (fun p => exists v, fst p = Bin Mul a (Un Exp v)) (beta_bb fuel t a b alpha beta g ws) /\
  allsem (fun p => exists v, fst p = Bin Mul a (Un Exp v)) (beta_bc fuel t a b alpha beta k1 k2 ws).
Proof. exact (fun fuel t a b alpha beta g k1 k2 ws =>
  conj (beta_bb_leaves fuel t a b alpha beta g ws) (beta_bc_leaves fuel t a b alpha beta k1 k2 ws)). Qed.

(* Exp1, Exp(lambda) >= 0; the table entries of the exponential ziggurat are nonnegative (computed) *)
Theorem C03_zig_exp_table_nonneg : Forall (fun q => (0 <= fst q)%Z) ZIG_EXP_X /\ 0 <= dyR ZIG_EXP_R.
Proof. exact (conj ZIG_EXP_X_nonneg ZIG_EXP_R_nonneg). Qed.
Theorem C03_exp1_nonneg : forall t ws e rest x,
  Forall word ws -> evals (exp1 t ws) (e, rest) -> evalX e = Xreal x -> 0 <= x.
Proof. exact exp1_nonneg. Qed.
Theorem C03_exp_nonneg : forall t lambda ws e rest x,
  0 < dyR lambda -> Forall word ws ->
  evals (exp_lambda t lambda ws) (e, rest) -> evalX e = Xreal x -> 0 <= x.
Proof. exact exp_nonneg. Qed.

(* Gamma (all three representations), ChiSquared >= 0; the Marsaglia-Tsang variate is positive *)
Theorem C03_gamma_unscaled_pos : forall fuel t c d ws,
  allsem (fun p => forall x, evalX (fst p) = Xreal x -> 0 < x) (gamma_unscaled fuel t c d ws).
Proof. exact gamma_unscaled_leaves. Qed.
Theorem C03_gamma_nonneg : forall t shape scale ws e rest x,
  0 < dyR shape -> 0 < dyR scale -> Forall word ws ->
  evals (gamma t shape scale ws) (e, rest) -> evalX e = Xreal x -> 0 <= x.
Proof. exact gamma_nonneg. Qed.
Theorem C03_chi_squared_nonneg : forall t k ws e rest x,
  0 < dyR k -> Forall word ws ->
  evals (chi_squared t k ws) (e, rest) -> evalX e = Xreal x -> 0 <= x.
Proof. exact chi_squared_nonneg. Qed.

(* single-draw families *)
Theorem C03_weibull_nonneg : forall t scale shape ws e rest x,
  0 < dyR scale -> evals (weibull t scale shape ws) (e, rest) -> evalX e = Xreal x -> 0 <= x.
Proof. exact weibull_nonneg. Qed.
Theorem C03_weibull_pos : forall t scale shape ws e rest x,
  0 < dyR scale -> evals (weibull t scale shape ws) (e, rest) -> evalX e = Xreal x -> 0 < x.
Proof. exact weibull_pos. Qed.
Theorem C03_pareto_ge_scale : forall t scale shape ws e rest x,
  0 < dyR scale -> 0 < dyR shape -> Forall word ws ->
  evals (pareto t scale shape ws) (e, rest) -> evalX e = Xreal x -> dyR scale <= x.
Proof. exact pareto_ge_scale. Qed.
Theorem C03_frechet_gt_loc : forall t loc scale shape ws e rest x,
  0 < dyR scale -> evals (frechet t loc scale shape ws) (e, rest) -> evalX e = Xreal x -> dyR loc < x.
Proof. exact frechet_gt_loc. Qed.
Theorem C03_triangular_in_range : forall t mn mx mode ws e rest x,
  dyR mn < dyR mx -> dyR mn <= dyR mode <= dyR mx -> Forall word ws ->
  evals (triangular t mn mx mode ws) (e, rest) -> evalX e = Xreal x -> dyR mn <= x <= dyR mx.
Proof. exact triangular_in_range. Qed.
(* Pert = min + Beta(v, w) * (max - min) *)
Theorem C03_pert_in_range : forall t mn mx mode shape ws e rest x,
  dyR mn < dyR mx -> dyR mn <= dyR mode <= dyR mx -> 0 <= dyR shape ->
  evals (pert t mn mx mode shape ws) (e, rest) -> evalX e = Xreal x -> dyR mn <= x <= dyR mx.
Proof. exact pert_in_range. Qed.

(* exact comparison of dyadic parameters used by the models' parameter tests *)
Theorem C03_dy_cmp_spec : forall a b, dy_cmp a b = Raux.Rcompare (dyR a) (dyR b).
Proof. exact dy_cmp_spec. Qed.

(* ---- examples: the hypotheses are satisfiable, and a concrete result ----------------------------------- *)
Example C03_ex_hyps :
  0 < dyR (2, 0)%Z /\ 0 < dyR (1, -1)%Z /\ Forall word [0; 2 ^ 63; 2 ^ 64 - 1]%Z /\
  dyR (0, 0)%Z < dyR (4, 0)%Z /\ dyR (0, 0)%Z <= dyR (1, 0)%Z <= dyR (4, 0)%Z.
Proof.
  unfold dyR, word. simpl. repeat split; try lra; repeat constructor; try discriminate; reflexivity.
Qed.
(* Weibull(scale 2, shape 1) on the word 0 is 2 * (-ln 2^-53)^(1/1): a result exists, so the theorem
   is not vacuous, and it is positive *)
Example C03_ex_weibull : exists e x,
  evals (weibull F64 (2, 0)%Z (1, 0)%Z [0%Z]) (e, []) /\ evalX e = Xreal x /\ 0 < x.
Proof.
  assert (word 0%Z) as W by (unfold word; split; [discriminate|reflexivity]).
  assert (uR_oc F64 0%Z < 1) as U.
  { unfold uR_oc. change (0 / 2 ^ 11)%Z with 0%Z. rewrite Rplus_0_l. apply div_lt_1; [apply pow_lt; lra|].
    apply Rlt_pow_R1; [lra|]. repeat constructor. }
  assert (0 < dyR (2, 0)%Z /\ 0 < dyR (1, 0)%Z) as [H2 H1] by (unfold dyR; simpl; lra).
  pose proof (weibull_value F64 (2, 0)%Z (1, 0)%Z 0%Z H2 H1 W U) as V.
  assert (evals (weibull F64 (2, 0)%Z (1, 0)%Z [0%Z]) (weibull_expr F64 (2, 0)%Z (1, 0)%Z 0%Z, [])) as E
    by (rewrite weibull_run; constructor).
  exists (weibull_expr F64 (2, 0)%Z (1, 0)%Z 0%Z), (Q_weibull (dyR (2, 0)%Z) (dyR (1, 0)%Z) (uR_oc F64 0%Z)).
  split; [exact E|]. split; [exact V|]. exact (weibull_pos _ _ _ _ _ _ _ H2 E V).
Qed.

(* LogNormal > 0, FisherF >= 0, InverseGaussian > 0 (both Michael-Schucany-Haas roots) *)
Theorem C03_lognormal_pos : forall t mu sigma ws e rest x,
  evals (lognormal t mu sigma ws) (e, rest) -> evalX e = Xreal x -> 0 < x.
Proof. exact lognormal_pos. Qed.
Theorem C03_fisher_f_nonneg : forall t m n ws e rest x,
  0 < dyR m -> 0 < dyR n -> Forall word ws ->
  evals (fisher_f t m n ws) (e, rest) -> evalX e = Xreal x -> 0 <= x.
Proof. exact fisher_f_nonneg. Qed.
Theorem C03_inverse_gaussian_pos : forall t mean shape ws e rest x,
  0 < dyR mean -> 0 < dyR shape ->
  evals (inverse_gaussian t mean shape ws) (e, rest) -> evalX e = Xreal x -> 0 < x.
Proof. exact inverse_gaussian_pos. Qed.

(* the exponential tail routine of the ziggurat is defined and finite for EVERY word (repair of finding F5: the draw is
   Open01, so ln never sees 0) and its value exceeds the tail start r *)
Theorem C03_exp_tail_defined : forall um u w ws, word w ->
  exists x, evals (exp_zero um u (w :: ws)) (Bin Sub (dyx ZIG_EXP_R) (eln (u_open F64 w)), ws) /\
            evalX (Bin Sub (dyx ZIG_EXP_R) (eln (u_open F64 w))) = Xreal x /\ dyR ZIG_EXP_R < x.
Proof. exact exp_zero_defined. Qed.
Print Assumptions C03_exp_tail_defined.
Print Assumptions C03_lognormal_pos.
Print Assumptions C03_fisher_f_nonneg.
Print Assumptions C03_inverse_gaussian_pos.
Print Assumptions C03_allsem_meaning.
Print Assumptions C03_beta_in_unit.
Print Assumptions C03_beta_in_open_unit.
Print Assumptions C03_beta_loops_return_a_exp.
Print Assumptions C03_zig_exp_table_nonneg.
Print Assumptions C03_exp1_nonneg.
Print Assumptions C03_exp_nonneg.
Print Assumptions C03_gamma_unscaled_pos.
Print Assumptions C03_gamma_nonneg.
Print Assumptions C03_chi_squared_nonneg.
Print Assumptions C03_weibull_nonneg.
Print Assumptions C03_weibull_pos.
Print Assumptions C03_pareto_ge_scale.
Print Assumptions C03_frechet_gt_loc.
Print Assumptions C03_triangular_in_range.
Print Assumptions C03_pert_in_range.
Print Assumptions C03_dy_cmp_spec.
