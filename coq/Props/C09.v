(* Props/C09.v — WeightedTreeIndex stays consistent with its weight list under any
   update history (integer weight types).  This file contains only statements,
   each closed by `exact <lemma>`, and Print Assumptions.                        *)
From Coq Require Import ZArith List Lia.
From RD Require Import Model.Tree Proofs.TreeBasics Proofs.TreeOps Proofs.TreeRefine.
Import ListNotations.
Open Scope Z_scope.

(* `new` accepts exactly the non-negative vectors whose total fits the type, builds the
   representation of the given list, and never panics *)
Theorem C09_new_spec : forall ty ws, wf_ty ty -> InRange ty ws ->
  match tree_new ty ws with
  | Ok t => Nonneg ws /\ zsum ws <= whi ty /\ Rep ws t
  | Err InvalidWeight => ~ Nonneg ws
  | Err Overflow => Nonneg ws /\ whi ty < zsum ws
  | Err _ => False
  | Panic => False
  end.
Proof. exact tree_new_spec. Qed.

(* one step: same output and same abstract list as the specification, invariant kept,
   never a panic for in-range arguments *)
Theorem C09_step_refines : forall ty t o, wf_ty ty -> Inv ty t -> op_ok ty t o ->
  spec_step ty (abs t) o = (abs (fst (step ty t o)), snd (step ty t o)) /\
  Inv ty (fst (step ty t o)) /\ snd (step ty t o) <> OutPanic.
Proof. exact step_refines. Qed.

(* every finite history *)
Theorem C09_history_refines : forall ty, wf_ty ty -> forall ops t, Inv ty t -> ops_ok ty t ops ->
  Inv ty (run ty t ops) /\
  abs (run ty t ops) = spec_run ty (abs t) ops /\
  outs ty t ops = spec_outs ty (abs t) ops /\
  ~ In OutPanic (outs ty t ops).
Proof. exact history_refines. Qed.

(* the value reached by any history from any accepted initial vector equals the fresh build
   of its current weight list *)
Theorem C09_history_eq_fresh : forall ty ws t0 ops, wf_ty ty -> InRange ty ws ->
  tree_new ty ws = Ok t0 -> ops_ok ty t0 ops ->
  tree_new ty (abs (run ty t0 ops)) = Ok (run ty t0 ops).
Proof. exact history_eq_fresh. Qed.

Theorem C09_observers : forall ty t, wf_ty ty -> Inv ty t ->
  tree_len t = Z.of_nat (length (abs t)) /\
  tree_is_empty t = tree_is_empty (abs t) /\
  (forall i, (i < length t)%nat -> get_chk ty t i = Ok (nthz (abs t) i)) /\
  tree_is_valid t = (0 <? zsum (abs t)).
Proof. exact inv_observers. Qed.

Theorem C09_error_atomic : forall ty t o e, snd (step ty t o) = OutErr e -> fst (step ty t o) = t.
Proof. exact step_error_atomic. Qed.

Theorem C09_rep_unique : forall w t1 t2, Rep w t1 -> Rep w t2 -> t1 = t2.
Proof. exact rep_unique. Qed.

(* non-vacuity: a concrete history (u8) with a level-opening push, an inner-node update,
   an overflow rejection and a pop across a level boundary meets the hypotheses *)
Definition u8 := {| wlo := 0; whi := 255 |}.
Definition ex_ops := [OpPush 7; OpPush 250; OpUpdate 0 5; OpPop; OpPush 1; OpUpdate 1 0; OpPop; OpPop].
Example C09_nonvacuous :
  wf_ty u8 /\ tree_new u8 [1; 2; 3] = Ok [6; 2; 3] /\ ops_ok u8 [6; 2; 3] ex_ops /\
  outs u8 [6;2;3] ex_ops =
    [OutUnit; OutErr Overflow; OutUnit; OutPop (Some 7); OutUnit; OutUnit; OutPop (Some 1); OutPop (Some 3)] /\
  run u8 [6;2;3] ex_ops = [5; 0].
Proof.
  split; [unfold wf_ty, u8; simpl; lia|].
  split; [vm_compute; reflexivity|].
  split; [apply ops_okb_sound; vm_compute; reflexivity|].
  split; vm_compute; reflexivity.
Qed.

Print Assumptions C09_new_spec.
Print Assumptions C09_step_refines.
Print Assumptions C09_history_refines.
Print Assumptions C09_history_eq_fresh.
Print Assumptions C09_observers.
Print Assumptions C09_error_atomic.
Print Assumptions C09_rep_unique.
Print Assumptions C09_nonvacuous.
