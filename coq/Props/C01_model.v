(* Props/C01_model.v — part of property C01 stated on the EXECUTABLE model of the Marsaglia-Tsang Gamma sampler
   (Model/Continuous.v: gamma_unscaled, the decision tree the pathwise correspondence runs against the crate).
   Statements only; proofs in Proofs/RejectModelEvents.v.
     mt_logacc d c x = x^2/2 + d (1 - v + ln v),  v = (1 + c x)^3          (Proofs/RejectGamma.v)
     mt_event C D X U : 0 < 1 + C X  /\  ln U < mt_logacc D C X           the exact acceptance event of the proposal (X, U)
   With C01_mt_identity / C01_mt_envelope the accepted proposals have the Gamma(k) kernel as density.          *)
From Coq Require Import Reals ZArith List Lra.
From Interval Require Import Xreal.
From RD Require Import Base.Expr Base.Run Model.Sampler Model.Continuous
  Proofs.LawsInvCdf Proofs.LoopBounds Proofs.RejectGamma Proofs.RejectBeta Proofs.SupportDiscrete Proofs.RejectModelEvents.
Import ListNotations.
Open Scope R_scope.

Theorem C01_mt_event_def : forall C D X U, mt_event C D X U <-> 0 < 1 + C * X /\ ln U < mt_logacc D C X.
Proof. intros. reflexivity. Qed.

(* soundness of acceptance: whatever the loop returns - through the quick test u < 1 - 0.0331 x^4 or the exact
   test - is a proposal in the exact acceptance event; for every fuel, every word list, every shape >= 1 (d >= 2/3) *)
Theorem C01_model_gamma_returns_accepted : forall t c d C D, evalX c = Xreal C -> evalX d = Xreal D ->
  2 / 3 <= D -> C = 1 / sqrt (9 * D) -> forall fuel ws, List.Forall word ws ->
  allout (fun q => exists x X U, evalX x = Xreal X /\ fst q = cube (Bin Add one (Bin Mul c x)) /\ 0 < U < 1 /\ mt_event C D X U)
         nopanic (gamma_unscaled fuel t c d ws).
Proof. exact gamma_unscaled_returns_accepted. Qed.

(* completeness: a proposal in the acceptance event is returned by the iteration that draws it *)
Theorem C01_model_gamma_accepts : forall t c d C D, evalX c = Xreal C -> evalX d = Xreal D ->
  forall f ws x X w ws' U,
  evals (std_normal t ws) (x, w :: ws') -> evalX x = Xreal X -> evalX (u_open t w) = Xreal U -> 0 < U < 1 ->
  mt_event C D X U -> evals (gamma_unscaled (S f) t c d ws) (cube (Bin Add one (Bin Mul c x)), ws').
Proof. exact gamma_unscaled_accepts. Qed.

(* Cheng's BB (both shapes > 1) on the executable model: (u1, u2) is returned exactly when the exact test of step 4 holds,
   ln(u1^2 u2) <= r + alpha ln(alpha/(b+w)); by C01_bb_exact_test that is u2 <= C f(w)/g(w) *)
Theorem C01_bb_event_def : forall A B BETA GAMMA U1 U2,
  bb_event A B BETA GAMMA U1 U2 <-> ln (U1 * U1 * U2) <= bb_E A B (bb_R GAMMA (bb_V BETA U1)) (bb_W A BETA U1).
Proof. intros. reflexivity. Qed.

Theorem C01_model_beta_bb_returns_accepted : forall t a b alpha beta gamma A B BETA GAMMA,
  evalX a = Xreal A -> evalX b = Xreal B -> evalX alpha = Xreal (A + B) -> evalX beta = Xreal BETA -> evalX gamma = Xreal GAMMA ->
  0 < A -> 0 < B -> forall fuel ws, List.Forall word ws ->
  allout (fun q => exists w1 w2 U1 U2, evalX (u_open t w1) = Xreal U1 /\ evalX (u_open t w2) = Xreal U2 /\
            0 < U1 < 1 /\ 0 < U2 < 1 /\ fst q = bb_w_expr a beta (u_open t w1) /\ bb_event A B BETA GAMMA U1 U2)
         nopanic (beta_bb fuel t a b alpha beta gamma ws).
Proof. exact beta_bb_returns_accepted. Qed.

Theorem C01_model_beta_bb_accepts : forall t a b alpha beta gamma A B BETA GAMMA,
  evalX a = Xreal A -> evalX b = Xreal B -> evalX alpha = Xreal (A + B) -> evalX beta = Xreal BETA -> evalX gamma = Xreal GAMMA ->
  0 < A -> 0 < B -> forall f w1 w2 ws U1 U2,
  evalX (u_open t w1) = Xreal U1 -> evalX (u_open t w2) = Xreal U2 -> 0 < U1 < 1 -> 0 < U2 < 1 ->
  bb_event A B BETA GAMMA U1 U2 ->
  evals (beta_bb (S f) t a b alpha beta gamma (w1 :: w2 :: ws)) (bb_w_expr a beta (u_open t w1), ws).
Proof. exact beta_bb_accepts. Qed.

Print Assumptions C01_bb_event_def.
Print Assumptions C01_model_beta_bb_returns_accepted.
Print Assumptions C01_model_beta_bb_accepts.
Print Assumptions C01_mt_event_def.
Print Assumptions C01_model_gamma_returns_accepted.
Print Assumptions C01_model_gamma_accepts.
