(* Props/C06_model.v — part of property C06 stated on the EXECUTABLE model of the ziggurat loop (Model/Continuous.v: zig,
   the decision tree of utils.rs:62-96 that the pathwise correspondence runs against the crate, instantiated with the
   regenerated tables for StandardNormal and Exp1).  Statement only; proof in Proofs/RejectModelEvents.v.
   Every value the loop returns, for every fuel and word list, is either produced by the tail routine (layer 0 with a failed
   rectangle test) or is x = u * X_i accepted by the rectangle test |x| < X_(i+1) (x < X_(i+1) one-sided) or, for a layer
   i >= 1 whose rectangle test failed, by the wedge test F_(i+1) + (F_i - F_(i+1)) u2 < pdf(x): exactly the three events whose
   sub-densities add up to f(x)/(N v) in C06_identity (Proofs/ZigIdentity.v).                                            *)
From Coq Require Import Reals ZArith List Lra.
From Interval Require Import Xreal.
From RD Require Import Base.Expr Base.Run Model.Sampler Model.Continuous
  Proofs.LawsInvCdf Proofs.LoopBounds Proofs.SupportDiscrete Proofs.RejectModelEvents.
Import ListNotations.
Open Scope R_scope.

Theorem C06_zig_accepted_def : forall sym X Fv pdf e,
  zig_accepted sym X Fv pdf e <->
  exists bits V, let i := Z.to_nat (bits mod 256) in
    e = Bin Mul (zig_u sym bits) (tab X i) /\ evalX e = Xreal V /\
    ((if sym then Rabs V else V) < tabR X (S i) \/
     (i <> 0%nat /\ tabR X (S i) <= (if sym then Rabs V else V) /\
      exists w2 Y, word w2 /\ evalX (pdf e) = Xreal Y /\
        tabR Fv (S i) + (tabR Fv i - tabR Fv (S i)) * uR_std F64 w2 < Y)).
Proof. intros. reflexivity. Qed.

Theorem C06_model_zig_returns_accepted : forall sym X Fv pdf zc (Pz : expr * list Z -> Prop),
  (forall um u ws, List.Forall word ws -> allout Pz nopanic (zc um u ws)) ->
  forall fuel ws, List.Forall word ws ->
  allout (fun q => Pz q \/ zig_accepted sym X Fv pdf (fst q)) nopanic (zig fuel sym X Fv pdf zc ws).
Proof. exact zig_returns_accepted. Qed.

Print Assumptions C06_zig_accepted_def.
Print Assumptions C06_model_zig_returns_accepted.
