(* Props/C07_fl.v — property C07 at the IEEE-754 level (Flocq BinarySingleNaN, round to nearest even) for Normal::from_zscore
   (normal.rs:244-246: self.mean + self.std_dev * zscore), the map every Normal / LogNormal / SkewNormal sample goes through:
     - value: absent overflow the float result IS the nested rounding rnd(mean + rnd(sd * z)) and is finite;
     - "up to floating-point rounding of that map": its distance to the real affine map mean + sd*z is at most
       u |mean + sd z| + u (2 + u) |sd z| + (1 + u) eta,  u = 2^-prec, eta = half the least subnormal;
     - scaling by a power of two is exact (sd = 2^k, no underflow);
     - NaN propagates; z = +-inf with finite mean and non-zero finite sd gives the infinity of sign sd*z; sd = 0 returns mean.
   Statements only; proofs in Proofs/AffineFl.v.                                                                                  *)
From Coq Require Import ZArith Bool Reals.
From Flocq Require Import Core.Core IEEE754.BinarySingleNaN.
From RD Require Import Proofs.AffineFl Gen.FlProg.
Open Scope R_scope.

Theorem C07_from_zscore_fl_def : forall prec emax (Hp : Prec_gt_0 prec) (Hpe : Prec_lt_emax prec emax) (mean sd z : binary_float prec emax),
  from_zscore_fl prec emax Hp Hpe mean sd z = Bplus mode_NE mean (Bmult mode_NE sd z).
Proof. reflexivity. Qed.

Theorem C07_from_zscore_fl_value : forall prec emax (Hp : Prec_gt_0 prec) (Hpe : Prec_lt_emax prec emax) (mean sd z : binary_float prec emax),
  is_finite mean = true -> is_finite sd = true -> is_finite z = true ->
  Rabs (rnd prec emax (B2R sd * B2R z)) < bpow radix2 emax ->
  Rabs (rnd prec emax (B2R mean + rnd prec emax (B2R sd * B2R z))) < bpow radix2 emax ->
  B2R (from_zscore_fl prec emax Hp Hpe mean sd z) = rnd prec emax (B2R mean + rnd prec emax (B2R sd * B2R z)) /\
  is_finite (from_zscore_fl prec emax Hp Hpe mean sd z) = true.
Proof. exact from_zscore_fl_value. Qed.

Theorem C07_from_zscore_fl_error : forall prec emax (Hp : Prec_gt_0 prec) (Hpe : Prec_lt_emax prec emax) (mean sd z : binary_float prec emax),
  is_finite mean = true -> is_finite sd = true -> is_finite z = true ->
  Rabs (rnd prec emax (B2R sd * B2R z)) < bpow radix2 emax ->
  Rabs (rnd prec emax (B2R mean + rnd prec emax (B2R sd * B2R z))) < bpow radix2 emax ->
  Rabs (B2R (from_zscore_fl prec emax Hp Hpe mean sd z) - (B2R mean + B2R sd * B2R z)) <=
    u prec * Rabs (B2R mean + B2R sd * B2R z) + u prec * (2 + u prec) * Rabs (B2R sd * B2R z) + (1 + u prec) * eta prec emax.
Proof. exact from_zscore_fl_error. Qed.

Theorem C07_scale_pow2_exact : forall prec emax (Hp : Prec_gt_0 prec) (Hpe : Prec_lt_emax prec emax) (sd z : binary_float prec emax) (k : Z),
  is_finite sd = true -> is_finite z = true -> B2R sd = bpow radix2 k ->
  B2R z = 0 \/ (0 <= k)%Z \/ bpow radix2 (aemin prec emax + prec - 1) <= Rabs (bpow radix2 k * B2R z) ->
  Rabs (bpow radix2 k * B2R z) < bpow radix2 emax ->
  B2R (Bmult mode_NE sd z) = bpow radix2 k * B2R z /\ is_finite (Bmult mode_NE sd z) = true.
Proof. exact Bmult_pow2_exact. Qed.

Theorem C07_from_zscore_fl_nan : forall prec emax (Hp : Prec_gt_0 prec) (Hpe : Prec_lt_emax prec emax) (mean sd z : binary_float prec emax),
  is_nan mean = true \/ is_nan sd = true \/ is_nan z = true -> is_nan (from_zscore_fl prec emax Hp Hpe mean sd z) = true.
Proof. exact from_zscore_fl_nan. Qed.

Theorem C07_from_zscore_fl_z_inf : forall prec emax (Hp : Prec_gt_0 prec) (Hpe : Prec_lt_emax prec emax) (mean sd : binary_float prec emax) (sz : bool),
  is_finite mean = true -> is_finite_strict sd = true ->
  from_zscore_fl prec emax Hp Hpe mean sd (B754_infinity sz) = B754_infinity (xorb (Bsign sd) sz).
Proof. exact from_zscore_fl_z_inf. Qed.

Theorem C07_from_zscore_fl_sd_zero : forall prec emax (Hp : Prec_gt_0 prec) (Hpe : Prec_lt_emax prec emax) (mean : binary_float prec emax) (s : bool)
  (z : binary_float prec emax),
  is_finite mean = true -> is_finite z = true -> B2R mean <> 0 -> from_zscore_fl prec emax Hp Hpe mean (B754_zero s) z = mean.
Proof. exact from_zscore_fl_sd_zero_eq. Qed.

(* the same shape serves Cauchy (cauchy.rs:113: median + scale * tan) and Frechet; Gumbel (gumbel.rs:100) subtracts: *)
Theorem C07_affine_sub_fl_def : forall prec emax (Hp : Prec_gt_0 prec) (Hpe : Prec_lt_emax prec emax) (loc scale g : binary_float prec emax),
  affine_sub_fl prec emax Hp Hpe loc scale g = Bminus mode_NE loc (Bmult mode_NE scale g).
Proof. reflexivity. Qed.

Theorem C07_affine_sub_fl_value : forall prec emax (Hp : Prec_gt_0 prec) (Hpe : Prec_lt_emax prec emax) (loc scale g : binary_float prec emax),
  is_finite loc = true -> is_finite scale = true -> is_finite g = true ->
  Rabs (rnd prec emax (B2R scale * B2R g)) < bpow radix2 emax ->
  Rabs (rnd prec emax (B2R loc - rnd prec emax (B2R scale * B2R g))) < bpow radix2 emax ->
  B2R (affine_sub_fl prec emax Hp Hpe loc scale g) = rnd prec emax (B2R loc - rnd prec emax (B2R scale * B2R g)) /\
  is_finite (affine_sub_fl prec emax Hp Hpe loc scale g) = true.
Proof. exact affine_sub_fl_value. Qed.

Theorem C07_affine_sub_fl_error : forall prec emax (Hp : Prec_gt_0 prec) (Hpe : Prec_lt_emax prec emax) (loc scale g : binary_float prec emax),
  is_finite loc = true -> is_finite scale = true -> is_finite g = true ->
  Rabs (rnd prec emax (B2R scale * B2R g)) < bpow radix2 emax ->
  Rabs (rnd prec emax (B2R loc - rnd prec emax (B2R scale * B2R g))) < bpow radix2 emax ->
  Rabs (B2R (affine_sub_fl prec emax Hp Hpe loc scale g) - (B2R loc - B2R scale * B2R g)) <=
    u prec * Rabs (B2R loc - B2R scale * B2R g) + u prec * (2 + u prec) * Rabs (B2R scale * B2R g) + (1 + u prec) * eta prec emax.
Proof. exact affine_sub_fl_error. Qed.

(* ---- tie to the source: Gen/FlProg.v is regenerated from /repo on every run by tools/flprog.py; the programs it reads off
   normal.rs (from_zscore), cauchy.rs, frechet.rs and gumbel.rs (the trailing expression of sample; libm calls opaque) ARE the
   hand-written programs the theorems above speak about. *)
Theorem C07_fl_source : forall prec emax (Hp : Prec_gt_0 prec) (Hpe : Prec_lt_emax prec emax) (loc scale z : binary_float prec emax),
  src_normal_from_zscore prec emax Hp Hpe loc scale z = from_zscore_fl prec emax Hp Hpe loc scale z /\
  src_cauchy_sample prec emax Hp Hpe loc scale z = from_zscore_fl prec emax Hp Hpe loc scale z /\
  src_frechet_sample prec emax Hp Hpe loc scale z = from_zscore_fl prec emax Hp Hpe loc scale z /\
  src_gumbel_sample prec emax Hp Hpe loc scale z = affine_sub_fl prec emax Hp Hpe loc scale z.
Proof. intros. repeat split; reflexivity. Qed.

Definition u_def_check : forall prec, u prec = bpow radix2 (- prec) := fun _ => eq_refl.
Definition eta_def_check : forall prec emax, eta prec emax = / 2 * bpow radix2 (3 - emax - prec) := fun _ _ => eq_refl.
Definition rnd_def_check : forall prec emax x, rnd prec emax x = round radix2 (FLT_exp (3 - emax - prec) prec) ZnearestE x := fun _ _ _ => eq_refl.

Print Assumptions C07_from_zscore_fl_def.
Print Assumptions C07_from_zscore_fl_value.
Print Assumptions C07_from_zscore_fl_error.
Print Assumptions C07_scale_pow2_exact.
Print Assumptions C07_from_zscore_fl_nan.
Print Assumptions C07_from_zscore_fl_z_inf.
Print Assumptions C07_from_zscore_fl_sd_zero.
Print Assumptions C07_affine_sub_fl_def.
Print Assumptions C07_affine_sub_fl_value.
Print Assumptions C07_affine_sub_fl_error.
Print Assumptions C07_fl_source.
