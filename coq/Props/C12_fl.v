(* Props/C12_fl.v — property C12 at the IEEE-754 level (Flocq BinarySingleNaN, round to nearest even), for the acceptance tests of
   UnitDisc and UnitBall (unit_disc.rs:47-52, unit_ball.rs:48-55), which involve no libm call:
       if x1*x1 + x2*x2 [+ x3*x3] <= 1 { break }
   with each product and each sum rounded.  For every binary format with 3 <= prec and prec + 3 <= emax (binary32, binary64) and all
   finite coordinates in [-1, 1] (the range of Uniform::new(-1, 1)), the float test is overflow-free, equals the nested rounding
   disc_sum / ball_sum of the real operations, and an ACCEPTED candidate has REAL squared norm at most 1 + 4u (disc) resp. 1 + 6u
   (ball), u = 2^-prec: the returned point lies within 1 + 3u of the origin.  Statement only; proofs in Proofs/UnitNormFl.v.        *)
From Coq Require Import ZArith Bool Reals.
From Flocq Require Import Core.Core IEEE754.BinarySingleNaN.
From RD Require Import Proofs.FlConst Proofs.AffineFl Proofs.UnitNormFl Proofs.UnitSphereFl Proofs.UnitCircleFl Gen.FlProg.
Open Scope R_scope.

Theorem C12_accept_fl_def : forall prec emax (Hp : Prec_gt_0 prec) (Hpe : Prec_lt_emax prec emax) (x1 x2 x3 : binary_float prec emax),
  disc_accept_fl prec emax Hp Hpe x1 x2 =
    Bleb (Bplus mode_NE (Bmult mode_NE x1 x1) (Bmult mode_NE x2 x2)) (Bone (prec_gt_0_ := Hp) (prec_lt_emax_ := Hpe)) /\
  ball_accept_fl prec emax Hp Hpe x1 x2 x3 =
    Bleb (Bplus mode_NE (Bplus mode_NE (Bmult mode_NE x1 x1) (Bmult mode_NE x2 x2)) (Bmult mode_NE x3 x3))
         (Bone (prec_gt_0_ := Hp) (prec_lt_emax_ := Hpe)).
Proof. intros. split; reflexivity. Qed.

Theorem C12_disc_accept_fl_norm : forall prec emax (Hp : Prec_gt_0 prec) (Hpe : Prec_lt_emax prec emax),
  (prec + 3 <= emax)%Z -> (3 <= prec)%Z -> forall x1 x2 : binary_float prec emax,
  is_finite x1 = true -> is_finite x2 = true -> Rabs (B2R x1) <= 1 -> Rabs (B2R x2) <= 1 ->
  disc_accept_fl prec emax Hp Hpe x1 x2 = true ->
  B2R x1 * B2R x1 + B2R x2 * B2R x2 <= 1 + 4 * bpow radix2 (- prec).
Proof. exact disc_accept_fl_norm. Qed.

Theorem C12_ball_accept_fl_norm : forall prec emax (Hp : Prec_gt_0 prec) (Hpe : Prec_lt_emax prec emax),
  (prec + 3 <= emax)%Z -> (3 <= prec)%Z -> forall x1 x2 x3 : binary_float prec emax,
  is_finite x1 = true -> is_finite x2 = true -> is_finite x3 = true ->
  Rabs (B2R x1) <= 1 -> Rabs (B2R x2) <= 1 -> Rabs (B2R x3) <= 1 ->
  ball_accept_fl prec emax Hp Hpe x1 x2 x3 = true ->
  B2R x1 * B2R x1 + B2R x2 * B2R x2 + B2R x3 * B2R x3 <= 1 + 6 * bpow radix2 (- prec).
Proof. exact ball_accept_fl_norm. Qed.

(* the float sum is finite (no overflow, no NaN) and is the nested rounding of the real operations *)
Theorem C12_disc_sum_fl_value : forall prec emax (Hp : Prec_gt_0 prec) (Hpe : Prec_lt_emax prec emax),
  (prec + 3 <= emax)%Z -> (3 <= prec)%Z -> forall x1 x2 : binary_float prec emax,
  is_finite x1 = true -> is_finite x2 = true -> Rabs (B2R x1) <= 1 -> Rabs (B2R x2) <= 1 ->
  B2R (disc_sum_fl prec emax Hp Hpe x1 x2) = disc_sum prec emax (B2R x1) (B2R x2) /\
  is_finite (disc_sum_fl prec emax Hp Hpe x1 x2) = true /\ 0 <= disc_sum prec emax (B2R x1) (B2R x2) <= 3.
Proof. exact disc_sum_fl_value. Qed.

(* converse: below a shell of width 4u (6u) the float test never rejects, so  {|x|^2 <= 1 - 4u}  <=  accepted  <=  {|x|^2 <= 1 + 4u} *)
Theorem C12_disc_accept_fl_complete : forall prec emax (Hp : Prec_gt_0 prec) (Hpe : Prec_lt_emax prec emax),
  (prec + 3 <= emax)%Z -> (3 <= prec)%Z -> forall x1 x2 : binary_float prec emax,
  is_finite x1 = true -> is_finite x2 = true -> Rabs (B2R x1) <= 1 -> Rabs (B2R x2) <= 1 ->
  B2R x1 * B2R x1 + B2R x2 * B2R x2 <= 1 - 4 * bpow radix2 (- prec) ->
  disc_accept_fl prec emax Hp Hpe x1 x2 = true.
Proof. exact disc_accept_fl_complete. Qed.

Theorem C12_ball_accept_fl_complete : forall prec emax (Hp : Prec_gt_0 prec) (Hpe : Prec_lt_emax prec emax),
  (prec + 3 <= emax)%Z -> (3 <= prec)%Z -> forall x1 x2 x3 : binary_float prec emax,
  is_finite x1 = true -> is_finite x2 = true -> is_finite x3 = true ->
  Rabs (B2R x1) <= 1 -> Rabs (B2R x2) <= 1 -> Rabs (B2R x3) <= 1 ->
  B2R x1 * B2R x1 + B2R x2 * B2R x2 + B2R x3 * B2R x3 <= 1 - 6 * bpow radix2 (- prec) ->
  ball_accept_fl prec emax Hp Hpe x1 x2 x3 = true.
Proof. exact ball_accept_fl_complete. Qed.

(* ---- tie to the source: the conditions of `if … { break; }` in unit_disc.rs / unit_ball.rs as read off /repo on every run
   (Gen/FlProg.v, tools/flprog.py) ARE the programs the theorems speak about. *)
Theorem C12_fl_source : forall prec emax (Hp : Prec_gt_0 prec) (Hpe : Prec_lt_emax prec emax) (x1 x2 x3 : binary_float prec emax),
  src_unit_disc_accept prec emax Hp Hpe x1 x2 = disc_accept_fl prec emax Hp Hpe x1 x2 /\
  src_unit_ball_accept prec emax Hp Hpe x1 x2 x3 = ball_accept_fl prec emax Hp Hpe x1 x2 x3.
Proof. intros. split; reflexivity. Qed.

(* ---- UnitSphere (unit_sphere.rs:52-63) is libm-free too: sum, the rejection test, factor = 2 sqrt(1 - sum) and the three returned
   components, each read off /repo on every run, are the hand-written programs; 2 is the float 1 + 1 (Proofs/FlConst.v: B2R Btwo = 2). *)
Theorem C12_sphere_fl_source : forall prec emax (Hp : Prec_gt_0 prec) (Hpe : Prec_lt_emax prec emax) (x1 x2 s f : binary_float prec emax),
  src_unit_sphere_sum prec emax Hp Hpe x1 x2 = disc_sum_fl prec emax Hp Hpe x1 x2 /\
  src_unit_sphere_reject prec emax Hp Hpe s = sphere_reject_fl prec emax Hp Hpe s /\
  src_unit_sphere_factor prec emax Hp Hpe s = sphere_factor_fl prec emax Hp Hpe s /\
  src_unit_sphere_x prec emax Hp Hpe x1 f = sphere_xy_fl prec emax Hp Hpe x1 f /\
  src_unit_sphere_y prec emax Hp Hpe x2 f = sphere_xy_fl prec emax Hp Hpe x2 f /\
  src_unit_sphere_z prec emax Hp Hpe s = sphere_z_fl prec emax Hp Hpe s.
Proof. intros. repeat split; reflexivity. Qed.

Theorem C12_Btwo_correct : forall prec emax (Hp : Prec_gt_0 prec) (Hpe : Prec_lt_emax prec emax),
  B2R (Btwo prec emax Hp Hpe) = 2 /\ is_finite (Btwo prec emax Hp Hpe) = true.
Proof. exact Btwo_correct. Qed.

(* For finite x1, x2 in [-1, 1] whose float sum is not rejected: no overflow, the square root is taken of a number in [0, 1], all three
   components are finite floats (never NaN), the third in [-1, 1] exactly, the first two in [-2, 2], the factor in [0, 2]. *)
Theorem C12_sphere_fl_finite : forall prec emax (Hp : Prec_gt_0 prec) (Hpe : Prec_lt_emax prec emax),
  (prec + 3 <= emax)%Z -> (3 <= prec)%Z -> forall x1 x2 : binary_float prec emax,
  is_finite x1 = true -> is_finite x2 = true -> Rabs (B2R x1) <= 1 -> Rabs (B2R x2) <= 1 ->
  sphere_reject_fl prec emax Hp Hpe (disc_sum_fl prec emax Hp Hpe x1 x2) = false ->
  let s := disc_sum_fl prec emax Hp Hpe x1 x2 in
  let f := sphere_factor_fl prec emax Hp Hpe s in
  is_finite (sphere_xy_fl prec emax Hp Hpe x1 f) = true /\ is_finite (sphere_xy_fl prec emax Hp Hpe x2 f) = true /\
  is_finite (sphere_z_fl prec emax Hp Hpe s) = true /\
  Rabs (B2R (sphere_xy_fl prec emax Hp Hpe x1 f)) <= 2 /\ Rabs (B2R (sphere_xy_fl prec emax Hp Hpe x2 f)) <= 2 /\
  Rabs (B2R (sphere_z_fl prec emax Hp Hpe s)) <= 1 /\ 0 <= B2R f <= 2.
Proof. exact sphere_fl_finite. Qed.

(* ---- UnitCircle (unit_circle.rs:49-63), five translated sites.  For finite x1, x2 in [-1, 1] with a positive float sum the inequality
   |diff| <= sum holds between the FLOATS (rounding is monotone and odd), so the first component diff / sum is a finite float in
   [-1, 1] exactly.  (The second quotient and the norm-1 clause at the float level are not proved; 4-ulp norm oracle.) *)
Theorem C12_circle_fl_source : forall prec emax (Hp : Prec_gt_0 prec) (Hpe : Prec_lt_emax prec emax) (x1 x2 d s : binary_float prec emax),
  src_unit_circle_sum prec emax Hp Hpe x1 x2 = circle_sum_fl prec emax Hp Hpe x1 x2 /\
  src_unit_circle_accept prec emax Hp Hpe s = circle_accept_fl prec emax Hp Hpe s /\
  src_unit_circle_diff prec emax Hp Hpe x1 x2 = circle_diff_fl prec emax Hp Hpe x1 x2 /\
  src_unit_circle_c0 prec emax Hp Hpe d s = circle_c0_fl prec emax Hp Hpe d s /\
  src_unit_circle_c1 prec emax Hp Hpe x1 x2 s = circle_c1_fl prec emax Hp Hpe x1 x2 s.
Proof. intros. repeat split; reflexivity. Qed.

Theorem C12_circle_c0_fl_unit : forall prec emax (Hp : Prec_gt_0 prec) (Hpe : Prec_lt_emax prec emax) (x1 x2 : binary_float prec emax),
  is_finite x1 = true -> is_finite x2 = true -> Rabs (B2R x1) <= 1 -> Rabs (B2R x2) <= 1 ->
  0 < B2R (circle_sum_fl prec emax Hp Hpe x1 x2) ->
  is_finite (circle_sum_fl prec emax Hp Hpe x1 x2) = true /\ is_finite (circle_diff_fl prec emax Hp Hpe x1 x2) = true /\
  Rabs (B2R (circle_diff_fl prec emax Hp Hpe x1 x2)) <= B2R (circle_sum_fl prec emax Hp Hpe x1 x2) /\
  is_finite (circle_c0_fl prec emax Hp Hpe (circle_diff_fl prec emax Hp Hpe x1 x2) (circle_sum_fl prec emax Hp Hpe x1 x2)) = true /\
  Rabs (B2R (circle_c0_fl prec emax Hp Hpe (circle_diff_fl prec emax Hp Hpe x1 x2) (circle_sum_fl prec emax Hp Hpe x1 x2))) <= 1.
Proof. exact circle_c0_fl_unit. Qed.

(* non-vacuity: binary64 and binary32 meet the format hypotheses *)
Example C12_fl_binary64 : forall x1 x2 : binary_float 53 1024,
  is_finite x1 = true -> is_finite x2 = true -> Rabs (B2R x1) <= 1 -> Rabs (B2R x2) <= 1 ->
  disc_accept_fl 53 1024 eq_refl eq_refl x1 x2 = true -> B2R x1 * B2R x1 + B2R x2 * B2R x2 <= 1 + 4 * bpow radix2 (- 53).
Proof. intros x1 x2. apply (C12_disc_accept_fl_norm 53 1024 eq_refl eq_refl); discriminate. Qed.
Example C12_fl_binary32 : forall x1 x2 x3 : binary_float 24 128,
  is_finite x1 = true -> is_finite x2 = true -> is_finite x3 = true -> Rabs (B2R x1) <= 1 -> Rabs (B2R x2) <= 1 -> Rabs (B2R x3) <= 1 ->
  ball_accept_fl 24 128 eq_refl eq_refl x1 x2 x3 = true ->
  B2R x1 * B2R x1 + B2R x2 * B2R x2 + B2R x3 * B2R x3 <= 1 + 6 * bpow radix2 (- 24).
Proof. intros x1 x2 x3. apply (C12_ball_accept_fl_norm 24 128 eq_refl eq_refl); discriminate. Qed.

Print Assumptions C12_accept_fl_def.
Print Assumptions C12_disc_accept_fl_norm.
Print Assumptions C12_ball_accept_fl_norm.
Print Assumptions C12_disc_sum_fl_value.
Print Assumptions C12_disc_accept_fl_complete.
Print Assumptions C12_ball_accept_fl_complete.
Print Assumptions C12_fl_source.
Print Assumptions C12_sphere_fl_source.
Print Assumptions C12_Btwo_correct.
Print Assumptions C12_sphere_fl_finite.
Print Assumptions C12_circle_fl_source.
Print Assumptions C12_circle_c0_fl_unit.
