(* Props/C10.v — WeightedTreeIndex samples proportionally to the current weights
   (integer weight types).  Statements only; proofs are in Proofs/TreeSample.v.   *)
From Coq Require Import ZArith List Lia.
From RD Require Import Model.Tree Model.Uniform Proofs.TreeBasics Proofs.TreeOps Proofs.TreeRefine Proofs.TreeSample.
Import ListNotations.
Open Scope Z_scope.

(* for every state satisfying the invariant and every target in [0,total): the descent returns
   an in-range index of non-zero weight, both post-condition assertions hold (no Panic), and the
   index is the target-th element of the enumeration in which j occurs w_j times *)
Theorem C10_try_sample_ok : forall ty t target, wf_ty ty -> Inv ty t -> 0 <= target < sub t 0 ->
  exists i, tree_try_sample ty t target = Ok i /\ (i < length t)%nat /\ 0 < nthz (abs t) i /\
            i = nth (Z.to_nat target) (flat (length t) (abs t) 0) 0%nat.
Proof. exact try_sample_ok. Qed.

(* exact proportionality: of the `total` equally likely targets exactly w_j select j *)
Theorem C10_proportional : forall ty t j, wf_ty ty -> Inv ty t -> (j < length t)%nat ->
  Z.of_nat (length (filter (picks ty t j) (seq 0 (Z.to_nat (sub t 0))))) = nthz (abs t) j.
Proof. exact try_sample_proportional. Qed.

(* empty tree or all weights zero *)
Theorem C10_zero_total : forall ty t target, sub t 0 = 0 -> tree_try_sample ty t target = Err InsufficientNonZero.
Proof. exact try_sample_zero. Qed.

(* after any history from any accepted initial vector (C09) the above applies *)
Theorem C10_after_history : forall ty ws t0 ops target, wf_ty ty -> InRange ty ws ->
  tree_new ty ws = Ok t0 -> ops_ok ty t0 ops -> 0 <= target < sub (run ty t0 ops) 0 ->
  exists i, tree_try_sample ty (run ty t0 ops) target = Ok i /\
            0 < nthz (spec_run ty ws ops) i.
Proof.
  intros ty ws t0 ops target WF IR E OK Ht.
  pose proof (tree_new_spec ty ws WF IR) as H. rewrite E in H. destruct H as [N [HS R]].
  assert (I0 : Inv ty t0) by (exists ws; auto).
  destruct (history_refines ty WF ops t0 I0 OK) as [I [A _]].
  destruct (try_sample_ok ty _ target WF I Ht) as [i [Ei [_ [Hp _]]]].
  exists i. split; auto. rewrite A, (rep_abs ws t0 R) in Hp. exact Hp.
Qed.

(* rand's range reduction (Canon, default build) always yields a target in [0,total) *)
Theorem C10_canon_in_range : forall b range ws v rest, Forall (fun x => 0 <= x < 2^64) ws ->
  0 < range < sbits_pow b -> canon b range ws = Some (v, rest) -> 0 <= v < range.
Proof. exact canon_in_range. Qed.

Definition u8 := {| wlo := 0; whi := 255 |}.
Example C10_nonvacuous :
  tree_new u8 [2; 0; 1; 3] = Ok [6; 3; 1; 3] /\
  map (fun k => tree_try_sample u8 [6;3;1;3] k) [0;1;2;3;4;5] = [Ok 3; Ok 3; Ok 3; Ok 2; Ok 0; Ok 0]%nat.
Proof. split; vm_compute; reflexivity. Qed.

Print Assumptions C10_try_sample_ok.
Print Assumptions C10_proportional.
Print Assumptions C10_zero_total.
Print Assumptions C10_after_history.
Print Assumptions C10_canon_in_range.
Print Assumptions C10_nonvacuous.
