(* Props/C15_gen.v — the serde descriptions regenerated from the source on this run are well formed, every
   serde-deriving type could be described, hence each of them round-trips (C15_roundtrip_table).      *)
From Coq Require Import String ZArith List Bool.
From RD Require Import Model.Serde Proofs.SerdeProofs Gen.TyDesc.
Require RD.Props.C15.
Import ListNotations.

Theorem C15_tydescs_wf : forallb (fun p => wf (snd p)) tydescs = true.
Proof. vm_compute. reflexivity. Qed.

Theorem C15_all_described : undescribed = [].
Proof. reflexivity. Qed.

Theorem C15_descriptions_nonempty : (40 <= length tydescs)%nat.
Proof. vm_compute. repeat constructor. Qed.

Theorem C15_generated_types_roundtrip : forall name d, In (name, d) tydescs ->
  forall v, has_type d v -> finite_floats v -> decode d (encode d v) = Some v.
Proof.
  intros name d Hin v Ht Hf. apply roundtrip; auto.
  pose proof C15_tydescs_wf as W. rewrite forallb_forall in W. exact (W _ Hin).
Qed.

Print Assumptions C15_tydescs_wf.
Print Assumptions C15_all_described.
Print Assumptions C15_descriptions_nonempty.
Print Assumptions C15_generated_types_roundtrip.
