(* Props/C11_fp.v — the source functions this property's hand models were written against are unchanged in the tree:
   regenerated fingerprints (Gen/Consts.v, rewritten by tools/rs2coq.py on every run) = fingerprints of the modelled tree (GenBase). *)
From Coq Require Import String ZArith List Bool.
From RD Require Import Base.Fp.
Require RD.Gen.Consts RD.GenBase.Consts.
Import ListNotations.
Open Scope string_scope.

Definition C11_files : list string := ["multi_dirichlet"; "gamma"; "beta"].

Theorem C11_fingerprints :
  fps_of C11_files Gen.Consts.all_fps = fps_of C11_files GenBase.Consts.all_fps.
Proof. apply fp_eqb_eq. vm_compute. reflexivity. Qed.

Theorem C11_fingerprints_nonempty : (1 <= length (fps_of C11_files GenBase.Consts.all_fps))%nat.
Proof. vm_compute. repeat constructor. Qed.

Print Assumptions C11_fingerprints.
Print Assumptions C11_fingerprints_nonempty.
