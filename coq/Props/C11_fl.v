(* Props/C11_fl.v — property C11 at the IEEE-754 level (Flocq BinarySingleNaN, round to nearest even), for the stick-breaking
   loop of DirichletFromBeta::sample_to_slice (dirichlet.rs:163-174), which involves no libm call:
       acc = 1;  for each beta_i:  out_i = acc * beta_i;  acc = acc * (1 - beta_i);   out_last = acc.
   If the Beta draws are finite floats in [0, 1] - which C03_beta_final_in_unit proves of Beta::sample's last step - then the output
   has exactly len(betas) + 1 components and every component is a FINITE FLOAT IN [0, 1] (no NaN, no overflow), for vectors of any
   length, in binary32 and binary64.  Statement only; proof in Proofs/DirichletFl.v.                                              *)
From Coq Require Import ZArith Bool Reals List.
From Flocq Require Import Core.Core IEEE754.BinarySingleNaN.
From RD Require Import Proofs.BetaFinalFl Proofs.DirichletFl Proofs.AffineFl Proofs.DirichletSumFl Gen.FlProg.
Import ListNotations.
Open Scope R_scope.

Theorem C11_sticks_fl_def : forall prec emax (Hp : Prec_gt_0 prec) (Hpe : Prec_lt_emax prec emax) (acc b : binary_float prec emax) r,
  sticks_fl prec emax Hp Hpe acc [] = [acc] /\
  sticks_fl prec emax Hp Hpe acc (b :: r) =
    Bmult mode_NE acc b :: sticks_fl prec emax Hp Hpe (Bmult mode_NE acc (Bminus mode_NE Bone b)) r.
Proof. intros. split; reflexivity. Qed.

Theorem C11_in_unit_def : forall prec emax (r : binary_float prec emax),
  in_unit prec emax r <-> is_finite r = true /\ 0 <= B2R r <= 1.
Proof. intros. reflexivity. Qed.

Theorem C11_dirichlet_sticks_fl : forall prec emax (Hp : Prec_gt_0 prec) (Hpe : Prec_lt_emax prec emax) (betas : list (binary_float prec emax)),
  Forall (in_unit prec emax) betas ->
  Forall (in_unit prec emax) (sticks_fl prec emax Hp Hpe Bone betas) /\
  length (sticks_fl prec emax Hp Hpe Bone betas) = S (length betas).
Proof. exact dirichlet_sticks_fl. Qed.

Example C11_sticks_fl_binary64 : forall betas : list (binary_float 53 1024), Forall (in_unit 53 1024) betas ->
  Forall (in_unit 53 1024) (sticks_fl 53 1024 eq_refl eq_refl (@Bone 53 1024 eq_refl eq_refl) betas).
Proof. intros betas H. apply (C11_dirichlet_sticks_fl 53 1024 eq_refl eq_refl betas H). Qed.

(* "summing to 1 within a few ulp": the REAL sum of the float components is within len * (2u + 3 eta) of 1, any length *)
Theorem C11_sumR_def : forall prec emax (x : binary_float prec emax) l,
  sumR prec emax [] = 0 /\ sumR prec emax (x :: l) = B2R x + sumR prec emax l.
Proof. intros. split; reflexivity. Qed.

Theorem C11_dirichlet_sum_fl : forall prec emax (Hp : Prec_gt_0 prec) (Hpe : Prec_lt_emax prec emax) (betas : list (binary_float prec emax)),
  Forall (in_unit prec emax) betas ->
  Rabs (sumR prec emax (sticks_fl prec emax Hp Hpe Bone betas) - 1)
    <= INR (length betas) * (2 * bpow radix2 (- prec) + 3 * (/ 2 * bpow radix2 (3 - emax - prec))).
Proof. exact dirichlet_sum_fl. Qed.

(* one step of the loop: out + acc' - acc *)
Theorem C11_stick_step : forall prec emax (Hp : Prec_gt_0 prec) (Hpe : Prec_lt_emax prec emax) (acc b : binary_float prec emax),
  in_unit prec emax acc -> in_unit prec emax b ->
  Rabs (B2R (Bmult mode_NE acc b) + B2R (Bmult mode_NE acc (Bminus mode_NE (Bone (prec_gt_0_ := Hp) (prec_lt_emax_ := Hpe)) b)) - B2R acc)
    <= 2 * bpow radix2 (- prec) + 3 * (/ 2 * bpow radix2 (3 - emax - prec)).
Proof. exact stick_step. Qed.

(* ---- tie to the source: the two assignments of the loop body in multi/dirichlet.rs (`*s = …`, `acc = …`) as read off /repo on
   every run (Gen/FlProg.v, tools/flprog.py) are the step of sticks_fl. *)
Theorem C11_fl_source : forall prec emax (Hp : Prec_gt_0 prec) (Hpe : Prec_lt_emax prec emax) (acc b : binary_float prec emax) r,
  sticks_fl prec emax Hp Hpe acc (b :: r) =
    src_dirichlet_stick_out prec emax Hp Hpe acc b :: sticks_fl prec emax Hp Hpe (src_dirichlet_stick_acc prec emax Hp Hpe acc b) r.
Proof. intros. reflexivity. Qed.

Print Assumptions C11_sticks_fl_def.
Print Assumptions C11_in_unit_def.
Print Assumptions C11_dirichlet_sticks_fl.
Print Assumptions C11_sumR_def.
Print Assumptions C11_dirichlet_sum_fl.
Print Assumptions C11_stick_step.
Print Assumptions C11_fl_source.
