(* Props/C14.v — sampling is a pure function of the distribution value and the RNG
   stream: no hidden state, sampling never mutates the distribution, equal values
   (clones, rebuilds from equal parameters) give equal sequences, interleaving with
   other objects/streams is irrelevant, sample_iter = repeated sample, and the
   stream position is the sum of the per-sample consumptions.
   Everything is quantified over the distribution type D, output type O, parameter
   type P, ANY sampler function samp and ANY constructor build. *)
From Coq Require Import ZArith List Bool String.
From RD Require Import Model.Pure Proofs.PureProofs.
Import ListNotations.
Open Scope Z_scope.

Section Statements.
  Variables D O P : Type.
  Variable samp : D -> list Z -> option (O * list Z).
  Variable build : P -> option D.
  Local Notation stepW := (step samp build).
  Local Notation runW := (run samp build).

  Theorem C14_sample_deterministic : forall (w1 w2 : world D) k1 k2 s1 s2,
    objs w1 k1 = objs w2 k2 -> streams w1 s1 = streams w2 s2 ->
    outputs (snd (stepW w1 (OpSample k1 s1))) = outputs (snd (stepW w2 (OpSample k2 s2))) /\
    streams (fst (stepW w1 (OpSample k1 s1))) s1 = streams (fst (stepW w2 (OpSample k2 s2))) s2.
  Proof. exact (sample_deterministic D O P samp build). Qed.

  Theorem C14_sample_leaves_dist : forall (w : world D) k s,
    objs (fst (stepW w (OpSample k s))) = objs w.
  Proof. exact (sample_leaves_dist D O P samp build). Qed.

  Theorem C14_sampling_history_leaves_dist : forall (ops : list (op P)) (w : world D),
    forallb is_sampling ops = true -> objs (fst (runW w ops)) = objs w.
  Proof. exact (sampling_history_leaves_dist D O P samp build). Qed.

  Theorem C14_same_dist_same_sequence : forall n (w1 w2 : world D) k1 k2 s1 s2,
    objs w1 k1 = objs w2 k2 -> streams w1 s1 = streams w2 s2 ->
    outputs (snd (runW w1 (repeat (OpSample k1 s1) n))) =
    outputs (snd (runW w2 (repeat (OpSample k2 s2) n))) /\
    streams (fst (runW w1 (repeat (OpSample k1 s1) n))) s1 =
    streams (fst (runW w2 (repeat (OpSample k2 s2) n))) s2.
  Proof. exact (same_dist_same_sequence D O P samp build). Qed.

  Theorem C14_clone_same_sequence : forall (w : world D) src dst s1 s2 n,
    streams w s1 = streams w s2 ->
    let w' := fst (stepW w (OpClone src dst)) in
    outputs (snd (runW w' (repeat (OpSample src s1) n))) =
    outputs (snd (runW w' (repeat (OpSample dst s2) n))) /\
    streams (fst (runW w' (repeat (OpSample src s1) n))) s1 =
    streams (fst (runW w' (repeat (OpSample dst s2) n))) s2.
  Proof. exact (clone_same_sequence D O P samp build). Qed.

  Theorem C14_clone_same_sequence_interleaved :
    forall (w : world D) src dst s1 s2 (mid : list (op P)) n,
    s1 <> s2 ->
    streams w s1 = streams w s2 ->
    forallb is_sampling mid = true ->
    Forall (fun o => match o with
                     | OpSample _ s' => s' <> s2
                     | OpIter _ s' _ => s' <> s2
                     | _ => True end) mid ->
    let w' := fst (stepW w (OpClone src dst)) in
    let w'' := fst (runW w' mid) in
    outputs (snd (runW w' (repeat (OpSample src s1) n))) =
    outputs (snd (runW w'' (repeat (OpSample dst s2) n))).
  Proof. exact (clone_same_sequence_interleaved D O P samp build). Qed.

  Theorem C14_rebuild_same_sequence : forall p d1 d2 ws n,
    build p = Some d1 -> build p = Some d2 -> sample_n samp d1 ws n = sample_n samp d2 ws n.
  Proof. exact (rebuild_same_sequence D O P samp build). Qed.

  Theorem C14_rebuild_same_sequence_world : forall (w1 w2 : world D) k1 k2 p d s1 s2 n,
    build p = Some d ->
    streams w1 s1 = streams w2 s2 ->
    let w1' := fst (stepW w1 (OpRebuild k1 p)) in
    let w2' := fst (stepW w2 (OpRebuild k2 p)) in
    outputs (snd (runW w1' (repeat (OpSample k1 s1) n))) =
    outputs (snd (runW w2' (repeat (OpSample k2 s2) n))) /\
    streams (fst (runW w1' (repeat (OpSample k1 s1) n))) s1 =
    streams (fst (runW w2' (repeat (OpSample k2 s2) n))) s2.
  Proof. exact (rebuild_same_sequence_world D O P samp build). Qed.

  Theorem C14_interleaving_independent : forall (ops : list (op P)) (w : world D) k s,
    Forall (isolated k s) ops ->
    filter (on_ks k s) (snd (runW w ops)) = snd (runW w (filter (relevant k s) ops)) /\
    objs (fst (runW w ops)) k = objs (fst (runW w (filter (relevant k s) ops))) k /\
    streams (fst (runW w ops)) s = streams (fst (runW w (filter (relevant k s) ops))) s.
  Proof. exact (interleaving_independent D O P samp build). Qed.

  Theorem C14_interleaving_independent_worlds : forall (ops : list (op P)) (w w' : world D) k s,
    objs w k = objs w' k -> streams w s = streams w' s ->
    Forall (isolated k s) ops ->
    filter (on_ks k s) (snd (runW w ops)) = filter (on_ks k s) (snd (runW w' ops)).
  Proof. exact (interleaving_independent_worlds D O P samp build). Qed.

  Theorem C14_iter_eq_repeat : forall n (w : world D) k s,
    snd (stepW w (OpIter k s n)) = snd (runW w (repeat (OpSample k s) n)) /\
    world_eq (fst (stepW w (OpIter k s n))) (fst (runW w (repeat (OpSample k s) n))).
  Proof. exact (iter_eq_repeat D O P samp build). Qed.

  Theorem C14_stream_position : forall (ops : list (op P)) (w : world D) s,
    Z.of_nat (List.length (streams (fst (runW w ops)) s)) =
    Z.of_nat (List.length (streams w s)) - consumed_on s (snd (runW w ops)).
  Proof. exact (stream_position D O P samp build). Qed.

  Theorem C14_stream_position_prefix : suffix_ok samp -> forall (ops : list (op P)) (w : world D) s,
    exists pre,
      streams w s = pre ++ streams (fst (runW w ops)) s /\
      Z.of_nat (List.length pre) = consumed_on s (snd (runW w ops)).
  Proof. exact (stream_position_prefix D O P samp build). Qed.
End Statements.

Print Assumptions C14_sample_deterministic.
Print Assumptions C14_sample_leaves_dist.
Print Assumptions C14_sampling_history_leaves_dist.
Print Assumptions C14_same_dist_same_sequence.
Print Assumptions C14_clone_same_sequence.
Print Assumptions C14_clone_same_sequence_interleaved.
Print Assumptions C14_rebuild_same_sequence.
Print Assumptions C14_rebuild_same_sequence_world.
Print Assumptions C14_interleaving_independent.
Print Assumptions C14_interleaving_independent_worlds.
Print Assumptions C14_iter_eq_repeat.
Print Assumptions C14_stream_position.
Print Assumptions C14_stream_position_prefix.

(* regenerated signature facts: the checker is true exactly when the crate forbids
   unsafe, no sampling method takes &mut self, no interior-mutability / global-state
   token occurs, and no static is mutable *)
Theorem C14_pure_sigs_true : forall forbid_unsafe recv_ok bad_tokens statics,
  pure_sigs forbid_unsafe recv_ok bad_tokens statics = true <->
  forbid_unsafe = true /\
  (forall b, In b recv_ok -> b = true) /\
  bad_tokens = [] /\
  (forall f n m, In (f, n, m) statics -> m = false).
Proof. exact pure_sigs_true. Qed.
Print Assumptions C14_pure_sigs_true.

(* ------------------------------------------------------------------ *)
(* Example world: two objects sharing ONE stream, plus a private stream *)
(* ------------------------------------------------------------------ *)
Definition toy_samp (d : Z) (ws : list Z) : option (Z * list Z) :=
  match ws with w :: r => Some (w + d, r) | [] => None end.
Definition toy_build (p : Z) : option Z := if p <? 0 then None else Some (10 * p).

Definition toy_world : world Z :=
  mkWorld (fun i => match i with 0%nat => 100 | _ => 200 end)
          (fun i => match i with 0%nat => [1; 2; 3; 4; 5; 6; 7; 8] | _ => [1; 2; 3] end).

Definition toy_ops : list (op Z) :=
  [OpSample 0 0; OpSample 1 0; OpClone 0 1; OpSample 1 0; OpIter 0 0 2;
   OpRebuild 1 5; OpSample 1 0; OpRebuild 1 (-1); OpIter 1 0 5].

Example toy_outputs :
  map (fun e => (ev_obj e, ev_out e, ev_used e)) (snd (run toy_samp toy_build toy_world toy_ops)) =
  [(0%nat, 101, 1); (1%nat, 202, 1); (1%nat, 103, 1); (0%nat, 104, 1); (0%nat, 105, 1);
   (1%nat, 56, 1); (1%nat, 57, 1); (1%nat, 58, 1)].
Proof. vm_compute. reflexivity. Qed.

Example toy_final :
  let w := fst (run toy_samp toy_build toy_world toy_ops) in
  (objs w 0%nat, objs w 1%nat, streams w 0%nat, streams w 1%nat) = (100, 50, [], [1; 2; 3]).
Proof. vm_compute. reflexivity. Qed.

Example toy_position :
  consumed_on 0 (snd (run toy_samp toy_build toy_world toy_ops)) = 8.
Proof. vm_compute. reflexivity. Qed.

(* object 1 drawing from its private stream 1, interleaved with traffic of object 0
   on the shared stream 0: same outputs as the projected history *)
Definition toy_ops2 : list (op Z) :=
  [OpSample 0 0; OpSample 1 1; OpIter 0 0 3; OpRebuild 0 7; OpSample 1 1; OpSample 0 0; OpSample 1 1].

Example toy_isolated : forallb (isolatedb 1 1) toy_ops2 = true.
Proof. vm_compute. reflexivity. Qed.

Example toy_projection :
  filter (relevant 1 1) toy_ops2 = [OpSample 1 1; OpSample 1 1; OpSample 1 1] /\
  outputs (filter (on_ks 1 1) (snd (run toy_samp toy_build toy_world toy_ops2))) = [201; 202; 203] /\
  outputs (snd (run toy_samp toy_build toy_world (filter (relevant 1 1) toy_ops2))) = [201; 202; 203].
Proof. vm_compute. auto. Qed.

(* the toy sampler reads from the front of its stream *)
Example toy_suffix_ok : suffix_ok toy_samp.
Proof.
  intros d [|w r] o r' H; simpl in H; [discriminate|].
  inversion H; subst. exists [w]. reflexivity.
Qed.

Example toy_pure_sigs :
  pure_sigs true [true; true] [] [("lib.rs", "TABLE", false)]%string = true /\
  pure_sigs true [true; false] [] [] = false /\
  pure_sigs true [] [("x.rs", "RefCell")]%string [] = false.
Proof. vm_compute. auto. Qed.
