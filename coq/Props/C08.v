(* Props/C08.v — WeightedAliasIndex encodes and samples exactly the given weights
   (integer weight types).  Statements only.                                          *)
From Coq Require Import ZArith List Lia.
From RD Require Import Model.Tree Model.Uniform Model.Alias.
Import ListNotations.
Open Scope Z_scope.

Definition u8a := {| alo := 0; amax := 255 |}.
Example C08_nonvacuous :
  alias_new u8a [3;1;0;7;2] =
    Ok {| t_al := [4294967295; 3; 3; 0; 3]; t_odds := [13; 5; 0; 11; 10]; t_sum := 13 |} /\
  alias_weights u8a {| t_al := [4294967295; 3; 3; 0; 3]; t_odds := [13; 5; 0; 11; 10]; t_sum := 13 |} = Some [3;1;0;7;2].
Proof. split; vm_compute; reflexivity. Qed.

Print Assumptions C08_nonvacuous.
