(* Props/C08.v — WeightedAliasIndex encodes and samples exactly the given weights
   (integer weight types).  Statements only; the proofs live in Proofs/Alias*.v.
   The vocabulary below is defined from the model's primitives only, so the statements can be
   read without looking at the proof files.                                                 *)
From Coq Require Import ZArith List Bool Lia.
From RD Require Import Model.Tree Model.Uniform Model.Alias.
From RD Require Proofs.AliasBasics Proofs.AliasLoop Proofs.AliasSample.
Import ListNotations.
Open Scope Z_scope.

Definition u8a := {| alo := 0; amax := 255 |}.
Example C08_nonvacuous :
  alias_new u8a [3;1;0;7;2] =
    Ok {| t_al := [4294967295; 3; 3; 0; 3]; t_odds := [13; 5; 0; 11; 10]; t_sum := 13 |} /\
  alias_weights u8a {| t_al := [4294967295; 3; 3; 0; 3]; t_odds := [13; 5; 0; 11; 10]; t_sum := 13 |} = Some [3;1;0;7;2].
Proof. split; vm_compute; reflexivity. Qed.

Print Assumptions C08_nonvacuous.

(* ---------- vocabulary ---------- *)

(* the weight type contains 0 *)
Definition wfA (ty : aty) : Prop := alo ty <= 0 <= amax ty.
(* n = weights.len(), Sm = exact sum of the weights, maxw = W::MAX / n (0 if n does not fit W) *)
Definition nZ (ws : list Z) : Z := Z.of_nat (length ws).
Definition Sm (ws : list Z) : Z := fold_right Z.add 0 ws.
Definition maxw (ty : aty) (ws : list Z) : Z :=
  if nZ ws <=? amax ty then amax ty / nZ ws else 0.

(* mass handed to outcome i by the aliased parts of columns j < N:
   sum over j < N with odds[j] < sum and aliases[j] = i of (sum - odds[j]) *)
Definition alias_in (t : atab) (N i : nat) : Z :=
  fold_right (fun j acc =>
      (if (geti (t_odds t) j <? t_sum t) && (geti (t_al t) j =? Z.of_nat i)
       then t_sum t - geti (t_odds t) j else 0) + acc) 0 (seq 0 N).

(* number of thresholds r in [0, sum) for which column c yields outcome i *)
Definition npick (t : atab) (c i : nat) : Z :=
  Z.of_nat (length (filter (fun r => alias_pick t c (Z.of_nat r) =? Z.of_nat i)
                           (seq 0 (Z.to_nat (t_sum t))))).

(* number of (column, threshold) pairs in [0,N) x [0,sum) yielding outcome i *)
Definition npairs (t : atab) (N i : nat) : Z :=
  fold_right (fun c acc => npick t c i + acc) 0 (seq 0 N).

(* ---------- 1. complete characterisation of the result of new() ---------- *)

Theorem C08_new_errors : forall ty ws, wfA ty ->
  let bad_len := nZ ws = 0 \/ nZ ws > 4294967295 in
  let bad_w := exists w, In w ws /\ (w < 0 \/ w > maxw ty ws) in
  (bad_len -> alias_new ty ws = Err InvalidInput) /\
  (~ bad_len -> bad_w -> alias_new ty ws = Err InvalidWeight) /\
  (~ bad_len -> ~ bad_w -> Sm ws = 0 -> alias_new ty ws = Err InsufficientNonZero) /\
  (~ bad_len -> ~ bad_w -> Sm ws <> 0 -> exists t, alias_new ty ws = Ok t).
Proof. exact AliasLoop.alias_new_errors. Qed.
Print Assumptions C08_new_errors.

(* ---------- 2. every constructed table is correct ---------- *)

Theorem C08_shape : forall ty ws t, wfA ty -> alias_new ty ws = Ok t ->
  length (t_al t) = length ws /\ length (t_odds t) = length ws /\
  t_sum t = Sm ws /\ 0 < t_sum t.
Proof. exact AliasSample.new_shape. Qed.
Print Assumptions C08_shape.

(* odds lie in [0, sum]; a column whose alias can be selected has a valid alias index, i.e. the
   u32::MAX sentinel / stale stack links are never dereferenced *)
Theorem C08_odds_range : forall ty ws t, wfA ty -> alias_new ty ws = Ok t ->
  forall c, (c < length ws)%nat ->
  0 <= geti (t_odds t) c <= t_sum t /\
  (geti (t_odds t) c < t_sum t -> 0 <= geti (t_al t) c < nZ ws).
Proof. exact AliasSample.new_odds_range. Qed.
Print Assumptions C08_odds_range.

(* mass conservation: own odds + aliased mass received = n * w_i *)
Theorem C08_mass : forall ty ws t, wfA ty -> alias_new ty ws = Ok t ->
  forall i, (i < length ws)%nat ->
  geti (t_odds t) i + alias_in t (length ws) i = nZ ws * nth i ws 0.
Proof. exact AliasSample.new_mass. Qed.
Print Assumptions C08_mass.

Theorem C08_weights_roundtrip : forall ty ws t, wfA ty -> alias_new ty ws = Ok t ->
  alias_weights ty t = Some ws.
Proof. exact AliasSample.new_weights_roundtrip. Qed.
Print Assumptions C08_weights_roundtrip.

Theorem C08_pick_count : forall ty ws t, wfA ty -> alias_new ty ws = Ok t ->
  forall c i, (c < length ws)%nat ->
  npick t c i =
  (if Nat.eqb c i then geti (t_odds t) c else 0) +
  (if geti (t_odds t) c <? t_sum t
   then (if geti (t_al t) c =? Z.of_nat i then t_sum t - geti (t_odds t) c else 0) else 0).
Proof. exact AliasSample.new_pick_count. Qed.
Print Assumptions C08_pick_count.

(* of the n * sum equally likely (column, threshold) pairs exactly n * w_i select outcome i,
   i.e. P(i) = n * w_i / (n * Sm) = w_i / Sm *)
Theorem C08_pair_count : forall ty ws t, wfA ty -> alias_new ty ws = Ok t ->
  forall i, (i < length ws)%nat ->
  npairs t (length ws) i = nZ ws * nth i ws 0.
Proof. exact AliasSample.new_pair_count. Qed.
Print Assumptions C08_pair_count.

Theorem C08_zero_never : forall ty ws t, wfA ty -> alias_new ty ws = Ok t ->
  forall i, nth i ws 0 = 0 ->
  forall c r, (c < length ws)%nat -> 0 <= r < t_sum t -> alias_pick t c r <> Z.of_nat i.
Proof. exact AliasSample.new_zero_never. Qed.
Print Assumptions C08_zero_never.

Theorem C08_pick_in_range : forall ty ws t, wfA ty -> alias_new ty ws = Ok t ->
  forall c r, (c < length ws)%nat -> 0 <= r < t_sum t -> 0 <= alias_pick t c r < nZ ws.
Proof. exact AliasSample.new_pick_in_range. Qed.
Print Assumptions C08_pick_in_range.

(* ---------- 3. Lemire sampling returns a value in [0, range) ---------- *)

Theorem C08_lemire_in_range : forall fuel b range words v rest,
  Forall (fun x => 0 <= x < 2^64) words -> 0 < range ->
  lemire fuel b range words = Some (v, rest) ->
  0 <= v < range /\ Forall (fun x => 0 <= x < 2^64) rest.
Proof. exact AliasSample.lemire_in_range. Qed.
Print Assumptions C08_lemire_in_range.
