(* Props/C05.v — sampling terminates with a small, bounded consumption of random words. Statements only. *)
From Coq Require Import Reals ZArith List.
From RD Require Import Base.Expr Gen.ZigTables Proofs.ZigTables Model.Uniform Model.Tree Proofs.Consumption
  Proofs.TreeBasics Proofs.TreeOps Proofs.TreeSample.
Import ListNotations.
Open Scope Z_scope.

(* one ziggurat pass returns with its first word with probability (1/256) sum_i X_{i+1}/X_i *)
Theorem C05_zig_first_pass_norm : RLe (Bin Div (num 985) (num 1000)) (first_pass ZIG_NORM_X).
Proof. exact zig_first_pass_norm. Qed.
Theorem C05_zig_first_pass_exp : RLe (Bin Div (num 977) (num 1000)) (first_pass ZIG_EXP_X).
Proof. exact zig_first_pass_exp. Qed.

(* integer range reduction: Canon draws at most twice, Lemire at most `fuel` times *)
Theorem C05_canon_words : forall b range ws v rest, canon b range ws = Some (v, rest) ->
  (length ws - length rest <= 2 * words_per_draw b)%nat /\ (length rest <= length ws)%nat.
Proof. exact canon_words. Qed.
Theorem C05_lemire_words : forall fuel b range ws v rest, lemire fuel b range ws = Some (v, rest) ->
  (length ws - length rest <= fuel * words_per_draw b)%nat /\ (length rest <= length ws)%nat.
Proof. exact lemire_words. Qed.

(* the tree descent needs no more steps than the tree has nodes: with fuel = length it always returns *)
Theorem C05_tree_descent_terminates : forall ty t target, TreeOps.wf_ty ty -> TreeOps.Inv ty t -> 0 <= target < Tree.sub t 0 ->
  exists i, tree_try_sample ty t target = Ok i /\ (i < length t)%nat /\ 0 < Tree.nthz (Tree.abs t) i /\
            i = nth (Z.to_nat target) (TreeSample.flat (length t) (Tree.abs t) 0) 0%nat.
Proof. exact try_sample_ok. Qed.

Print Assumptions C05_zig_first_pass_norm.
Print Assumptions C05_zig_first_pass_exp.
Print Assumptions C05_canon_words.
Print Assumptions C05_lemire_words.
Print Assumptions C05_tree_descent_terminates.
