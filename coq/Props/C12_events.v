(* Props/C12_events.v — part of property C12 on the executable models of the four unit-geometry samplers (Model/Multi.v):
   the rejection stage is characterised completely.  The iteration that draws the candidate (x1, x2[, x3]) from the words
   w1, w2[, w3] returns it (disc, ball) or its transform (circle, sphere) exactly when the candidate passes the test of the code,
   and otherwise the loop behaves as the loop on the remaining words: the output is the first candidate of the stream inside the
   region.  Statements only; proofs in Proofs/MultiEvents.v.
     u_pm1_R t w     value of the uniform draw on [-1, 1) taken from the word w      (Proofs/MultiProofs.v)
     sq2, sq3        x1^2 + x2^2 (+ x3^2) of the candidate drawn from the given words                                        *)
From Coq Require Import Reals ZArith List.
From Interval Require Import Xreal.
From RD Require Import Base.Expr Base.Run Model.Sampler Model.Multi Proofs.MultiProofs Proofs.MultiEvents.
Import ListNotations.
Local Open Scope R_scope.

Theorem C12_sq_def : forall t w1 w2 w3,
  sq2 t w1 w2 = u_pm1_R t w1 * u_pm1_R t w1 + u_pm1_R t w2 * u_pm1_R t w2 /\
  sq3 t w1 w2 w3 = sq2 t w1 w2 + u_pm1_R t w3 * u_pm1_R t w3.
Proof. intros. split; reflexivity. Qed.

Theorem C12_unit_disc_accepts : forall f t w1 w2 ws, sq2 t w1 w2 <= 1 ->
  evals (unit_disc_loop (S f) t (w1 :: w2 :: ws)) ([u_pm1 t w1; u_pm1 t w2], ws).
Proof. exact unit_disc_accepts. Qed.
Theorem C12_unit_disc_rejects : forall f t w1 w2 ws v, 1 < sq2 t w1 w2 ->
  (evals (unit_disc_loop (S f) t (w1 :: w2 :: ws)) v <-> evals (unit_disc_loop f t ws) v).
Proof. exact unit_disc_rejects. Qed.

Theorem C12_unit_ball_accepts : forall f t w1 w2 w3 ws, sq3 t w1 w2 w3 <= 1 ->
  evals (unit_ball_loop (S f) t (w1 :: w2 :: w3 :: ws)) ([u_pm1 t w1; u_pm1 t w2; u_pm1 t w3], ws).
Proof. exact unit_ball_accepts. Qed.
Theorem C12_unit_ball_rejects : forall f t w1 w2 w3 ws v, 1 < sq3 t w1 w2 w3 ->
  (evals (unit_ball_loop (S f) t (w1 :: w2 :: w3 :: ws)) v <-> evals (unit_ball_loop f t ws) v).
Proof. exact unit_ball_rejects. Qed.

Theorem C12_unit_sphere_accepts : forall f t w1 w2 ws, sq2 t w1 w2 < 1 ->
  evals (unit_sphere_loop (S f) t (w1 :: w2 :: ws)) (sphere_out (u_pm1 t w1) (u_pm1 t w2), ws).
Proof. exact unit_sphere_accepts. Qed.
Theorem C12_unit_sphere_rejects : forall f t w1 w2 ws v, 1 <= sq2 t w1 w2 ->
  (evals (unit_sphere_loop (S f) t (w1 :: w2 :: ws)) v <-> evals (unit_sphere_loop f t ws) v).
Proof. exact unit_sphere_rejects. Qed.

Theorem C12_unit_circle_accepts : forall f t w1 w2 ws, 0 < sq2 t w1 w2 < 1 ->
  evals (unit_circle_loop (S f) t (w1 :: w2 :: ws)) (circle_out (u_pm1 t w1) (u_pm1 t w2), ws).
Proof. exact unit_circle_accepts. Qed.
Theorem C12_unit_circle_rejects : forall f t w1 w2 ws v, (1 <= sq2 t w1 w2 \/ sq2 t w1 w2 <= 0) ->
  (evals (unit_circle_loop (S f) t (w1 :: w2 :: ws)) v <-> evals (unit_circle_loop f t ws) v).
Proof. exact unit_circle_rejects. Qed.

Print Assumptions C12_sq_def.
Print Assumptions C12_unit_disc_accepts.
Print Assumptions C12_unit_disc_rejects.
Print Assumptions C12_unit_ball_accepts.
Print Assumptions C12_unit_ball_rejects.
Print Assumptions C12_unit_sphere_accepts.
Print Assumptions C12_unit_sphere_rejects.
Print Assumptions C12_unit_circle_accepts.
Print Assumptions C12_unit_circle_rejects.
