(* Props/Base_run.v — soundness of the interval exploration of sampler decision trees
   (Base/Run.v) with respect to the exact real-number semantics.                     *)
From Coq Require Import Reals ZArith List.
From Interval Require Import Xreal Interval.
From Flocq Require Import Core.
From RD Require Import Base.Expr Base.Run Proofs.RunSound.
Import ListNotations.

(* the path taken by the exact semantics is explored, unless the exploration was cut *)
Theorem Base_interpI_sound : forall A prec p eta (r : run A) v forks, evals r v ->
  In (OVal v) (interpI prec p eta r forks) \/ In OAmb (interpI prec p eta r forks).
Proof. exact interpI_sound. Qed.
Print Assumptions Base_interpI_sound.

Theorem Base_interpI_no_amb_complete : forall A prec p eta (r : run A) v forks, evals r v ->
  ~ In OAmb (interpI prec p eta r forks) -> In (OVal v) (interpI prec p eta r forks).
Proof. exact interpI_no_amb_complete. Qed.
Print Assumptions Base_interpI_no_amb_complete.

(* a property checked on every explored outcome (with no ambiguity) holds of the exact value *)
Theorem Base_interpI_forall : forall A prec p eta (P : A -> Prop) (r : run A) v forks, evals r v ->
  Forall (fun o => match o with OVal a => P a | OFail _ => True | OAmb => False end)
         (interpI prec p eta r forks) -> P v.
Proof. exact interpI_forall. Qed.
Print Assumptions Base_interpI_forall.

Theorem Base_interpI_singleton : forall A prec p eta (r : run A) v w forks, evals r v ->
  interpI prec p eta r forks = [OVal w] -> v = w.
Proof. exact interpI_singleton. Qed.
Print Assumptions Base_interpI_singleton.

(* the signature-threading exploration used for coverage measurement has exactly the outcomes of interpI, and the
   correspondence entry points built on it return the same verdict (plus 4 x the signature of the reproducing path) *)
Theorem Base_interpS_fst : forall prec p eta A (r : run A) forks h,
  map fst (interpS prec p eta r forks h) = interpI prec p eta r forks.
Proof. exact interpS_fst. Qed.
Print Assumptions Base_interpS_fst.

Theorem Base_evals_deterministic : forall A (r : run A) v1 v2, evals r v1 -> evals r v2 -> v1 = v2.
Proof. exact evals_deterministic. Qed.
Print Assumptions Base_evals_deterministic.

Theorem Base_bind_evals : forall A B (r : run A) (f : A -> run B) a b,
  evals r a -> evals (f a) b -> evals (bind r f) b.
Proof. exact bind_evals. Qed.
Print Assumptions Base_bind_evals.

Theorem Base_bind_evals_inv : forall A B (r : run A) (f : A -> run B) b,
  evals (bind r f) b -> exists a, evals r a /\ evals (f a) b.
Proof. exact bind_evals_inv. Qed.
Print Assumptions Base_bind_evals_inv.

Theorem Base_decide_correct : forall prec c ia ib x y,
  contains (I.convert ia) (Xreal x) -> contains (I.convert ib) (Xreal y) ->
  (decide prec c ia ib = TT -> rcmp c x y = true) /\
  (decide prec c ia ib = TF -> rcmp c x y = false).
Proof. exact decide_correct. Qed.
Print Assumptions Base_decide_correct.

Theorem Base_floor_range_correct : forall i lo hi x,
  floor_range i = Some (lo, hi) -> contains (I.convert i) (Xreal x) -> (lo <= Zfloor x <= hi)%Z.
Proof. exact floor_range_correct. Qed.
Print Assumptions Base_floor_range_correct.
