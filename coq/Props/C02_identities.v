(* Props/C02_identities.v — the real-number / integer identities that make the discrete samplers of
   rand_distr produce their documented probability mass functions (ideal arithmetic, all parameters).
   Statements only; proofs in Proofs/PmfBinomial.v, PmfGeometric.v, PmfHyper.v, PmfZeta.v, PmfZipf.v,
   PmfPoisson.v.  Every Fixpoint/Definition used in a statement has its defining equations restated
   here as a C02_*_def theorem.

   Vocabulary
     C n k                 binomial coefficient of Coq's Reals.Binomial (n!/(k!(n-k)!), used for k <= n)
     psum r x              r 0 + ... + r (x-1)
     seq_loop r fuel u x   `while u > r x { u -= r x; x += 1 }; x` with an iteration bound
     binv_loop a s ..      the same loop with r carried as a variable, r *= a/x - s   (binomial.rs:196-203)
     hyper_pmf N K n x     C K x * C (N-K) (n-x) / C N n
     hyper_setup N K n     (n1, n2, k, sign_x, offset_x) as computed by Hypergeometric::new
     lz64 w                u64::leading_zeros;   Zcount P n = #{ w in [0,n) : P w }
     zeta_b, zeta_t, zeta_accept     b, t and t(b-1)/(x(t-1)b) of zeta.rs
     zipf_hat/_Hcum/_t/_inv/_ratio   hat density, its cumulative, its total mass, inv_cdf, ratio (zipf.rs)
     lprod, knuth                    list product, KnuthMethod::sample over a list of uniforms        *)
From Coquelicot Require Import Coquelicot.   (* only for is_RInt (Zipf); imported first because it *)
From Coq Require Import Reals ZArith List Bool Lra Lia. (* defines a type C that would hide Binomial.C        *)
From RD Require Import Proofs.PmfBinomial Proofs.PmfGeometric Proofs.PmfHyper Proofs.PmfZeta
  Proofs.PmfZipf Proofs.PmfPoisson.
Import ListNotations.
Open Scope R_scope.

(* ===================== 1. Binomial: BINV (binomial.rs:150-163, 184-208) ===================== *)

Theorem C02_binv_r_def : forall n p,
  binv_r n p 0 = (1 - p) ^ n /\
  forall x, binv_r n p (S x)
            = binv_r n p x * ((INR n + 1) * (p / (1 - p)) / INR (S x) - p / (1 - p)).
Proof. exact binv_r_def. Qed.
Print Assumptions C02_binv_r_def.

Theorem C02_psum_def : forall r, psum r 0 = 0 /\ forall x, psum r (S x) = psum r x + r x.
Proof. exact psum_def. Qed.
Print Assumptions C02_psum_def.

Theorem C02_seq_loop_def : forall r u x,
  seq_loop r 0 u x = None /\
  forall f, seq_loop r (S f) u x
            = if Rlt_dec (r x) u then seq_loop r f (u - r x) (S x) else Some x.
Proof. exact seq_loop_def. Qed.
Print Assumptions C02_seq_loop_def.

Theorem C02_binv_loop_def : forall a s u r x,
  binv_loop a s 0 u r x = None /\
  forall f, binv_loop a s (S f) u r x
            = if Rlt_dec r u then binv_loop a s f (u - r) (r * (a / INR (S x) - s)) (S x)
              else Some x.
Proof. exact binv_loop_def. Qed.
Print Assumptions C02_binv_loop_def.

(* r_0 = q^n, r_{x+1} = r_x (a/(x+1) - s)  ==>  r_x = C(n,x) p^x q^(n-x) *)
Theorem C02_binv_recurrence : forall (n : nat) (p : R), 0 < p < 1 ->
  forall x, (x <= n)%nat -> binv_r n p x = C n x * p ^ x * (1 - p) ^ (n - x).
Proof. exact binv_recurrence. Qed.
Print Assumptions C02_binv_recurrence.

Theorem C02_binv_recurrence_tail : forall (n : nat) (p : R), 0 < p < 1 ->
  forall x, (n < x)%nat -> binv_r n p x = 0.
Proof. exact binv_recurrence_tail. Qed.
Print Assumptions C02_binv_recurrence_tail.

(* the same for any sequence obeying the update of the code (no project definition involved) *)
Theorem C02_binv_recurrence_seq : forall (n : nat) (p : R) (r : nat -> R), 0 < p < 1 ->
  let q := 1 - p in let s := p / q in let a := (INR n + 1) * s in
  r 0%nat = q ^ n ->
  (forall x, r (S x) = r x * (a / INR (S x) - s)) ->
  (forall x, (x <= n)%nat -> r x = C n x * p ^ x * q ^ (n - x)) /\
  (forall x, (n < x)%nat -> r x = 0).
Proof. exact binv_recurrence_seq. Qed.
Print Assumptions C02_binv_recurrence_seq.

Theorem C02_binom_pmf_total : forall (n : nat) (p : R),
  sum_f_R0 (fun x => C n x * p ^ x * (1 - p) ^ (n - x)) n = 1.
Proof. exact binom_pmf_total. Qed.
Print Assumptions C02_binom_pmf_total.

(* the loop returns x iff all earlier partial sums are < u and the x-th one is >= u *)
Theorem C02_seq_loop_event : forall r fuel u x,
  seq_loop r fuel u 0 = Some x <->
  (x < fuel)%nat /\ (forall j, (j < x)%nat -> psum r (S j) < u) /\ u <= psum r (S x).
Proof. exact seq_loop_event. Qed.
Print Assumptions C02_seq_loop_event.

(* S(x-1) < u <= S(x) *)
Theorem C02_binv_event : forall r fuel u x, (forall j, 0 <= r j) -> 0 < u ->
  (seq_loop r fuel u 0 = Some x <-> (x < fuel)%nat /\ psum r x < u <= psum r (S x)).
Proof. exact binv_event. Qed.
Print Assumptions C02_binv_event.

Theorem C02_binv_loop_seq : forall n p fuel u x,
  binv_loop ((INR n + 1) * (p / (1 - p))) (p / (1 - p)) fuel u (binv_r n p x) x
  = seq_loop (binv_r n p) fuel u x.
Proof. exact binv_loop_seq. Qed.
Print Assumptions C02_binv_loop_seq.

(* BINV as coded returns x iff u lies in the x-th cell of the binomial cdf *)
Theorem C02_binv_sampler_event : forall (n : nat) (p : R) fuel u x,
  0 < p < 1 -> 0 < u -> (x <= n)%nat ->
  let q := 1 - p in let s := p / q in let a := (INR n + 1) * s in
  (binv_loop a s fuel u (q ^ n) 0 = Some x <->
   (x < fuel)%nat /\
   psum (fun j => C n j * p ^ j * (1 - p) ^ (n - j)) x < u
     <= psum (fun j => C n j * p ^ j * (1 - p) ^ (n - j)) (S x)).
Proof. exact binv_sampler_event. Qed.
Print Assumptions C02_binv_sampler_event.

(* ===================== 2. Binomial: the p > 0.5 flip (binomial.rs:131-133, 207) ===================== *)

Theorem C02_binomial_flip : forall (n x : nat) (p : R), (x <= n)%nat ->
  C n x * p ^ x * (1 - p) ^ (n - x) = C n (n - x) * (1 - p) ^ (n - x) * p ^ x.
Proof. exact binomial_flip. Qed.
Print Assumptions C02_binomial_flip.

(* pmf of Bin(n,1-p) at y  =  pmf of Bin(n,p) at n - y *)
Theorem C02_binomial_flip_sample : forall (n y : nat) (p : R), (y <= n)%nat ->
  C n y * (1 - p) ^ y * (1 - (1 - p)) ^ (n - y)
  = C n (n - y) * p ^ (n - y) * (1 - p) ^ (n - (n - y)).
Proof. exact binomial_flip_sample. Qed.
Print Assumptions C02_binomial_flip_sample.

Example C02_ex_binomial :
  binv_r 5 (1/4) 2 = C 5 2 * (1/4) ^ 2 * (1 - 1/4) ^ (5 - 2) /\
  binv_loop ((INR 5 + 1) * ((1/4) / (1 - 1/4))) ((1/4) / (1 - 1/4)) 111 (1/2) ((1 - 1/4) ^ 5) 0
    = Some 1%nat.
Proof.
  split.
  - apply C02_binv_recurrence; [lra|lia].
  - apply (C02_binv_sampler_event 5 (1/4) 111 (1/2) 1); [lra|lra|lia|].
    split; [lia|]. unfold psum, C. simpl. lra.
Qed.

(* ===================== 3. Geometric (geometric.rs:79-97, 129-159, 190-200) ===================== *)

Theorem C02_geometric_pi_lt_1 : forall p k, 0 < p < 1 -> 0 < (1 - p) ^ (2 ^ k) < 1.
Proof. exact geometric_pi_lt_1. Qed.
Print Assumptions C02_geometric_pi_lt_1.

(* Geo(p) at d*2^k + m  =  Geo(1-pi) at d  *  (Geo(p) mod 2^k) at m *)
Theorem C02_geometric_split : forall (p : R) (k d m : nat), 0 < p < 1 -> (m < 2 ^ k)%nat ->
  let pi := (1 - p) ^ (2 ^ k) in
  (1 - p) ^ (d * 2 ^ k + m) * p = (pi ^ d * (1 - pi)) * ((1 - p) ^ m * p / (1 - pi)).
Proof. exact geometric_split. Qed.
Print Assumptions C02_geometric_split.

Theorem C02_geometric_block_sum : forall (p : R) (k : nat),
  psum (fun m => (1 - p) ^ m * p) (2 ^ k) = 1 - (1 - p) ^ (2 ^ k).
Proof. exact geometric_block_sum. Qed.
Print Assumptions C02_geometric_block_sum.

Theorem C02_geometric_remainder_pmf : forall (p : R) (k : nat), 0 < p < 1 ->
  let pi := (1 - p) ^ (2 ^ k) in
  (forall m, 0 < (1 - p) ^ m * p / (1 - pi)) /\
  psum (fun m => (1 - p) ^ m * p / (1 - pi)) (2 ^ k) = 1.
Proof. exact geometric_remainder_pmf. Qed.
Print Assumptions C02_geometric_remainder_pmf.

Theorem C02_geometric_quotient_sum : forall (p : R) (k D : nat),
  let pi := (1 - p) ^ (2 ^ k) in
  psum (fun d => pi ^ d * (1 - pi)) D = 1 - pi ^ D.
Proof. exact geometric_quotient_sum. Qed.
Print Assumptions C02_geometric_quotient_sum.

(* (d, m) |-> (d << k) + m is a bijection onto nat *)
Theorem C02_geometric_decomp : forall (k x : nat),
  exists d m, (m < 2 ^ k)%nat /\ x = (d * 2 ^ k + m)%nat /\
    forall d' m', (m' < 2 ^ k)%nat -> x = (d' * 2 ^ k + m')%nat -> d' = d /\ m' = m.
Proof. exact geometric_decomp. Qed.
Print Assumptions C02_geometric_decomp.

Open Scope Z_scope.

Theorem C02_Zcount_def : forall P,
  Zcount P 0 = 0 /\
  forall n, Zcount P (S n) = Zcount P n + (if P (Z.of_nat n) then 1 else 0).
Proof. exact Zcount_def. Qed.
Print Assumptions C02_Zcount_def.

Theorem C02_lz64_def : forall w, lz64 w = if w =? 0 then 64 else 63 - Z.log2 w.
Proof. exact lz64_def. Qed.
Print Assumptions C02_lz64_def.

(* w has x leading zeros iff 2^(63-x) <= w < 2^(64-x) *)
Theorem C02_lz64_range : forall w x, 0 <= w < 2 ^ 64 -> 0 <= x < 64 ->
  (lz64 w = x <-> 2 ^ (63 - x) <= w < 2 ^ (64 - x)).
Proof. exact lz64_range. Qed.
Print Assumptions C02_lz64_range.

Theorem C02_lz64_zero : forall w, 0 <= w < 2 ^ 64 -> (lz64 w = 64 <-> w = 0).
Proof. exact lz64_zero. Qed.
Print Assumptions C02_lz64_zero.

Theorem C02_lz64_bits : forall w x, 0 <= w < 2 ^ 64 -> 0 <= x < 64 -> lz64 w = x ->
  Z.testbit w (63 - x) = true /\ forall j, 63 - x < j -> Z.testbit w j = false.
Proof. exact lz64_bits. Qed.
Print Assumptions C02_lz64_bits.

(* #{ w in [0,2^64) : 2^(63-x) <= w < 2^(64-x) } = 2^(63-x), i.e. P(X = x) = 2^-(x+1) *)
Theorem C02_std_geometric_form : forall x, 0 <= x < 64 ->
  Zcount (fun w => (2 ^ (63 - x) <=? w) && (w <? 2 ^ (64 - x))) (Z.to_nat (2 ^ 64)) = 2 ^ (63 - x).
Proof. exact std_geometric_form. Qed.
Print Assumptions C02_std_geometric_form.

Theorem C02_std_geometric_lz_count : forall x, 0 <= x < 64 ->
  Zcount (fun w => lz64 w =? x) (Z.to_nat (2 ^ 64)) = 2 ^ (63 - x).
Proof. exact std_geometric_lz_count. Qed.
Print Assumptions C02_std_geometric_lz_count.

(* exactly one word (0) has 64 leading zeros and makes the loop draw again *)
Theorem C02_std_geometric_continue_count :
  Zcount (fun w => lz64 w =? 64) (Z.to_nat (2 ^ 64)) = 1.
Proof. exact std_geometric_continue_count. Qed.
Print Assumptions C02_std_geometric_continue_count.

Example C02_ex_geometric :
  ((1 - 1/3) ^ (3 * 2 ^ 2 + 1) * (1/3)
   = (((1 - 1/3) ^ (2 ^ 2)) ^ 3 * (1 - (1 - 1/3) ^ (2 ^ 2)))
     * ((1 - 1/3) ^ 1 * (1/3) / (1 - (1 - 1/3) ^ (2 ^ 2))))%R /\
  Zcount (fun w => lz64 w =? 2) (Z.to_nat (2 ^ 64)) = 2 ^ 61.
Proof.
  split.
  - apply (C02_geometric_split (1/3) 2 3 1); [lra|simpl; lia].
  - apply (C02_std_geometric_lz_count 2). lia.
Qed.

(* ===================== 4. Hypergeometric (hypergeometric.rs:162-193, 207-218, 313-318, 445) ============ *)

Theorem C02_hyper_pmf_def : forall N K n x,
  hyper_pmf N K n x = (C K x * C (N - K) (n - x) / C N n)%R.
Proof. exact hyper_pmf_def. Qed.
Print Assumptions C02_hyper_pmf_def.

Theorem C02_hyper_setup_def : forall N K n : Z,
  hyper_setup N K n =
  (let '(sign_x, offset_x, n1, n2) :=
     if K >? N - K then (-1, n, N - K, K) else (1, 0, K, N - K) in
   if n <=? N / 2 then (n1, n2, n, sign_x, offset_x)
   else (n1, n2, N - n, sign_x * -1, offset_x + n1 * sign_x)).
Proof. exact hyper_setup_def. Qed.
Print Assumptions C02_hyper_setup_def.

Theorem C02_hyper_sym_K : forall N K n x, (K <= N)%nat -> (x <= n)%nat ->
  hyper_pmf N K n x = hyper_pmf N (N - K) n (n - x).
Proof. exact hyper_sym_K. Qed.
Print Assumptions C02_hyper_sym_K.

Theorem C02_hyper_sym_n : forall N K n x, (K <= N)%nat -> (n <= N)%nat ->
  (x <= K)%nat -> (x <= n)%nat -> (n - x <= N - K)%nat ->
  hyper_pmf N K n x = hyper_pmf N K (N - n) (K - x).
Proof. exact hyper_sym_n. Qed.
Print Assumptions C02_hyper_sym_n.

Theorem C02_hyper_reduced_params : forall N K n n1 n2 k sg off,
  0 <= K <= N -> 0 <= n <= N -> hyper_setup N K n = (n1, n2, k, sg, off) ->
  n1 + n2 = N /\ 0 <= n1 <= n2 /\ 0 <= k /\ 2 * k <= N /\ k <= N / 2 /\ (sg = 1 \/ sg = -1).
Proof. exact hyper_reduced_params. Qed.
Print Assumptions C02_hyper_reduced_params.

(* x |-> offset_x + sign_x * x : reduced support -> original support is a bijection *)
Theorem C02_hyper_reflect_bijection : forall N K n n1 n2 k sg off,
  0 <= K <= N -> 0 <= n <= N -> hyper_setup N K n = (n1, n2, k, sg, off) ->
  (forall x, Z.max 0 (k - n2) <= x <= Z.min n1 k ->
     Z.max 0 (n + K - N) <= off + sg * x <= Z.min n K) /\
  (forall y, Z.max 0 (n + K - N) <= y <= Z.min n K ->
     exists x, Z.max 0 (k - n2) <= x <= Z.min n1 k /\ off + sg * x = y) /\
  (forall x x', off + sg * x = off + sg * x' -> x = x').
Proof. exact hyper_reflect_bijection. Qed.
Print Assumptions C02_hyper_reflect_bijection.

(* and it carries the reduced pmf to the original one *)
Theorem C02_hyper_reflect_pmf : forall (N K n : nat) n1 n2 k sg off,
  (K <= N)%nat -> (n <= N)%nat ->
  hyper_setup (Z.of_nat N) (Z.of_nat K) (Z.of_nat n) = (n1, n2, k, sg, off) ->
  forall x : nat, Z.max 0 (k - n2) <= Z.of_nat x <= Z.min n1 k ->
  hyper_pmf N K n (Z.to_nat (off + sg * Z.of_nat x))
  = hyper_pmf (Z.to_nat (n1 + n2)) (Z.to_nat n1) (Z.to_nat k) x.
Proof. exact hyper_reflect_pmf. Qed.
Print Assumptions C02_hyper_reflect_pmf.

Open Scope R_scope.

(* HIN update: p *= (n1 - x)(k - x); p /= (x + 1)(n2 - k + 1 + x) *)
Theorem C02_hin_recurrence : forall n1 n2 k x : nat,
  (S x <= n1)%nat -> (S x <= k)%nat -> (k - x <= n2)%nat ->
  hyper_pmf (n1 + n2) n1 k (S x)
  = hyper_pmf (n1 + n2) n1 k x * ((INR n1 - INR x) * (INR k - INR x))
      / ((INR x + 1) * (INR n2 - INR k + 1 + INR x)).
Proof. exact hin_recurrence. Qed.
Print Assumptions C02_hin_recurrence.

Theorem C02_hin_ratio : forall n1 n2 k x : nat,
  (S x <= n1)%nat -> (S x <= k)%nat -> (k - x <= n2)%nat -> (k <= n1 + n2)%nat ->
  hyper_pmf (n1 + n2) n1 k (S x) / hyper_pmf (n1 + n2) n1 k x
  = (INR n1 - INR x) * (INR k - INR x) / ((INR x + 1) * (INR n2 - INR k + 1 + INR x)).
Proof. exact hin_ratio. Qed.
Print Assumptions C02_hin_ratio.

(* HIN start values: fraction_of_products_of_factorials((n2, N-k), (N, n2-k)) at x = 0 (k < n2),
   fraction_of_products_of_factorials((n1, k), (N, k-n2)) at x = k - n2 (otherwise) *)
Theorem C02_hin_initial_lo : forall n1 n2 k : nat, (k <= n2)%nat ->
  hyper_pmf (n1 + n2) n1 k 0
  = INR (fact n2) * INR (fact (n1 + n2 - k)) / (INR (fact (n1 + n2)) * INR (fact (n2 - k))).
Proof. exact hin_initial_lo. Qed.
Print Assumptions C02_hin_initial_lo.

Theorem C02_hin_initial_hi : forall n1 n2 k : nat, (n2 <= k)%nat -> (k <= n1 + n2)%nat ->
  hyper_pmf (n1 + n2) n1 k (k - n2)
  = INR (fact n1) * INR (fact k) / (INR (fact (n1 + n2)) * INR (fact (k - n2))).
Proof. exact hin_initial_hi. Qed.
Print Assumptions C02_hin_initial_hi.

(* N = 10, K = 7, n = 8: both swaps fire; reduced problem (n1,n2,k) = (3,7,2), result = 5 + x *)
Example C02_ex_hyper :
  hyper_setup 10 7 8 = (3, 7, 2, 1, 5)%Z /\
  (forall x, (0 <= x <= 2)%Z -> (5 <= 5 + 1 * x <= 7)%Z) /\
  hyper_pmf 10 7 8 (Z.to_nat (5 + 1 * Z.of_nat 1)) = hyper_pmf 10 3 2 1 /\
  hyper_pmf (3 + 7) 3 2 (S 0)
  = hyper_pmf (3 + 7) 3 2 0 * ((INR 3 - INR 0) * (INR 2 - INR 0))
      / ((INR 0 + 1) * (INR 7 - INR 2 + 1 + INR 0)).
Proof.
  assert (E : hyper_setup 10 7 8 = (3, 7, 2, 1, 5)%Z) by reflexivity.
  split; [exact E|]. split; [|split].
  - intros x Hx.
    destruct (C02_hyper_reflect_bijection 10 7 8 3 7 2 1 5 ltac:(lia) ltac:(lia) E) as [H _].
    apply (H x). lia.
  - apply (C02_hyper_reflect_pmf 10 7 8 3 7 2 1 5 ltac:(lia) ltac:(lia) E 1%nat). lia.
  - apply C02_hin_recurrence; lia.
Qed.

(* ===================== 5. Zeta (zeta.rs:105-115, 124-142) ===================== *)

Theorem C02_zeta_accept_def : forall sm1 x,
  zeta_b sm1 = Rpower 2 sm1 /\ zeta_t sm1 x = Rpower (1 + 1 / x) sm1 /\
  zeta_accept sm1 x = zeta_t sm1 x * (zeta_b sm1 - 1) / (x * (zeta_t sm1 x - 1) * zeta_b sm1).
Proof. exact zeta_accept_def. Qed.
Print Assumptions C02_zeta_accept_def.

(* the coded test  v x (t-1) b <= t (b-1)  is  v <= a(x) *)
Theorem C02_zeta_accept_test : forall s x v, 1 < s -> 0 < x ->
  let sm1 := s - 1 in let b := zeta_b sm1 in let t := zeta_t sm1 x in
  (v * x * (t - 1) * b <= t * (b - 1) <-> v <= zeta_accept sm1 x).
Proof. exact zeta_accept_test. Qed.
Print Assumptions C02_zeta_accept_test.

(* floor(u^(-1/(s-1))) = x  iff  (x+1)^-(s-1) < u <= x^-(s-1) *)
Theorem C02_zeta_proposal_event : forall s u x, 1 < s -> 0 < u -> 0 < x ->
  let sm1 := s - 1 in
  (x <= Rpower u (- 1 / sm1) < x + 1 <-> Rpower (x + 1) (- sm1) < u <= Rpower x (- sm1)).
Proof. exact zeta_proposal_event. Qed.
Print Assumptions C02_zeta_proposal_event.

Theorem C02_zeta_proposal_ge_1 : forall s u, 1 < s -> 0 < u <= 1 -> 1 <= Rpower u (- 1 / (s - 1)).
Proof. exact zeta_proposal_ge_1. Qed.
Print Assumptions C02_zeta_proposal_ge_1.

(* proposal mass * acceptance = (b-1)/b * x^-s *)
Theorem C02_zeta_identity : forall s x, 1 < s -> 0 < x ->
  let sm1 := s - 1 in
  (Rpower x (- sm1) - Rpower (x + 1) (- sm1)) * zeta_accept sm1 x
  = (zeta_b sm1 - 1) / zeta_b sm1 * Rpower x (- s).
Proof. exact zeta_identity. Qed.
Print Assumptions C02_zeta_identity.

Theorem C02_zeta_accept_le_1 : forall s x, 1 < s -> 1 <= x -> zeta_accept (s - 1) x <= 1.
Proof. exact zeta_accept_le_1. Qed.
Print Assumptions C02_zeta_accept_le_1.

Theorem C02_zeta_accept_at_1 : forall s, 1 < s -> zeta_accept (s - 1) 1 = 1.
Proof. exact zeta_accept_at_1. Qed.
Print Assumptions C02_zeta_accept_at_1.

Theorem C02_zeta_accept_pos : forall s x, 1 < s -> 0 < x -> 0 < zeta_accept (s - 1) x.
Proof. exact zeta_accept_pos. Qed.
Print Assumptions C02_zeta_accept_pos.

Example C02_ex_zeta :
  (Rpower 3 (- (2 - 1)) - Rpower (3 + 1) (- (2 - 1))) * zeta_accept (2 - 1) 3
  = (zeta_b (2 - 1) - 1) / zeta_b (2 - 1) * Rpower 3 (- 2) /\
  0 < zeta_accept (2 - 1) 3 <= 1.
Proof.
  split; [|split].
  - apply (C02_zeta_identity 2 3); lra.
  - apply C02_zeta_accept_pos; lra.
  - apply C02_zeta_accept_le_1; lra.
Qed.

(* ===================== 6. Zipf (zipf.rs:102-166) ===================== *)

Theorem C02_zipf_defs : forall n s y,
  zipf_hat s y = (if Rle_dec y 1 then 1 else Rpower y (- s)) /\
  zipf_Hcum_ne1 s y = (if Rle_dec y 1 then y else 1 + (Rpower y (1 - s) - 1) / (1 - s)) /\
  zipf_Hcum_eq1 y = (if Rle_dec y 1 then y else 1 + ln y) /\
  zipf_t_ne1 n s = (Rpower n (1 - s) - s) * (1 / (1 - s)) /\
  zipf_t_eq1 n = 1 + ln n /\
  zipf_inv_ne1 s y = (if Rle_dec y 1 then y else Rpower (y * (1 - s) + s) (1 / (1 - s))) /\
  zipf_inv_eq1 y = (if Rle_dec y 1 then y else exp (y - 1)) /\
  forall x, zipf_ratio s x y = if Rlt_dec 1 x then Rpower x (- s) * Rpower y s else Rpower x (- s).
Proof. exact zipf_defs. Qed.
Print Assumptions C02_zipf_defs.

(* t - 1 = int_1^n y^-s dy : t is the total mass of the hat (1 on [0,1], y^-s on [1,n]) *)
Theorem C02_zipf_hat_mass_ne1 : forall n s, s <> 1 -> 1 <= n ->
  is_RInt (fun y => Rpower y (- s)) 1 n (zipf_t_ne1 n s - 1).
Proof. exact zipf_hat_mass_ne1. Qed.
Print Assumptions C02_zipf_hat_mass_ne1.

Theorem C02_zipf_hat_mass_eq1 : forall n, 1 <= n ->
  is_RInt (fun y => Rpower y (- (1))) 1 n (zipf_t_eq1 n - 1).
Proof. exact zipf_hat_mass_eq1. Qed.
Print Assumptions C02_zipf_hat_mass_eq1.

Theorem C02_zipf_Hcum_integral_ne1 : forall s y, s <> 1 -> 1 < y ->
  is_RInt (fun z => Rpower z (- s)) 1 y (zipf_Hcum_ne1 s y - 1).
Proof. exact zipf_Hcum_integral_ne1. Qed.
Print Assumptions C02_zipf_Hcum_integral_ne1.

(* inv_cdf inverts the cumulative hat *)
Theorem C02_zipf_inv_cdf_low : forall s pt, pt <= 1 ->
  zipf_inv_ne1 s pt = pt /\ zipf_inv_eq1 pt = pt /\
  zipf_Hcum_ne1 s pt = pt /\ zipf_Hcum_eq1 pt = pt.
Proof. exact zipf_inv_cdf_low. Qed.
Print Assumptions C02_zipf_inv_cdf_low.

Theorem C02_zipf_inv_base_pos : forall n s pt, s <> 1 -> 0 <= s -> 1 <= n ->
  1 < pt <= zipf_t_ne1 n s -> 0 < pt * (1 - s) + s.
Proof. exact zipf_inv_base_pos. Qed.
Print Assumptions C02_zipf_inv_base_pos.

Theorem C02_zipf_inv_cdf_ne1 : forall s pt, s <> 1 -> 1 < pt -> 0 < pt * (1 - s) + s ->
  1 < zipf_inv_ne1 s pt /\ zipf_Hcum_ne1 s (zipf_inv_ne1 s pt) = pt.
Proof. exact zipf_inv_cdf_ne1. Qed.
Print Assumptions C02_zipf_inv_cdf_ne1.

Theorem C02_zipf_inv_le_n_ne1 : forall n s pt, s <> 1 -> 0 <= s -> 1 <= n ->
  1 < pt <= zipf_t_ne1 n s -> zipf_inv_ne1 s pt <= n.
Proof. exact zipf_inv_le_n_ne1. Qed.
Print Assumptions C02_zipf_inv_le_n_ne1.

Theorem C02_zipf_inv_cdf_eq1 : forall pt, 1 < pt ->
  1 < zipf_inv_eq1 pt /\ zipf_Hcum_eq1 (zipf_inv_eq1 pt) = pt.
Proof. exact zipf_inv_cdf_eq1. Qed.
Print Assumptions C02_zipf_inv_cdf_eq1.

Theorem C02_zipf_inv_le_n_eq1 : forall n pt, 1 <= n -> 1 < pt <= zipf_t_eq1 n ->
  zipf_inv_eq1 pt <= n.
Proof. exact zipf_inv_le_n_eq1. Qed.
Print Assumptions C02_zipf_inv_le_n_eq1.

(* on [k-1, k) (where floor(y+1) = k): hat(y) * ratio = k^-s, and ratio is a probability *)
Theorem C02_zipf_accept_identity : forall s (k : nat) y,
  (1 <= k)%nat -> INR k - 1 <= y < INR k ->
  zipf_hat s y * zipf_ratio s (INR k) y = Rpower (INR k) (- s).
Proof. exact zipf_accept_identity. Qed.
Print Assumptions C02_zipf_accept_identity.

Theorem C02_zipf_ratio_range : forall s (k : nat) y,
  0 <= s -> (1 <= k)%nat -> INR k - 1 <= y < INR k -> 0 < zipf_ratio s (INR k) y <= 1.
Proof. exact zipf_ratio_range. Qed.
Print Assumptions C02_zipf_ratio_range.

(* accepted mass of k (before dividing by t) is k^-s *)
Theorem C02_zipf_accept_mass : forall s (k : nat), (1 <= k)%nat ->
  is_RInt (fun y => zipf_hat s y * zipf_ratio s (INR k) y) (INR k - 1) (INR k)
          (Rpower (INR k) (- s)).
Proof. exact zipf_accept_mass. Qed.
Print Assumptions C02_zipf_accept_mass.

Example C02_ex_zipf :
  is_RInt (fun y => Rpower y (- 2)) 1 10 (zipf_t_ne1 10 2 - 1) /\
  is_RInt (fun y => zipf_hat 2 y * zipf_ratio 2 (INR 3) y) (INR 3 - 1) (INR 3) (Rpower (INR 3) (- 2)) /\
  0 < zipf_ratio 2 (INR 3) (5/2) <= 1.
Proof.
  split; [|split].
  - apply C02_zipf_hat_mass_ne1; lra.
  - apply C02_zipf_accept_mass. lia.
  - apply C02_zipf_ratio_range; [lra|lia|simpl; lra].
Qed.

(* ===================== 7. Poisson: Knuth's method (poisson.rs:193-201) ===================== *)

Theorem C02_lprod_def : lprod [] = 1 /\ forall u l, lprod (u :: l) = u * lprod l.
Proof. exact lprod_def. Qed.
Print Assumptions C02_lprod_def.

Theorem C02_knuth_loop_def : forall e p us k,
  knuth_loop e p us k =
  if Rlt_dec e p then
    match us with [] => None | u :: us' => knuth_loop e (p * u) us' (S k) end
  else Some k.
Proof. exact knuth_loop_def. Qed.
Print Assumptions C02_knuth_loop_def.

Theorem C02_knuth_def : forall e,
  knuth e [] = None /\ forall u0 us, knuth e (u0 :: us) = knuth_loop e u0 us 0.
Proof. exact knuth_def. Qed.
Print Assumptions C02_knuth_def.

Theorem C02_count_above_def : forall e us,
  count_above e us =
  length (filter (fun j => if Rlt_dec e (lprod (firstn j us)) then true else false)
                 (seq 1 (length us))).
Proof. exact count_above_def. Qed.
Print Assumptions C02_count_above_def.

(* no assumption on the uniforms *)
Theorem C02_knuth_spec : forall e us k,
  knuth e us = Some k <->
  (S k <= length us)%nat /\
  (forall j, (1 <= j <= k)%nat -> e < lprod (firstn j us)) /\
  lprod (firstn (S k) us) <= e.
Proof. exact knuth_spec. Qed.
Print Assumptions C02_knuth_spec.

(* k is returned iff  u0...u(k-1) > e  and  u0...uk <= e *)
Theorem C02_knuth_form : forall e us k, e < 1 -> Forall (fun u => 0 <= u <= 1) us ->
  (knuth e us = Some k <->
   (S k <= length us)%nat /\ e < lprod (firstn k us) /\ lprod (firstn (S k) us) <= e).
Proof. exact knuth_form. Qed.
Print Assumptions C02_knuth_form.

(* the returned count is the number of partial products exceeding e *)
Theorem C02_knuth_count : forall e us k, Forall (fun u => 0 <= u <= 1) us ->
  knuth e us = Some k -> count_above e us = k.
Proof. exact knuth_count. Qed.
Print Assumptions C02_knuth_count.

Example C02_ex_knuth : knuth (1/2) [9/10; 8/10; 5/10; 3/10] = Some 2%nat.
Proof.
  apply C02_knuth_form.
  - lra.
  - repeat constructor; lra.
  - simpl. repeat split; try lia; lra.
Qed.
