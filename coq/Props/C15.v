(* Props/C15.v — with the serde feature, every distribution type that derives
   Serialize/Deserialize round-trips through a self-describing format to an equal
   value.  The type descriptions (Model.Serde.tydesc) are generated from the Rust
   source; it then suffices to check [wf d = true] by computation for each of them. *)
From Coq Require Import String ZArith List Bool.
From RD Require Import Model.Serde Proofs.SerdeProofs.
Import ListNotations.

(* main statement: decode (encode v) = v for well-typed values with finite floats *)
Theorem C15_roundtrip : forall d, wf d = true -> forall v, has_type d v -> finite_floats v ->
  decode d (encode d v) = Some v.
Proof. exact roundtrip. Qed.
Print Assumptions C15_roundtrip.

(* the same, for a whole generated table of (type name, description) *)
Theorem C15_roundtrip_table : forall (table : list (string * tydesc)),
  forallb (fun nd => wf (snd nd)) table = true ->
  forall n d, In (n, d) table -> forall v, has_type d v -> finite_floats v ->
  decode d (encode d v) = Some v.
Proof.
  intros table H n d HI. rewrite forallb_forall in H.
  apply roundtrip. exact (H _ HI).
Qed.
Print Assumptions C15_roundtrip_table.

(* serialisation loses nothing: distinct values have distinct documents *)
Theorem C15_encode_injective : forall d, wf d = true -> forall v1 v2,
  has_type d v1 -> finite_floats v1 -> has_type d v2 -> finite_floats v2 ->
  encode d v1 = encode d v2 -> v1 = v2.
Proof. exact encode_injective. Qed.
Print Assumptions C15_encode_injective.

(* whatever decode accepts is a well-typed value of the described type, with finite floats *)
Theorem C15_decode_type : forall d x v, decode d x = Some v -> has_type d v.
Proof. exact decode_type. Qed.
Print Assumptions C15_decode_type.

Theorem C15_decode_finite : forall d x v, decode d x = Some v -> finite_floats v.
Proof. exact decode_finite. Qed.
Print Assumptions C15_decode_finite.

Theorem C15_decode_encode_decode : forall d, wf d = true -> forall x v,
  decode d x = Some v -> decode d (encode d v) = Some v.
Proof. exact decode_encode_decode. Qed.
Print Assumptions C15_decode_encode_decode.

(* the hypotheses are needed: non-finite floats are written as null and are rejected *)
Theorem C15_nonfinite_not_roundtrip : forall w p,
  has_type (TFloat w) (VFloat w p) -> finite_pattern w p = false ->
  encode (TFloat w) (VFloat w p) = DNull /\
  decode (TFloat w) (encode (TFloat w) (VFloat w p)) = None.
Proof. exact nonfinite_not_roundtrip. Qed.
Print Assumptions C15_nonfinite_not_roundtrip.

(* ... and so is well-formedness: duplicate field names break the round trip *)
Theorem C15_wf_necessary :
  has_type ex_dup ex_dup_v /\ finite_floats ex_dup_v /\
  decode ex_dup (encode ex_dup ex_dup_v) = None.
Proof. exact ex_dup_no_roundtrip. Qed.
Print Assumptions C15_wf_necessary.

(* concrete instance: a Gamma-shaped description *)
Theorem C15_gamma_example :
  wf ex_gamma = true /\
  decode ex_gamma (encode ex_gamma ex_gamma_small) = Some ex_gamma_small.
Proof. split; [exact ex_gamma_wf | exact ex_gamma_roundtrip]. Qed.
Print Assumptions C15_gamma_example.
