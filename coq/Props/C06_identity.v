(* Props/C06_identity.v — the ziggurat identity behind StandardNormal / Exp1 (utils.rs:62-96,
   normal.rs:62-90, exponential.rs:65-85).  Statements only; proofs in Proofs/ZigBits.v (integers,
   axiom-free) and Proofs/ZigIdentity.v (reals).

   Vocabulary (Fixpoints of Proofs/ZigIdentity.v; their defining equations are restated below as
   C06_rect_sum_def, C06_rect_sum_test_def, C06_rect_sum_sym_def):
     rect_sum X k        = sum_{i<k} / X i
     rect_sum_test X x n = sum_{i<n} (if x < X (S i) then / X i else 0)
     rect_sum_sym X k    = sum_{i<k} / (2 * X i)
   Tables as in the code: X decreasing with X N = 0 (N = 256), Fv i = f (X i) increasing,
   v = common area of the layers, r = X 1, T = tail mass beyond r.                             *)
From Coq Require Import ZArith Reals.
From RD Require Import Proofs.ZigBits Proofs.ZigIdentity.

(* ================= Part A: bits -> (layer, mantissa), integers ================= *)
Open Scope Z_scope.

Theorem C06_zig_bits_independent : forall w, 0 <= w < 2^64 ->
  (0 <= w mod 256 < 256 /\ 0 <= w / 2^12 < 2^52) /\
  forall i k, 0 <= i < 256 -> 0 <= k < 2^52 ->
    (w mod 256 = i /\ w / 2^12 = k <->
     exists j, 0 <= j < 16 /\ w = k * 2^12 + j * 2^8 + i).
Proof. exact zig_bits_independent. Qed.
Print Assumptions C06_zig_bits_independent.

Theorem C06_zig_bits_sixteen : forall i k, 0 <= i < 256 -> 0 <= k < 2^52 ->
  (forall j, 0 <= j < 16 ->
     let w := k * 2^12 + j * 2^8 + i in
     0 <= w < 2^64 /\ w mod 256 = i /\ w / 2^12 = k) /\
  (forall j j', 0 <= j < 16 -> 0 <= j' < 16 ->
     k * 2^12 + j * 2^8 + i = k * 2^12 + j' * 2^8 + i -> j = j') /\
  (forall w, 0 <= w < 2^64 -> w mod 256 = i -> w / 2^12 = k ->
     exists j, 0 <= j < 16 /\ w = k * 2^12 + j * 2^8 + i).
Proof. exact zig_bits_sixteen. Qed.
Print Assumptions C06_zig_bits_sixteen.

Theorem C06_zig_u_range : forall k, 0 <= k < 2^52 ->
  (- 2^51 <= k - 2^51 < 2^51) /\ (0 < 2 * k + 1 < 2^53).
Proof. exact zig_u_range. Qed.
Print Assumptions C06_zig_u_range.

Theorem C06_zig_u_grid : forall k k',
  (k - 2^51 = k' - 2^51 -> k = k') /\ (2 * k + 1 = 2 * k' + 1 -> k = k').
Proof. exact zig_u_grid. Qed.
Print Assumptions C06_zig_u_grid.

Close Scope Z_scope.

(* ================= Part B: density identity, reals ================= *)
Open Scope R_scope.

Theorem C06_rect_sum_def : forall X : nat -> R,
  rect_sum X 0 = 0 /\ forall k, rect_sum X (S k) = rect_sum X k + / X k.
Proof. exact rect_sum_def. Qed.
Print Assumptions C06_rect_sum_def.

Theorem C06_rect_sum_test_def : forall (X : nat -> R) (x : R),
  rect_sum_test X x 0 = 0 /\
  forall n, rect_sum_test X x (S n) = rect_sum_test X x n + (if Rlt_dec x (X (S n)) then / X n else 0).
Proof. exact rect_sum_test_def. Qed.
Print Assumptions C06_rect_sum_test_def.

Theorem C06_rect_sum_sym_def : forall X : nat -> R,
  rect_sum_sym X 0 = 0 /\ forall k, rect_sum_sym X (S k) = rect_sum_sym X k + / (2 * X k).
Proof. exact rect_sum_sym_def. Qed.
Print Assumptions C06_rect_sum_sym_def.

(* the table hypotheses used below are jointly satisfiable *)
Theorem C06_zig_hyps_nonvacuous : exists (N : nat) (X Fv : nat -> R) (f : R -> R) (v T : R),
  (2 <= N)%nat /\
  (forall i, (i < N)%nat -> 0 < X i) /\
  (forall i, (i < N)%nat -> X (S i) < X i) /\
  X N = 0 /\
  0 < v /\
  X 0%nat * Fv 1%nat = v /\
  (forall i, (1 <= i < N)%nat -> X i * (Fv (S i) - Fv i) = v) /\
  (forall i, (1 <= i <= N)%nat -> Fv i = f (X i)) /\
  (forall a b, 0 <= a -> a <= b -> b <= X 1%nat -> f b <= f a) /\
  0 < T /\ X 1%nat * Fv 1%nat + T = v.
Proof. exact zig_hyps_nonvacuous. Qed.
Print Assumptions C06_zig_hyps_nonvacuous.

(* X is strictly decreasing on 0..N *)
Theorem C06_X_antitone : forall (N : nat) (X : nat -> R),
  (2 <= N)%nat ->
  (forall i, (i < N)%nat -> X (S i) < X i) ->
  forall i j, (i < j)%nat -> (j <= N)%nat -> X j < X i.
Proof. exact X_antitone. Qed.
Print Assumptions C06_X_antitone.

(* telescoping: sum_{i<k} 1/X i = Fv k / v *)
Theorem C06_rect_sum_telescope : forall (N : nat) (X Fv : nat -> R) (v : R),
  (2 <= N)%nat ->
  (forall i, (i < N)%nat -> 0 < X i) ->
  0 < v ->
  X 0%nat * Fv 1%nat = v ->
  (forall i, (1 <= i < N)%nat -> X i * (Fv (S i) - Fv i) = v) ->
  forall k, (1 <= k <= N)%nat -> rect_sum X k = Fv k / v.
Proof. exact rect_sum_telescope. Qed.
Print Assumptions C06_rect_sum_telescope.

(* for x in [X (S k), X k) the rectangle test x < X (S i) succeeds exactly for the layers i < k *)
Theorem C06_zig_rect_layers : forall (N : nat) (X : nat -> R),
  (2 <= N)%nat ->
  (forall i, (i < N)%nat -> X (S i) < X i) ->
  forall (k : nat) (x : R), (k < N)%nat -> X (S k) <= x < X k ->
  forall i, (i < N)%nat -> (x < X (S i) <-> (i < k)%nat).
Proof. exact zig_rect_layers. Qed.
Print Assumptions C06_zig_rect_layers.

Theorem C06_rect_sum_test_eq : forall (N : nat) (X : nat -> R),
  (2 <= N)%nat ->
  (forall i, (i < N)%nat -> X (S i) < X i) ->
  forall (k : nat) (x : R), (k < N)%nat -> X (S k) <= x < X k ->
  rect_sum_test X x N = rect_sum X k.
Proof. exact rect_sum_test_eq. Qed.
Print Assumptions C06_rect_sum_test_eq.

(* the wedge acceptance probability (f x - Fv k)/(Fv (S k) - Fv k) lies in [0,1] *)
Theorem C06_zig_wedge_prob_range : forall (N : nat) (X Fv : nat -> R) (f : R -> R) (v : R),
  (2 <= N)%nat ->
  (forall i, (i < N)%nat -> 0 < X i) ->
  (forall i, (i < N)%nat -> X (S i) < X i) ->
  X N = 0 ->
  0 < v ->
  (forall i, (1 <= i < N)%nat -> X i * (Fv (S i) - Fv i) = v) ->
  (forall i, (1 <= i <= N)%nat -> Fv i = f (X i)) ->
  (forall a b, 0 <= a -> a <= b -> b <= X 1%nat -> f b <= f a) ->
  forall (k : nat) (x : R), (1 <= k < N)%nat -> X (S k) <= x < X k ->
  0 <= (f x - Fv k) / (Fv (S k) - Fv k) <= 1.
Proof. exact zig_wedge_prob_range. Qed.
Print Assumptions C06_zig_wedge_prob_range.

(* body, one-sided: rectangles of layers < k plus wedge of layer k give f x / (N v) *)
Theorem C06_zig_density_identity : forall (N : nat) (X Fv : nat -> R) (f : R -> R) (v : R),
  (2 <= N)%nat ->
  (forall i, (i < N)%nat -> 0 < X i) ->
  0 < v ->
  X 0%nat * Fv 1%nat = v ->
  (forall i, (1 <= i < N)%nat -> X i * (Fv (S i) - Fv i) = v) ->
  forall (k : nat) (x : R), (1 <= k < N)%nat ->
  (rect_sum X k + / X k * (f x - Fv k) / (Fv (S k) - Fv k)) / INR N = f x / (INR N * v).
Proof. exact zig_density_identity. Qed.
Print Assumptions C06_zig_density_identity.

(* the same, the rectangle layers being selected by the code's test over all N layers *)
Theorem C06_zig_density_identity_test : forall (N : nat) (X Fv : nat -> R) (f : R -> R) (v : R),
  (2 <= N)%nat ->
  (forall i, (i < N)%nat -> 0 < X i) ->
  (forall i, (i < N)%nat -> X (S i) < X i) ->
  0 < v ->
  X 0%nat * Fv 1%nat = v ->
  (forall i, (1 <= i < N)%nat -> X i * (Fv (S i) - Fv i) = v) ->
  forall (k : nat) (x : R), (1 <= k < N)%nat -> X (S k) <= x < X k ->
  (rect_sum_test X x N + / X k * (f x - Fv k) / (Fv (S k) - Fv k)) / INR N = f x / (INR N * v).
Proof. exact zig_density_identity_test. Qed.
Print Assumptions C06_zig_density_identity_test.

Theorem C06_rect_sum_sym_half : forall (N : nat) (X : nat -> R),
  (2 <= N)%nat ->
  (forall i, (i < N)%nat -> 0 < X i) ->
  forall k, (k <= N)%nat -> rect_sum_sym X k = rect_sum X k / 2.
Proof. exact rect_sum_sym_half. Qed.
Print Assumptions C06_rect_sum_sym_half.

(* body, symmetric: proposal density 1/(2 X i), target density f|x| / 2 *)
Theorem C06_zig_density_identity_sym : forall (N : nat) (X Fv : nat -> R) (f : R -> R) (v : R),
  (2 <= N)%nat ->
  (forall i, (i < N)%nat -> 0 < X i) ->
  0 < v ->
  X 0%nat * Fv 1%nat = v ->
  (forall i, (1 <= i < N)%nat -> X i * (Fv (S i) - Fv i) = v) ->
  forall (k : nat) (x : R), (1 <= k < N)%nat ->
  (rect_sum_sym X k + / (2 * X k) * (f (Rabs x) - Fv k) / (Fv (S k) - Fv k)) / INR N
  = (f (Rabs x) / 2) / (INR N * v).
Proof. exact zig_density_identity_sym. Qed.
Print Assumptions C06_zig_density_identity_sym.

(* layer 0: P(tail branch) * tail density = f x / (N v), given base strip = X 1 * Fv 1 + T = v *)
Theorem C06_zig_tail_identity : forall (N : nat) (X Fv : nat -> R) (v : R),
  (2 <= N)%nat ->
  (forall i, (i < N)%nat -> 0 < X i) ->
  0 < v ->
  X 0%nat * Fv 1%nat = v ->
  forall T fx : R, 0 < T -> X 1%nat * Fv 1%nat + T = v ->
  / INR N * (1 - X 1%nat / X 0%nat) * (fx / T) = fx / (INR N * v).
Proof. exact zig_tail_identity. Qed.
Print Assumptions C06_zig_tail_identity.

Theorem C06_zig_tail_identity_sym : forall (N : nat) (X Fv : nat -> R) (v : R),
  (2 <= N)%nat ->
  (forall i, (i < N)%nat -> 0 < X i) ->
  0 < v ->
  X 0%nat * Fv 1%nat = v ->
  forall T fx : R, 0 < T -> X 1%nat * Fv 1%nat + T = v ->
  / INR N * (1 - X 1%nat / X 0%nat) * (/ 2 * (fx / T)) = (fx / 2) / (INR N * v).
Proof. exact zig_tail_identity_sym. Qed.
Print Assumptions C06_zig_tail_identity_sym.

Theorem C06_zig_tail_prob_range : forall (N : nat) (X : nat -> R),
  (2 <= N)%nat ->
  (forall i, (i < N)%nat -> 0 < X i) ->
  (forall i, (i < N)%nat -> X (S i) < X i) ->
  0 < 1 - X 1%nat / X 0%nat < 1.
Proof. exact zig_tail_prob_range. Qed.
Print Assumptions C06_zig_tail_prob_range.

(* ---- tail samplers ---- *)

(* exponential.rs:75  r - ln u :  {r - ln u <= x} = {e^{-(x-r)} <= u}, so the cdf is 1 - e^{-(x-r)} *)
Theorem C06_exp_tail_event : forall r u x, 0 < u ->
  (r - ln u <= x <-> exp (- (x - r)) <= u).
Proof. exact exp_tail_event. Qed.
Print Assumptions C06_exp_tail_event.

Theorem C06_exp_tail_density : forall r x, exp (- (x - r)) = exp (- x) / exp (- r).
Proof. exact exp_tail_density. Qed.
Print Assumptions C06_exp_tail_density.

(* normal.rs:77-83 (Marsaglia): proposal -ln(u1)/r has cdf 1 - e^{-r x} *)
Theorem C06_normal_tail_proposal : forall r u1 x, 0 < r -> 0 < u1 ->
  (- ln u1 / r <= x <-> exp (- (r * x)) <= u1).
Proof. exact normal_tail_proposal. Qed.
Print Assumptions C06_normal_tail_proposal.

(* the loop exits iff u2 <= e^{-x^2/2} *)
Theorem C06_normal_tail_accept : forall u2 x, 0 < u2 ->
  (~ (-2 * ln u2 < x * x) <-> u2 <= exp (- (x * x) / 2)).
Proof. exact normal_tail_accept. Qed.
Print Assumptions C06_normal_tail_accept.

Theorem C06_normal_tail_accept_code : forall r u1 u2, 0 < u2 ->
  let x := - ln u1 / r in
  (~ (-2 * ln u2 < (ln u1 / r) * (ln u1 / r)) <-> u2 <= exp (- (x * x) / 2)).
Proof. exact normal_tail_accept_code. Qed.
Print Assumptions C06_normal_tail_accept_code.

(* proposal density * acceptance probability is proportional to the normal density at r + x *)
Theorem C06_normal_tail_density : forall r x,
  r * exp (- (r * x)) * exp (- (x * x) / 2) = r * exp (r * r / 2) * exp (- ((x + r) * (x + r)) / 2).
Proof. exact normal_tail_density. Qed.
Print Assumptions C06_normal_tail_density.
