(* Props/C12.v — unit geometry: UnitCircle / UnitSphere outputs have norm one, UnitDisc / UnitBall
   outputs have norm at most one — on ideal reals and for every result of the exact semantics of
   the models of Model/Multi.v (which Model/Multi.mcase compares with the crate).              *)
From Coq Require Import Reals ZArith List.
From Interval Require Import Xreal.
From RD Require Import Base.Expr Base.Run Model.Sampler Model.Multi Proofs.MultiProofs.
Import ListNotations.
Local Open Scope R_scope.

(* ---- ideal reals ------------------------------------------------------------------------------ *)
Theorem C12_circle_norm : forall x1 x2 : R, x1 * x1 + x2 * x2 <> 0 ->
  let s := x1 * x1 + x2 * x2 in
  ((x1 * x1 - x2 * x2) / s) ^ 2 + (2 * x1 * x2 / s) ^ 2 = 1.
Proof. exact circle_norm. Qed.
Print Assumptions C12_circle_norm.

Theorem C12_sphere_norm : forall x1 x2 : R, 0 <= x1 * x1 + x2 * x2 < 1 ->
  let s := x1 * x1 + x2 * x2 in
  let factor := 2 * sqrt (1 - s) in
  (x1 * factor) ^ 2 + (x2 * factor) ^ 2 + (1 - 2 * s) ^ 2 = 1.
Proof. exact sphere_norm. Qed.
Print Assumptions C12_sphere_norm.

Theorem C12_disc_ball_norm :
  (forall x1 x2, rcmp CLe (x1 * x1 + x2 * x2) 1 = true -> x1 ^ 2 + x2 ^ 2 <= 1) /\
  (forall x1 x2 x3, rcmp CLe (x1 * x1 + x2 * x2 + x3 * x3) 1 = true -> x1 ^ 2 + x2 ^ 2 + x3 ^ 2 <= 1).
Proof. exact disc_ball_norm. Qed.
Print Assumptions C12_disc_ball_norm.

Theorem C12_circle_angle_doubling : forall r theta : R, 0 < r ->
  let x1 := r * cos theta in let x2 := r * sin theta in
  let s := x1 * x1 + x2 * x2 in
  (x1 * x1 - x2 * x2) / s = cos (2 * theta) /\ 2 * x1 * x2 / s = sin (2 * theta).
Proof. exact circle_angle_doubling. Qed.
Print Assumptions C12_circle_angle_doubling.

Theorem C12_sphere_z_linear : forall x1 x2 : R, 0 <= x1 * x1 + x2 * x2 < 1 ->
  let s := x1 * x1 + x2 * x2 in
  nth 2 [x1 * (2 * sqrt (1 - s)); x2 * (2 * sqrt (1 - s)); 1 - 2 * s] 0 = 1 - 2 * s /\ -1 < 1 - 2 * s <= 1.
Proof. exact sphere_z_linear. Qed.
Print Assumptions C12_sphere_z_linear.

(* ---- the draw ------------------------------------------------------------------------------------ *)
Theorem C12_u_pm1_range : forall t w, (0 <= w < 2 ^ 64)%Z ->
  exists r, evalX (u_pm1 t w) = Xreal r /\ -1 <= r < 1.
Proof. exact u_pm1_range. Qed.
Print Assumptions C12_u_pm1_range.

(* ---- the models ------------------------------------------------------------------------------------ *)
Theorem C12_unit_circle_norm : forall t ws e1 e2 rest a b,
  evals (unit_circle t ws) ([e1; e2], rest) -> evalX e1 = Xreal a -> evalX e2 = Xreal b -> a ^ 2 + b ^ 2 = 1.
Proof. exact unit_circle_norm. Qed.
Print Assumptions C12_unit_circle_norm.

Theorem C12_unit_sphere_norm : forall t ws e1 e2 e3 rest a b c,
  evals (unit_sphere t ws) ([e1; e2; e3], rest) ->
  evalX e1 = Xreal a -> evalX e2 = Xreal b -> evalX e3 = Xreal c -> a ^ 2 + b ^ 2 + c ^ 2 = 1.
Proof. exact unit_sphere_norm. Qed.
Print Assumptions C12_unit_sphere_norm.

Theorem C12_unit_disc_norm : forall t ws e1 e2 rest a b,
  evals (unit_disc t ws) ([e1; e2], rest) -> evalX e1 = Xreal a -> evalX e2 = Xreal b -> a ^ 2 + b ^ 2 <= 1.
Proof. exact unit_disc_norm. Qed.
Print Assumptions C12_unit_disc_norm.

Theorem C12_unit_ball_norm : forall t ws e1 e2 e3 rest a b c,
  evals (unit_ball t ws) ([e1; e2; e3], rest) ->
  evalX e1 = Xreal a -> evalX e2 = Xreal b -> evalX e3 = Xreal c -> a ^ 2 + b ^ 2 + c ^ 2 <= 1.
Proof. exact unit_ball_norm. Qed.
Print Assumptions C12_unit_ball_norm.

(* every result has exactly 2 (resp. 3) components *)
Theorem C12_unit_circle_shape : forall t ws out rest, evals (unit_circle t ws) (out, rest) ->
  exists e1 e2, out = [e1; e2] /\ forall a b, evalX e1 = Xreal a -> evalX e2 = Xreal b -> a ^ 2 + b ^ 2 = 1.
Proof. exact unit_circle_on_circle. Qed.
Print Assumptions C12_unit_circle_shape.

Theorem C12_unit_sphere_shape : forall t ws out rest, evals (unit_sphere t ws) (out, rest) ->
  exists e1 e2 e3, out = [e1; e2; e3] /\
    forall a b c, evalX e1 = Xreal a -> evalX e2 = Xreal b -> evalX e3 = Xreal c -> a ^ 2 + b ^ 2 + c ^ 2 = 1.
Proof. exact unit_sphere_on_sphere. Qed.
Print Assumptions C12_unit_sphere_shape.

Theorem C12_unit_disc_shape : forall t ws out rest, evals (unit_disc t ws) (out, rest) ->
  exists e1 e2, out = [e1; e2] /\ forall a b, evalX e1 = Xreal a -> evalX e2 = Xreal b -> a ^ 2 + b ^ 2 <= 1.
Proof. exact unit_disc_in_disc. Qed.
Print Assumptions C12_unit_disc_shape.

Theorem C12_unit_ball_shape : forall t ws out rest, evals (unit_ball t ws) (out, rest) ->
  exists e1 e2 e3, out = [e1; e2; e3] /\
    forall a b c, evalX e1 = Xreal a -> evalX e2 = Xreal b -> evalX e3 = Xreal c -> a ^ 2 + b ^ 2 + c ^ 2 <= 1.
Proof. exact unit_ball_in_ball. Qed.
Print Assumptions C12_unit_ball_shape.

(* UnitCircle never returns NaN: every result consists of two REAL numbers on the circle (the origin candidate, which
   would give 0/0, is rejected since fix 4622ae6 of the crate; before it this statement was false and the file carried the
   witness `circle_nan_witness` instead) *)
Theorem C12_unit_circle_real : forall t ws out rest, evals (unit_circle t ws) (out, rest) ->
  exists e1 e2 a b, out = [e1; e2] /\ evalX e1 = Xreal a /\ evalX e2 = Xreal b /\ a ^ 2 + b ^ 2 = 1.
Proof. exact unit_circle_real. Qed.
Print Assumptions C12_unit_circle_real.

(* the words that make both draws exactly 0 are skipped like any rejected candidate *)
Theorem C12_circle_origin_rejected : forall t ws out,
  evals (unit_circle t (2 ^ 63 :: 2 ^ 63 :: ws)%Z) out <-> evals (unit_circle_loop 63 t ws) out.
Proof. exact circle_origin_rejected. Qed.
Print Assumptions C12_circle_origin_rejected.

(* ---- instances ----------------------------------------------------------------------------------------- *)
(* the point (3/5, 1/5) of the disc goes to (4/5, 3/5) on the circle *)
Example C12_circle_instance :
  let x1 := 3 / 5 in let x2 := 1 / 5 in let s := x1 * x1 + x2 * x2 in
  (x1 * x1 - x2 * x2) / s = 4 / 5 /\ 2 * x1 * x2 / s = 3 / 5 /\ (4 / 5) ^ 2 + (3 / 5) ^ 2 = 1.
Proof. cbv zeta. repeat split; field. Qed.

(* s = 9/25 + 16/100 ... : x1 = 3/10, x2 = 4/10, s = 1/4, factor = 2 sqrt(3/4): third coordinate 1/2 *)
Example C12_sphere_instance :
  let x1 := 3 / 10 in let x2 := 4 / 10 in let s := x1 * x1 + x2 * x2 in
  s = 1 / 4 /\ 1 - 2 * s = 1 / 2 /\
  (x1 * (2 * sqrt (1 - s))) ^ 2 + (x2 * (2 * sqrt (1 - s))) ^ 2 + (1 - 2 * s) ^ 2 = 1.
Proof.
  cbv zeta. split; [field|]. split; [field|].
  apply (C12_sphere_norm (3 / 10) (4 / 10)). split.
  - apply Rplus_le_le_0_compat; apply Rle_0_sqr.
  - replace (3 / 10 * (3 / 10) + 4 / 10 * (4 / 10)) with (1 / 4) by field.
    apply Rmult_lt_reg_r with 4; [apply IZR_lt; reflexivity|].
    replace (1 / 4 * 4) with 1 by field. rewrite Rmult_1_l. apply IZR_lt. reflexivity.
Qed.

(* the model on two concrete words: w1 = 2^63 + 2^62 (x1 = 1/2), w2 = 2^62 (x2 = -1/2): accepted at once *)
Example C12_draw_instance :
  evalX (u_pm1 F64 (2 ^ 63 + 2 ^ 62)) = Xreal (1 / 2) /\ evalX (u_pm1 F32 (2 ^ 62)) = Xreal (- 1 / 2).
Proof.
  split; rewrite u_pm1_eval; f_equal; unfold u_pm1_R, hi32.
  - change (((2 ^ 63 + 2 ^ 62) / 2 ^ 12 - 2 ^ 51))%Z with (2 ^ 50)%Z.
    change (powerRZ 2 (-51)) with (/ (2 ^ 51)). change (2 ^ 50)%Z with 1125899906842624%Z.
    replace ((2:R) ^ 51) with 2251799813685248 by (symmetry; apply (pow_IZR 2 51)). field.
  - change ((2 ^ 62 / 2 ^ 32 / 2 ^ 9 - 2 ^ 22))%Z with (- 2 ^ 21)%Z.
    change (powerRZ 2 (-22)) with (/ (2 ^ 22)). change (- 2 ^ 21)%Z with (-2097152)%Z.
    replace ((2:R) ^ 22) with 4194304 by (symmetry; apply (pow_IZR 2 22)). field.
Qed.
