(* Props/C03_fl.v — property C03 at the IEEE-754 level (Flocq BinarySingleNaN, round to nearest even), for the part of
   Beta::sample that involves no libm call (beta.rs:253-262, the `w == inf` guard and the reflection named in the property's
   anchors):   if !switched { if w == inf { return 1 }  w / (b + w) } else { b / (b + w) }.
   For every finite b > 0 and every w that is +inf or finite and >= 0 - which is what w = a * exp(v), a > 0, is for any
   value of exp short of NaN - the result is a FINITE FLOAT IN [0, 1], in binary32 and binary64 (and any other format):
   the sum may overflow (then the quotient is +0), the quotient is the monotone rounding of a real in [0, 1], and the guard
   avoids inf/inf.  Statement only; proof in Proofs/BetaFinalFl.v.                                                        *)
From Coq Require Import ZArith Bool Reals.
From Flocq Require Import Core.Core IEEE754.BinarySingleNaN.
From RD Require Import Proofs.BetaFinalFl Proofs.TriangularFl Proofs.PertFl Gen.FlProg.
Open Scope R_scope.

Theorem C03_beta_final_def : forall prec emax (Hp : Prec_gt_0 prec) (Hpe : Prec_lt_emax prec emax) switched (b w : binary_float prec emax),
  beta_final prec emax Hp Hpe switched b w =
  if switched then Bdiv mode_NE b (Bplus mode_NE b w)
  else match w with B754_infinity false => Bone | _ => Bdiv mode_NE w (Bplus mode_NE b w) end.
Proof. intros. reflexivity. Qed.

Theorem C03_beta_final_in_unit : forall prec emax (Hp : Prec_gt_0 prec) (Hpe : Prec_lt_emax prec emax) switched (b w : binary_float prec emax),
  is_finite b = true -> 0 < B2R b ->
  (w = B754_infinity false \/ (is_finite w = true /\ 0 <= B2R w)) ->
  is_finite (beta_final prec emax Hp Hpe switched b w) = true /\ 0 <= B2R (beta_final prec emax Hp Hpe switched b w) <= 1.
Proof. exact beta_final_in_unit. Qed.

(* the two formats of the crate *)
Example C03_beta_final_binary64 : forall (switched : bool) (b w : binary_float 53 1024),
  is_finite b = true -> 0 < B2R b -> (w = B754_infinity false \/ (is_finite w = true /\ 0 <= B2R w)) ->
  is_finite (beta_final 53 1024 eq_refl eq_refl switched b w) = true /\ 0 <= B2R (beta_final 53 1024 eq_refl eq_refl switched b w) <= 1.
Proof. exact (C03_beta_final_in_unit 53 1024 eq_refl eq_refl). Qed.
Example C03_beta_final_binary32 : forall (switched : bool) (b w : binary_float 24 128),
  is_finite b = true -> 0 < B2R b -> (w = B754_infinity false \/ (is_finite w = true /\ 0 <= B2R w)) ->
  is_finite (beta_final 24 128 eq_refl eq_refl switched b w) = true /\ 0 <= B2R (beta_final 24 128 eq_refl eq_refl switched b w) <= 1.
Proof. exact (C03_beta_final_in_unit 24 128 eq_refl eq_refl). Qed.

(* ---- tie to the source: the two quotients at the end of Beta::sample (beta.rs) as read off /repo on every run
   (Gen/FlProg.v, tools/flprog.py) are the quotients of beta_final. *)
Theorem C03_fl_source : forall prec emax (Hp : Prec_gt_0 prec) (Hpe : Prec_lt_emax prec emax) (b w : binary_float prec emax),
  beta_final prec emax Hp Hpe true b w = src_beta_final_switched prec emax Hp Hpe b w /\
  beta_final prec emax Hp Hpe false b w =
    match w with B754_infinity false => Bone | _ => src_beta_final_plain prec emax Hp Hpe w b end.
Proof. intros. split; reflexivity. Qed.

(* ---- Triangular::sample (triangular.rs:101-110) is libm-free: sqrt is a correctly rounded IEEE operation (Flocq Bsqrt).  The whole
   function body as read off /repo on every run (Gen/FlProg.v: lets, if/else, the draw f opaque) IS triangular_fl. *)
Theorem C03_triangular_source : forall prec emax (Hp : Prec_gt_0 prec) (Hpe : Prec_lt_emax prec emax) (mn md mx f : binary_float prec emax),
  src_triangular_sample prec emax Hp Hpe f md mn mx = triangular_fl prec emax Hp Hpe mn md mx f.
Proof. intros. reflexivity. Qed.

(* For finite min <= mode <= max of magnitude <= 2^k (2k + 3 <= emax: k <= 510 in binary64, k <= 62 in binary32) and EVERY finite draw
   f in [0, 1]: no overflow, no square root of a negative number - the result is a finite float (never NaN, never infinite), >= min exactly
   in the first branch, <= max exactly in the second, and of magnitude <= 2^(k+2) in both. *)
Theorem C03_triangular_fl_finite : forall prec emax (Hp : Prec_gt_0 prec) (Hpe : Prec_lt_emax prec emax) (mn md mx f : binary_float prec emax) (k : Z),
  (0 <= k)%Z -> (2 * k + 3 <= emax)%Z ->
  is_finite mn = true -> is_finite md = true -> is_finite mx = true -> is_finite f = true ->
  B2R mn <= B2R md <= B2R mx -> Rabs (B2R mn) <= bpow radix2 k -> Rabs (B2R mx) <= bpow radix2 k -> 0 <= B2R f <= 1 ->
  is_finite (triangular_fl prec emax Hp Hpe mn md mx f) = true /\
  Rabs (B2R (triangular_fl prec emax Hp Hpe mn md mx f)) <= bpow radix2 (k + 2) /\
  (Bltb (Bmult mode_NE f (Bminus mode_NE mx mn)) (Bminus mode_NE md mn) = true -> B2R mn <= B2R (triangular_fl prec emax Hp Hpe mn md mx f)) /\
  (Bltb (Bmult mode_NE f (Bminus mode_NE mx mn)) (Bminus mode_NE md mn) = false -> B2R (triangular_fl prec emax Hp Hpe mn md mx f) <= B2R mx).
Proof. exact triangular_fl_finite. Qed.

Example C03_triangular_binary64 : forall (mn md mx f : binary_float 53 1024),
  is_finite mn = true -> is_finite md = true -> is_finite mx = true -> is_finite f = true ->
  B2R mn <= B2R md <= B2R mx -> Rabs (B2R mn) <= bpow radix2 510 -> Rabs (B2R mx) <= bpow radix2 510 -> 0 <= B2R f <= 1 ->
  is_finite (triangular_fl 53 1024 eq_refl eq_refl mn md mx f) = true.
Proof. intros mn md mx f A B C D E F G H. apply (C03_triangular_fl_finite 53 1024 eq_refl eq_refl mn md mx f 510); try assumption; discriminate. Qed.

(* ---- Pert::sample (pert.rs:166: beta * range + min) with the constructor's range = max - min (pert.rs:152), both read off /repo on
   every run.  For finite min <= max of magnitude <= 2^k (k + 2 < emax) and every finite Beta draw b in [0,1] (C03_beta_final_in_unit):
   the sample is a finite float, >= min exactly, and <= fl(min + fl(max - min)) <= max + (u + u^2)(max - min) + u |max|  - "inside
   [min, max] up to 4 ulp of the larger bound" (with M = max(|min|, |max|) the excess is at most (3u + 2u^2) M < 4 u M). *)
Theorem C03_pert_source : forall prec emax (Hp : Prec_gt_0 prec) (Hpe : Prec_lt_emax prec emax) (b range mn mx : binary_float prec emax),
  src_pert_sample prec emax Hp Hpe b range mn = pert_sample_fl prec emax Hp Hpe b range mn /\
  src_pert_range prec emax Hp Hpe mx mn = pert_range_fl prec emax Hp Hpe mx mn /\
  pert_sample_fl prec emax Hp Hpe b range mn = Bplus mode_NE (Bmult mode_NE b range) mn /\
  pert_range_fl prec emax Hp Hpe mx mn = Bminus mode_NE mx mn.
Proof. intros. repeat split; reflexivity. Qed.

Theorem C03_pert_fl_support : forall prec emax (Hp : Prec_gt_0 prec) (Hpe : Prec_lt_emax prec emax) (mn mx b : binary_float prec emax) (k : Z),
  (0 <= k)%Z -> (k + 2 < emax)%Z ->
  is_finite mn = true -> is_finite mx = true -> is_finite b = true ->
  B2R mn <= B2R mx -> Rabs (B2R mn) <= bpow radix2 k -> Rabs (B2R mx) <= bpow radix2 k -> 0 <= B2R b <= 1 ->
  let r := pert_range_fl prec emax Hp Hpe mx mn in
  let rnd := round radix2 (SpecFloat.fexp prec emax) (round_mode mode_NE) in
  let u := bpow radix2 (- prec) in
  is_finite (pert_sample_fl prec emax Hp Hpe b r mn) = true /\
  B2R mn <= B2R (pert_sample_fl prec emax Hp Hpe b r mn) <= rnd (B2R r + B2R mn) /\
  rnd (B2R r + B2R mn) <= B2R mx + (u + u * u) * (B2R mx - B2R mn) + u * Rabs (B2R mx).
Proof. exact pert_fl_support. Qed.

Print Assumptions C03_beta_final_def.
Print Assumptions C03_beta_final_in_unit.
Print Assumptions C03_fl_source.
Print Assumptions C03_triangular_source.
Print Assumptions C03_triangular_fl_finite.
Print Assumptions C03_pert_source.
Print Assumptions C03_pert_fl_support.
