(* Props/C13_ks.v — Kolmogorov distance between the exact output distribution of a
   sampler on a finite equiprobable draw grid (the empirical measure of the sorted
   output multiset s) and a target CDF F.  Statements only; proofs in Proofs/KS.v.

   Definitions (Proofs/KS.v):
     mono F        := forall x y, x <= y -> F x <= F y
     count_le x s  := number of elements v of s with v <= x   (via Rle_dec)
     G s x         := INR (count_le x s) / INR (length s)
     maxl f k s    := max(0, max_i f (k+i) (nth i s))          (empty max = 0)
     dev F N k v   := Rmax (Rabs (F v - INR (S k) / N)) (Rabs (F v - INR k / N))
     Dmax s F      := maxl (dev F (INR (length s))) 0 s
     Dplus s F     := maxl (fun k v => INR (S k) / N - F v) 0 s      (N = length s)
     Dminus s F    := maxl (fun k v => F v - INR k / N) 0 s
     devE Flo Fhi N k v := Rmax (Fhi v - INR k / N) (INR (S k) / N - Flo v)
     Dencl s Flo Fhi    := maxl (devE Flo Fhi (INR (length s))) 0 s
     DenclL N k lh      := same, enclosures given as a list of pairs (lo, hi)
     left_approx F a    := forall eps > 0, exists x < a, F a - eps < F x
   Indices k are 0-based: nth k s 0 is the (k+1)-th order statistic. *)
From Coq Require Import Reals List Sorted.
From RD Require Import Proofs.KS.
Import ListNotations.
Open Scope R_scope.

(* ---- 1. step formula ------------------------------------------------------- *)

Theorem C13_ks_step_formula : forall (F : R -> R) (s : list R),
  mono F -> (forall x, 0 <= F x <= 1) -> s <> [] -> Sorted Rle s ->
  forall x, - Dmax s F <= G s x - F x <= Dmax s F.
Proof. exact ks_step_formula. Qed.
Print Assumptions C13_ks_step_formula.

Theorem C13_ks_step_formula_abs : forall (F : R -> R) (s : list R),
  mono F -> (forall x, 0 <= F x <= 1) -> s <> [] -> Sorted Rle s ->
  forall x, Rabs (G s x - F x) <= Dmax s F.
Proof. exact ks_step_formula_abs. Qed.
Print Assumptions C13_ks_step_formula_abs.

Theorem C13_ks_upper : forall (F : R -> R) (s : list R),
  mono F -> (forall x, 0 <= F x <= 1) -> s <> [] -> Sorted Rle s ->
  forall x, G s x - F x <= Dplus s F.
Proof. exact ks_upper. Qed.
Print Assumptions C13_ks_upper.

Theorem C13_ks_lower : forall (F : R -> R) (s : list R),
  mono F -> (forall x, 0 <= F x <= 1) -> s <> [] -> Sorted Rle s ->
  forall x, F x - G s x <= Dminus s F.
Proof. exact ks_lower. Qed.
Print Assumptions C13_ks_lower.

(* Dmax really is the maximum of the N two-sided deviations *)
Theorem C13_Dmax_ge : forall s F k, (k < length s)%nat ->
  dev F (INR (length s)) k (nth k s 0) <= Dmax s F.
Proof. exact Dmax_ge. Qed.
Print Assumptions C13_Dmax_ge.

Theorem C13_Dmax_attained : forall s F, s <> [] ->
  exists k, (k < length s)%nat /\ Dmax s F = dev F (INR (length s)) k (nth k s 0).
Proof. exact Dmax_attained. Qed.
Print Assumptions C13_Dmax_attained.

Theorem C13_Dmax_eq_max_Dplus_Dminus : forall s F, s <> [] ->
  Dmax s F = Rmax (Dplus s F) (Dminus s F).
Proof. exact Dmax_eq_max_Dplus_Dminus. Qed.
Print Assumptions C13_Dmax_eq_max_Dplus_Dminus.

(* converse: the formula is exact *)
Theorem C13_ks_sup_exact : forall (F : R -> R) (s : list R),
  mono F -> (forall x, 0 <= F x <= 1) -> s <> [] -> Sorted Rle s ->
  (forall k, (k < length s)%nat -> left_approx F (nth k s 0)) ->
  is_lub (fun d => exists x, d = Rabs (G s x - F x)) (Dmax s F).
Proof. exact ks_sup_exact. Qed.
Print Assumptions C13_ks_sup_exact.

Theorem C13_ks_sup_exact_continuous : forall (F : R -> R) (s : list R),
  mono F -> (forall x, 0 <= F x <= 1) -> (forall x, continuity_pt F x) ->
  s <> [] -> Sorted Rle s ->
  is_lub (fun d => exists x, d = Rabs (G s x - F x)) (Dmax s F).
Proof. exact ks_sup_exact_continuous. Qed.
Print Assumptions C13_ks_sup_exact_continuous.

(* ---- 2. bound from a pointwise error analysis ------------------------------ *)

Theorem C13_ks_from_cdf_dev : forall (F : R -> R) (us s : list R) (c e : R),
  mono F -> (forall x, 0 <= F x <= 1) -> s <> [] -> Sorted Rle s ->
  (forall k, (k < length s)%nat -> Rabs (F (nth k s 0) - nth k us 0) <= c) ->
  (forall k, (k < length s)%nat -> Rabs (nth k us 0 - INR (S k) / INR (length s)) <= e) ->
  forall x, Rabs (G s x - F x) <= 1 / INR (length s) + e + c.
Proof. exact ks_from_cdf_dev. Qed.
Print Assumptions C13_ks_from_cdf_dev.

Theorem C13_ks_from_pointwise : forall (T F : R -> R) (us s : list R) (delta M e : R),
  mono F -> (forall x, 0 <= F x <= 1) -> s <> [] -> Sorted Rle s ->
  (forall k, (k < length s)%nat -> F (T (nth k us 0)) = nth k us 0) ->
  (forall k, (k < length s)%nat -> Rabs (nth k us 0 - INR (S k) / INR (length s)) <= e) ->
  (forall k, (k < length s)%nat ->
     Rabs (nth k s 0 - T (nth k us 0)) <= delta * Rabs (T (nth k us 0))) ->
  (forall x h, Rabs h <= delta * Rabs x -> Rabs (F (x + h) - F x) <= delta * M) ->
  forall x, Rabs (G s x - F x) <= 1 / INR (length s) + e + delta * M.
Proof. exact ks_from_pointwise. Qed.
Print Assumptions C13_ks_from_pointwise.

Theorem C13_ks_from_pointwise_2N : forall (T F : R -> R) (us s : list R) (delta M : R),
  mono F -> (forall x, 0 <= F x <= 1) -> s <> [] -> Sorted Rle s ->
  (forall u, 0 < u < 1 -> F (T u) = u) ->
  (forall k, (k < length s)%nat -> 0 < nth k us 0 < 1) ->
  (forall k, (k < length s)%nat ->
     Rabs (nth k us 0 - INR (S k) / INR (length s)) <= 1 / INR (length s)) ->
  (forall k, (k < length s)%nat ->
     Rabs (nth k s 0 - T (nth k us 0)) <= delta * Rabs (T (nth k us 0))) ->
  (forall x h, Rabs h <= delta * Rabs x -> Rabs (F (x + h) - F x) <= delta * M) ->
  forall x, Rabs (G s x - F x) <= 2 / INR (length s) + delta * M.
Proof. exact ks_from_pointwise_2N. Qed.
Print Assumptions C13_ks_from_pointwise_2N.

Theorem C13_ks_from_pointwise_grid : forall (T F : R -> R) (s : list R) (delta M : R),
  mono F -> (forall x, 0 <= F x <= 1) -> s <> [] -> Sorted Rle s ->
  (forall k, (k < length s)%nat ->
     F (T (INR (S k) / INR (length s))) = INR (S k) / INR (length s)) ->
  (forall k, (k < length s)%nat ->
     Rabs (nth k s 0 - T (INR (S k) / INR (length s)))
       <= delta * Rabs (T (INR (S k) / INR (length s)))) ->
  (forall x h, Rabs h <= delta * Rabs x -> Rabs (F (x + h) - F x) <= delta * M) ->
  forall x, Rabs (G s x - F x) <= 1 / INR (length s) + delta * M.
Proof. exact ks_from_pointwise_grid. Qed.
Print Assumptions C13_ks_from_pointwise_grid.

Theorem C13_ks_from_pointwise_abs : forall (T F : R -> R) (us s : list R) (eps L e : R),
  mono F -> (forall x, 0 <= F x <= 1) -> s <> [] -> Sorted Rle s ->
  0 <= L ->
  (forall k, (k < length s)%nat -> F (T (nth k us 0)) = nth k us 0) ->
  (forall k, (k < length s)%nat -> Rabs (nth k us 0 - INR (S k) / INR (length s)) <= e) ->
  (forall k, (k < length s)%nat -> Rabs (nth k s 0 - T (nth k us 0)) <= eps) ->
  (forall x y, Rabs (F x - F y) <= L * Rabs (x - y)) ->
  forall x, Rabs (G s x - F x) <= 1 / INR (length s) + e + L * eps.
Proof. exact ks_from_pointwise_abs. Qed.
Print Assumptions C13_ks_from_pointwise_abs.

(* ---- 3. checker helpers: bounds from enclosures of F ----------------------- *)

Theorem C13_max_dev_monotone : forall (F Flo Fhi : R -> R) (s : list R),
  (forall v, In v s -> Flo v <= F v <= Fhi v) ->
  Dmax s F <= Dencl s Flo Fhi.
Proof. exact max_dev_monotone. Qed.
Print Assumptions C13_max_dev_monotone.

Theorem C13_max_dev_enclosure_list : forall (F : R -> R) (s : list R) (lh : list (R * R)),
  Forall2 (fun v p => fst p <= F v <= snd p) s lh ->
  Dmax s F <= DenclL (INR (length s)) 0 lh.
Proof. exact max_dev_enclosure_list. Qed.
Print Assumptions C13_max_dev_enclosure_list.

Theorem C13_ks_bound_from_enclosures : forall (F Flo Fhi : R -> R) (s : list R),
  mono F -> (forall x, 0 <= F x <= 1) -> s <> [] -> Sorted Rle s ->
  (forall v, In v s -> Flo v <= F v <= Fhi v) ->
  forall x, Rabs (G s x - F x) <= Dencl s Flo Fhi.
Proof. exact ks_bound_from_enclosures. Qed.
Print Assumptions C13_ks_bound_from_enclosures.

Theorem C13_ks_bound_from_enclosure_list :
  forall (F : R -> R) (s : list R) (lh : list (R * R)),
  mono F -> (forall x, 0 <= F x <= 1) -> s <> [] -> Sorted Rle s ->
  Forall2 (fun v p => fst p <= F v <= snd p) s lh ->
  forall x, Rabs (G s x - F x) <= DenclL (INR (length s)) 0 lh.
Proof. exact ks_bound_from_enclosure_list. Qed.
Print Assumptions C13_ks_bound_from_enclosure_list.

(* ---- Examples: hypotheses are satisfiable ---------------------------------- *)
(* Fclip x = Rmax 0 (Rmin 1 x), the CDF of U(0,1); ex_s = [1/4; 1/2; 3/4]. *)

Example C13_example_direct :
  mono Fclip /\ (forall x, 0 <= Fclip x <= 1) /\
  [1 / 4; 1 / 2; 3 / 4] <> [] /\ Sorted Rle [1 / 4; 1 / 2; 3 / 4] /\
  Dmax [1 / 4; 1 / 2; 3 / 4] Fclip = 1 / 4 /\
  forall x, Rabs (G [1 / 4; 1 / 2; 3 / 4] x - Fclip x) <= 1 / 4.
Proof. exact ks_example_direct. Qed.
Print Assumptions C13_example_direct.

(* exact grid 1/3, 2/3, 1; T = identity; outputs with relative error <= 1/10;
   Fclip moves by at most (1/10)*(10/9) under a 1/10 relative perturbation;
   resulting bound 1/3 + (1/10)*(10/9) = 4/9 *)
Example C13_example_pointwise :
  let s := [32 / 100; 7 / 10; 95 / 100] in
  let T := fun u : R => u in
  let delta := 1 / 10 in let M := 10 / 9 in
  Sorted Rle s /\
  (forall k, (k < length s)%nat ->
     Fclip (T (INR (S k) / INR (length s))) = INR (S k) / INR (length s)) /\
  (forall k, (k < length s)%nat ->
     Rabs (nth k s 0 - T (INR (S k) / INR (length s)))
       <= delta * Rabs (T (INR (S k) / INR (length s)))) /\
  (forall x h, Rabs h <= delta * Rabs x -> Rabs (Fclip (x + h) - Fclip x) <= delta * M) /\
  forall x, Rabs (G s x - Fclip x) <= 4 / 9.
Proof. exact ks_example_pointwise. Qed.
Print Assumptions C13_example_pointwise.
