(* Props/C03.v — every sample lies in the support; sampling never panics.  Statements only.
   Integer-exact parts (weighted indices); the ideal-real support theorems are in Props/C03_support.v. *)
From Coq Require Import ZArith List.
From RD Require Import Model.Tree Model.Uniform Model.Alias Proofs.TreeBasics Proofs.TreeOps Proofs.TreeRefine Proofs.TreeSample
  Proofs.AliasBasics Proofs.AliasLoop Proofs.AliasSample.
Import ListNotations.
Open Scope Z_scope.

(* WeightedTreeIndex: for every reachable state and every target the index is in range with non-zero weight, no panic *)
Theorem C03_tree_index : forall ty t target, TreeOps.wf_ty ty -> TreeOps.Inv ty t -> 0 <= target < Tree.sub t 0 ->
  exists i, tree_try_sample ty t target = Ok i /\ (i < length t)%nat /\ 0 < Tree.nthz (Tree.abs t) i /\
            i = nth (Z.to_nat target) (TreeSample.flat (length t) (Tree.abs t) 0) 0%nat.
Proof. exact try_sample_ok. Qed.

(* WeightedAliasIndex: every (column, threshold) pair yields an index in range, never one of zero weight *)
Theorem C03_alias_index_range : forall (ty : aty) ws t, alo ty <= 0 <= amax ty -> alias_new ty ws = Ok t ->
  forall c r, (c < length ws)%nat -> 0 <= r < t_sum t -> 0 <= alias_pick t c r < Z.of_nat (length ws).
Proof. exact AliasSample.new_pick_in_range. Qed.
Theorem C03_alias_zero_never : forall (ty : aty) ws t, alo ty <= 0 <= amax ty -> alias_new ty ws = Ok t ->
  forall i, nth i ws 0 = 0 ->
  forall c r, (c < length ws)%nat -> 0 <= r < t_sum t -> alias_pick t c r <> Z.of_nat i.
Proof. exact AliasSample.new_zero_never. Qed.

Print Assumptions C03_tree_index.
Print Assumptions C03_alias_index_range.
Print Assumptions C03_alias_zero_never.
