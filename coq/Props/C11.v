(* Props/C11.v — Dirichlet: reversed cumulative sums, the chain of Beta parameters, the simplex
   property of stick breaking and of the Gamma normalisation (ideal reals and the models of
   Model/Multi.v), and the method switch.                                                       *)
From Coq Require Import Reals ZArith List.
From Interval Require Import Xreal.
From RD Require Import Base.Expr Base.Run Model.Sampler Model.Continuous Model.Multi Proofs.MultiProofs Proofs.MultiDirichlet Proofs.MultiRange.
Import ListNotations.
Local Open Scope R_scope.

(* ---- alpha_rev_csum ----------------------------------------------------------------------------- *)
Theorem C11_rev_csum_spec : forall (alpha : list R) (i : nat), (2 <= length alpha)%nat -> (i < length alpha - 1)%nat ->
  nth i (rev_csum_R alpha) 0 = sumf (skipn (S i) alpha).
Proof. exact rev_csum_spec. Qed.
Print Assumptions C11_rev_csum_spec.

Theorem C11_rev_csum_length : forall alpha : list R, length (rev_csum_R alpha) = (length alpha - 1)%nat.
Proof. exact rev_csum_length. Qed.
Print Assumptions C11_rev_csum_length.

Theorem C11_rev_csum_length_e : forall alpha : list expr, length (rev_csum alpha) = (length alpha - 1)%nat.
Proof. exact rev_csum_length_e. Qed.
Print Assumptions C11_rev_csum_length_e.

(* the float-level list of the model denotes the real-level list *)
Theorem C11_rev_csum_vals : forall alpha rs,
  Forall2 (fun e r => evalX e = Xreal r) alpha rs ->
  Forall2 (fun e r => evalX e = Xreal r) (rev_csum alpha) (rev_csum_R rs).
Proof. exact rev_csum_vals. Qed.
Print Assumptions C11_rev_csum_vals.

(* ---- the chain of Beta samplers -------------------------------------------------------------------- *)
Theorem C11_beta_chain_params : forall t (alpha : list (Z * Z)),
  let al := map dyx alpha in
  dirichlet_beta t alpha = dir_sticks t (beta_params al) one /\
  length (beta_params al) = (length alpha - 1)%nat /\
  (forall i, (i < length alpha - 1)%nat ->
     nth i (beta_params al) (one, one) = (dyx (nth i alpha (1, 0)%Z), nth i (rev_csum al) one)) /\
  (forall p r acc, dir_sticks t (p :: r) acc =
     (bs <- beta_of t p ;; l <- dir_sticks t r (Bin Mul acc (Bin Sub one bs)) ;; sret (Bin Mul acc bs :: l))%sampler) /\
  (forall acc, dir_sticks t [] acc = sret [acc]).
Proof. exact beta_chain_params. Qed.
Print Assumptions C11_beta_chain_params.

(* ---- simplex, ideal reals ---------------------------------------------------------------------------- *)
Theorem C11_stick_simplex : forall bs : list R, Forall (fun b => 0 <= b <= 1) bs ->
  length (sticks bs 1) = S (length bs) /\ Forall (fun s => 0 <= s <= 1) (sticks bs 1) /\ sumf (sticks bs 1) = 1.
Proof. exact stick_simplex. Qed.
Print Assumptions C11_stick_simplex.

(* the sum is 1 whatever the b_i are *)
Theorem C11_sticks_sum : forall (bs : list R) (acc : R), sumf (sticks bs acc) = acc.
Proof. exact sticks_sum. Qed.
Print Assumptions C11_sticks_sum.

Theorem C11_gamma_simplex : forall gs : list R, Forall (fun g => 0 < g) gs -> gs <> [] ->
  length (normalise gs) = length gs /\ Forall (fun x => 0 < x <= 1) (normalise gs) /\ sumf (normalise gs) = 1.
Proof. exact gamma_simplex. Qed.
Print Assumptions C11_gamma_simplex.

(* ---- simplex, models ------------------------------------------------------------------------------------ *)
Theorem C11_dirichlet_beta_simplex : forall t alpha ws out rest, evals (dirichlet_beta t alpha ws) (out, rest) ->
  length out = S (length alpha - 1) /\
  forall rs, Forall2 (fun e r => evalX e = Xreal r) out rs -> sumf rs = 1.
Proof. exact dirichlet_beta_simplex. Qed.
Print Assumptions C11_dirichlet_beta_simplex.

Theorem C11_dirichlet_gamma_simplex : forall t alpha ws out rest, alpha <> [] ->
  evals (dirichlet_gamma t alpha ws) (out, rest) ->
  length out = length alpha /\
  forall os, Forall2 (fun e r => evalX e = Xreal r) out os -> sumf os = 1.
Proof. exact dirichlet_gamma_simplex. Qed.
Print Assumptions C11_dirichlet_gamma_simplex.

Theorem C11_dirichlet_simplex : forall t alpha ws out rest, (2 <= length alpha)%nat ->
  evals (dirichlet t alpha ws) (out, rest) ->
  length out = length alpha /\
  forall os, Forall2 (fun e r => evalX e = Xreal r) out os -> sumf os = 1.
Proof. exact dirichlet_simplex. Qed.
Print Assumptions C11_dirichlet_simplex.

(* Beta route: every component is in [0,1] as well — the result is a point of the simplex *)
Theorem C11_dirichlet_beta_on_simplex : forall t alpha ws out rest, Forall (fun a => 0 < dyv a) alpha ->
  evals (dirichlet_beta t alpha ws) (out, rest) ->
  forall rs, Forall2 (fun e r => evalX e = Xreal r) out rs -> Forall (fun r => 0 <= r <= 1) rs /\ sumf rs = 1.
Proof. exact dirichlet_beta_on_simplex. Qed.
Print Assumptions C11_dirichlet_beta_on_simplex.

(* ---- method switch ------------------------------------------------------------------------------------------ *)
Theorem C11_method_switch : forall t alpha,
  (dir_use_beta t alpha = true <-> Forall (fun a => dyv a <= dyv (dir_threshold t)) alpha) /\
  (dir_use_beta t alpha = true -> dirichlet t alpha = dirichlet_beta t alpha) /\
  (dir_use_beta t alpha = false -> dirichlet t alpha = dirichlet_gamma t alpha).
Proof. exact method_switch. Qed.
Print Assumptions C11_method_switch.

Theorem C11_threshold_values :
  dyv (dir_threshold F64) = 3602879701896397 / 36028797018963968 /\
  dyv (dir_threshold F32) = 13421773 / 134217728 /\
  1 / 10 < dyv (dir_threshold F64) < dyv (dir_threshold F32).
Proof. exact dir_threshold_values. Qed.
Print Assumptions C11_threshold_values.

(* ---- instances -------------------------------------------------------------------------------------------------- *)
Example C11_rev_csum_instance : rev_csum_R [1; 2; 3; 4] = [4 + 3 + 2; 4 + 3; 4] /\ rev_csum_R [1; 2; 3; 4] = [9; 7; 4].
Proof.
  split; [reflexivity|]. cbv [rev_csum_R tl suffix_sums_R].
  repeat (f_equal; try (rewrite <- ?plus_IZR; apply f_equal; reflexivity)).
Qed.

Example C11_rev_csum_expr_instance :
  rev_csum [num 1; num 2; num 3; num 4] = [Bin Add (Bin Add (num 4) (num 3)) (num 2); Bin Add (num 4) (num 3); num 4].
Proof. reflexivity. Qed.

(* b = [1/2; 1/2]: sticks 1/2, 1/4, 1/4 *)
Example C11_sticks_instance : sticks [1 / 2; 1 / 2] 1 = [1 * (1 / 2); 1 * (1 - 1 / 2) * (1 / 2); 1 * (1 - 1 / 2) * (1 - 1 / 2)]
  /\ sumf (sticks [1 / 2; 1 / 2] 1) = 1.
Proof. split; [reflexivity|apply C11_sticks_sum]. Qed.

(* alpha = [0.05; 0.1_f64] as f64 bit patterns takes the Beta route, alpha = [0.05; 0.5] the Gamma route *)
Example C11_switch_instance :
  dir_use_beta F64 [(3602879701896397, -56)%Z; (3602879701896397, -55)%Z] = true /\
  dir_use_beta F64 [(3602879701896397, -56)%Z; (1, -1)%Z] = false /\
  dir_use_beta F32 [(13421773, -27)%Z] = true /\ dir_use_beta F32 [(13421774, -27)%Z] = false.
Proof. repeat split; vm_compute; reflexivity. Qed.
