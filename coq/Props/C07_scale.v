(* Props/C07_scale.v — property C07 at the IEEE-754 level for the scale families (Flocq BinarySingleNaN, round to nearest even).
   The last operation of Exp::sample, Weibull::sample and Pareto::sample is ONE rounded multiplication of the parameter-free draw g
   (an opaque float: Exp1, (-ln x)^(1/k), u^(-1/shape)) by the scale parameter; Gamma multiplies by the scale last (small shape)
   resp. by fl(d * scale) (large shape).  Read off /repo on every run (Gen/FlProg.v, tools/flprog.py):
       exponential.rs:189  rng.sample(Exp1) * self.lambda_inverse         weibull.rs:104  self.scale * (..).powf(self.inv_shape)
       pareto.rs:102       self.scale * u.powf(self.inv_neg_shape)        gamma.rs:277,288
   Hence, absent overflow: sample = rnd(scale * g) — "the corresponding map up to floating-point rounding of that map", within
   u |scale g| + eta; exactly scale * g for a power-of-two scale; non-negative (C03); monotone in g.  Proofs in Proofs/ScaleFl.v. *)
From Coq Require Import ZArith Bool Reals.
From Flocq Require Import Core.Core IEEE754.BinarySingleNaN.
From RD Require Import Proofs.AffineFl Proofs.ScaleFl Gen.FlProg.
Open Scope R_scope.

Theorem C07_scale_fl_def : forall prec emax (Hp : Prec_gt_0 prec) (Hpe : Prec_lt_emax prec emax) (a b : binary_float prec emax),
  scale_fl prec emax Hp Hpe a b = Bmult mode_NE a b.
Proof. reflexivity. Qed.

Theorem C07_scale_source : forall prec emax (Hp : Prec_gt_0 prec) (Hpe : Prec_lt_emax prec emax) (s g d a b : binary_float prec emax),
  src_exp_sample prec emax Hp Hpe g s = scale_fl prec emax Hp Hpe g s /\
  src_weibull_sample prec emax Hp Hpe s g = scale_fl prec emax Hp Hpe s g /\
  src_pareto_sample prec emax Hp Hpe s g = scale_fl prec emax Hp Hpe s g /\
  src_gamma_large_sample prec emax Hp Hpe g d s = scale_fl prec emax Hp Hpe g (scale_fl prec emax Hp Hpe d s) /\
  src_gamma_small_sample prec emax Hp Hpe a b d s = scale_fl prec emax Hp Hpe (Bmult mode_NE (Bmult mode_NE a b) d) s.
Proof. intros. repeat split; reflexivity. Qed.

Theorem C07_scale_fl_value : forall prec emax (Hp : Prec_gt_0 prec) (Hpe : Prec_lt_emax prec emax) (a b : binary_float prec emax),
  is_finite a = true -> is_finite b = true -> Rabs (rnd prec emax (B2R a * B2R b)) < bpow radix2 emax ->
  B2R (scale_fl prec emax Hp Hpe a b) = rnd prec emax (B2R a * B2R b) /\ is_finite (scale_fl prec emax Hp Hpe a b) = true.
Proof. exact scale_fl_value. Qed.

Theorem C07_scale_fl_error : forall prec emax (Hp : Prec_gt_0 prec) (Hpe : Prec_lt_emax prec emax) (a b : binary_float prec emax),
  is_finite a = true -> is_finite b = true -> Rabs (rnd prec emax (B2R a * B2R b)) < bpow radix2 emax ->
  Rabs (B2R (scale_fl prec emax Hp Hpe a b) - B2R a * B2R b) <= u prec * Rabs (B2R a * B2R b) + eta prec emax.
Proof. exact scale_fl_error. Qed.

Theorem C07_scale_fl_comm_value : forall prec emax (Hp : Prec_gt_0 prec) (Hpe : Prec_lt_emax prec emax) (a b : binary_float prec emax),
  is_finite a = true -> is_finite b = true -> Rabs (rnd prec emax (B2R a * B2R b)) < bpow radix2 emax ->
  B2R (scale_fl prec emax Hp Hpe a b) = B2R (scale_fl prec emax Hp Hpe b a).
Proof. exact scale_fl_comm_value. Qed.

Theorem C07_scale_fl_nonneg : forall prec emax (Hp : Prec_gt_0 prec) (Hpe : Prec_lt_emax prec emax) (a b : binary_float prec emax),
  is_finite a = true -> is_finite b = true -> Rabs (rnd prec emax (B2R a * B2R b)) < bpow radix2 emax ->
  0 <= B2R a -> 0 <= B2R b -> 0 <= B2R (scale_fl prec emax Hp Hpe a b).
Proof. exact scale_fl_nonneg. Qed.

Theorem C07_scale_fl_monotone : forall prec emax (Hp : Prec_gt_0 prec) (Hpe : Prec_lt_emax prec emax) (s g1 g2 : binary_float prec emax),
  is_finite s = true -> is_finite g1 = true -> is_finite g2 = true ->
  Rabs (rnd prec emax (B2R s * B2R g1)) < bpow radix2 emax -> Rabs (rnd prec emax (B2R s * B2R g2)) < bpow radix2 emax ->
  0 <= B2R s -> B2R g1 <= B2R g2 -> B2R (scale_fl prec emax Hp Hpe s g1) <= B2R (scale_fl prec emax Hp Hpe s g2).
Proof. exact scale_fl_monotone. Qed.

Theorem C07_scale_fl_pow2 : forall prec emax (Hp : Prec_gt_0 prec) (Hpe : Prec_lt_emax prec emax) (s g : binary_float prec emax) (k : Z),
  is_finite s = true -> is_finite g = true -> B2R s = bpow radix2 k ->
  (B2R g = 0 \/ (0 <= k)%Z \/ bpow radix2 (aemin prec emax + prec - 1) <= Rabs (bpow radix2 k * B2R g)) ->
  Rabs (bpow radix2 k * B2R g) < bpow radix2 emax ->
  B2R (scale_fl prec emax Hp Hpe s g) = bpow radix2 k * B2R g /\ is_finite (scale_fl prec emax Hp Hpe s g) = true.
Proof. exact scale_fl_pow2. Qed.

(* ---- the pre-computed reciprocals named in the property's anchors (exponential.rs:176-178, weibull.rs:90-93, pareto.rs:88-91), read
   off the struct literals of the constructors on every run, are the documented parameter transforms, rounded once *)
Theorem C07_recip_source : forall prec emax (Hp : Prec_gt_0 prec) (Hpe : Prec_lt_emax prec emax) (x : binary_float prec emax),
  src_exp_new_lambda_inverse prec emax Hp Hpe x = recip_fl prec emax Hp Hpe x /\
  src_weibull_new_inv_shape prec emax Hp Hpe x = recip_fl prec emax Hp Hpe x /\
  src_pareto_new_inv_neg_shape prec emax Hp Hpe x = neg_recip_fl prec emax Hp Hpe x /\
  recip_fl prec emax Hp Hpe x = Bdiv mode_NE (Bone (prec_gt_0_ := Hp) (prec_lt_emax_ := Hpe)) x /\
  neg_recip_fl prec emax Hp Hpe x = Bdiv mode_NE (Bopp (Bone (prec_gt_0_ := Hp) (prec_lt_emax_ := Hpe))) x.
Proof. intros. repeat split; reflexivity. Qed.

Theorem C07_recip_fl_value : forall prec emax (Hp : Prec_gt_0 prec) (Hpe : Prec_lt_emax prec emax) (x : binary_float prec emax),
  is_finite x = true -> B2R x <> 0 -> Rabs (rnd prec emax (1 / B2R x)) < bpow radix2 emax ->
  B2R (recip_fl prec emax Hp Hpe x) = rnd prec emax (1 / B2R x) /\ is_finite (recip_fl prec emax Hp Hpe x) = true.
Proof. exact recip_fl_value. Qed.

Theorem C07_neg_recip_fl_value : forall prec emax (Hp : Prec_gt_0 prec) (Hpe : Prec_lt_emax prec emax) (x : binary_float prec emax),
  is_finite x = true -> B2R x <> 0 -> Rabs (rnd prec emax (- 1 / B2R x)) < bpow radix2 emax ->
  B2R (neg_recip_fl prec emax Hp Hpe x) = rnd prec emax (- 1 / B2R x) /\ is_finite (neg_recip_fl prec emax Hp Hpe x) = true.
Proof. exact neg_recip_fl_value. Qed.

(* Exp(lambda): constructor and sample composed.  The sample is Exp1 / lambda up to two roundings. *)
Theorem C07_exp_sample_fl_def : forall prec emax (Hp : Prec_gt_0 prec) (Hpe : Prec_lt_emax prec emax) (g lambda : binary_float prec emax),
  exp_sample_fl prec emax Hp Hpe g lambda = src_exp_sample prec emax Hp Hpe g (src_exp_new_lambda_inverse prec emax Hp Hpe lambda).
Proof. reflexivity. Qed.

Theorem C07_exp_sample_fl_error : forall prec emax (Hp : Prec_gt_0 prec) (Hpe : Prec_lt_emax prec emax) (g lambda : binary_float prec emax),
  is_finite g = true -> is_finite lambda = true -> B2R lambda <> 0 ->
  Rabs (rnd prec emax (1 / B2R lambda)) < bpow radix2 emax ->
  Rabs (rnd prec emax (B2R g * rnd prec emax (1 / B2R lambda))) < bpow radix2 emax ->
  is_finite (exp_sample_fl prec emax Hp Hpe g lambda) = true /\
  Rabs (B2R (exp_sample_fl prec emax Hp Hpe g lambda) - B2R g / B2R lambda)
    <= (2 * u prec + u prec * u prec) * Rabs (B2R g / B2R lambda) + ((1 + u prec) * Rabs (B2R g) + 1) * eta prec emax.
Proof. exact exp_sample_fl_error. Qed.

(* C03 for Pareto's last step: a factor >= 1 never takes the sample below the scale (exactly) *)
Theorem C07_scale_fl_ge_scale : forall prec emax (Hp : Prec_gt_0 prec) (Hpe : Prec_lt_emax prec emax) (s g : binary_float prec emax),
  is_finite s = true -> is_finite g = true -> Rabs (rnd prec emax (B2R s * B2R g)) < bpow radix2 emax ->
  0 <= B2R s -> 1 <= B2R g -> B2R s <= B2R (scale_fl prec emax Hp Hpe s g).
Proof. exact scale_fl_ge_scale. Qed.

Print Assumptions C07_scale_fl_def.
Print Assumptions C07_scale_source.
Print Assumptions C07_scale_fl_value.
Print Assumptions C07_scale_fl_error.
Print Assumptions C07_scale_fl_comm_value.
Print Assumptions C07_scale_fl_nonneg.
Print Assumptions C07_scale_fl_monotone.
Print Assumptions C07_scale_fl_pow2.
Print Assumptions C07_recip_source.
Print Assumptions C07_recip_fl_value.
Print Assumptions C07_neg_recip_fl_value.
Print Assumptions C07_exp_sample_fl_def.
Print Assumptions C07_exp_sample_fl_error.
Print Assumptions C07_scale_fl_ge_scale.
