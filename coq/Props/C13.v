(* Props/C13.v — the single-draw samplers consume exactly one word and have the documented quantile
   transform (re-export of the C01 theorems the exhaustive enumeration relies on). Statements only. *)
From Coq Require Import Reals ZArith List.
From RD Require Import Base.Expr Base.Run Model.Sampler Model.Continuous Proofs.LawsInvCdf Proofs.LawsTriangular.
Import ListNotations.

Theorem C13_single_word_nil : forall t p1 p2 p3,
  cauchy t p1 p2 [] = Fail 1 /\ pareto t p1 p2 [] = Fail 1 /\ weibull t p1 p2 [] = Fail 1 /\
  gumbel t p1 p2 [] = Fail 1 /\ frechet t p1 p2 p3 [] = Fail 1 /\ triangular t p1 p2 p3 [] = Fail 1.
Proof. intros. repeat split; reflexivity. Qed.

Theorem C13_weibull_one_word : forall t p1 p2 w ws, weibull t p1 p2 (w :: ws) = Ret (weibull_expr t p1 p2 w, ws).
Proof. exact weibull_run. Qed.
Theorem C13_pareto_one_word : forall t p1 p2 w ws, pareto t p1 p2 (w :: ws) = Ret (pareto_expr t p1 p2 w, ws).
Proof. exact pareto_run. Qed.
Theorem C13_gumbel_one_word : forall t p1 p2 w ws, gumbel t p1 p2 (w :: ws) = Ret (gumbel_expr t p1 p2 w, ws).
Proof. exact gumbel_run. Qed.
Theorem C13_frechet_one_word : forall t p1 p2 p3 w ws, frechet t p1 p2 p3 (w :: ws) = Ret (frechet_expr t p1 p2 p3 w, ws).
Proof. exact frechet_run. Qed.
Theorem C13_cauchy_one_word : forall t p1 p2 w ws, cauchy t p1 p2 (w :: ws) = Ret (cauchy_expr t p1 p2 w, ws).
Proof. exact cauchy_run. Qed.

Print Assumptions C13_single_word_nil.
Print Assumptions C13_weibull_one_word.
Print Assumptions C13_pareto_one_word.
Print Assumptions C13_gumbel_one_word.
Print Assumptions C13_frechet_one_word.
Print Assumptions C13_cauchy_one_word.
