(* Props/C14_gen.v — the purity facts regenerated from the source on this run: every sampling method takes
   &self, #![forbid(unsafe_code)] is present, no interior-mutability / static-mut token occurs in src/.   *)
From Coq Require Import String List Bool.
From RD Require Import Model.Pure Gen.Sigs.
Import ListNotations.

Definition recv_ok (r : string * string * string * recv) : bool :=
  match r with (_, _, _, RefSelf) => true | (_, _, _, NoSelf) => true | _ => false end.

Theorem C14_purity_ok :
  pure_sigs forbid_unsafe_code (map recv_ok sample_receivers) interior_mutability_tokens statics = true.
Proof. vm_compute. reflexivity. Qed.

Theorem C14_samplers_listed : (30 <= length sample_receivers)%nat.
Proof. vm_compute. repeat constructor. Qed.

Print Assumptions C14_purity_ok.
Print Assumptions C14_samplers_listed.
