(* Props/C02.v — discrete samplers: the code the models were written against is the code in the tree
   (regenerated fingerprints). The pmf identities are in Props/C02_identities.v. Statements only. *)
From Coq Require Import ZArith.
Require RD.Gen.Consts RD.GenBase.Consts.
Open Scope Z_scope.

Theorem C02_fingerprints :
  Gen.Consts.fp_binomial__Binomial__new = GenBase.Consts.fp_binomial__Binomial__new /\
  Gen.Consts.fp_binomial__Binomial_Distribution_u64__sample = GenBase.Consts.fp_binomial__Binomial_Distribution_u64__sample /\
  Gen.Consts.fp_geometric__Geometric__new = GenBase.Consts.fp_geometric__Geometric__new /\
  Gen.Consts.fp_geometric__Geometric_Distribution_u64__sample = GenBase.Consts.fp_geometric__Geometric_Distribution_u64__sample /\
  Gen.Consts.fp_hypergeometric__Hypergeometric__new = GenBase.Consts.fp_hypergeometric__Hypergeometric__new /\
  Gen.Consts.fp_hypergeometric__Hypergeometric_Distribution_u64__sample = GenBase.Consts.fp_hypergeometric__Hypergeometric_Distribution_u64__sample /\
  Gen.Consts.fp_zeta__Zeta_Distribution__sample = GenBase.Consts.fp_zeta__Zeta_Distribution__sample /\
  Gen.Consts.fp_zipf__Zipf_Distribution__sample = GenBase.Consts.fp_zipf__Zipf_Distribution__sample /\
  Gen.Consts.fp_zipf__Zipf__inv_cdf = GenBase.Consts.fp_zipf__Zipf__inv_cdf /\
  Gen.Consts.fp_binomial____binv = GenBase.Consts.fp_binomial____binv /\
  Gen.Consts.fp_binomial____btpe = GenBase.Consts.fp_binomial____btpe /\
  Gen.Consts.fp_poisson__KnuthMethod_Distribution__sample = GenBase.Consts.fp_poisson__KnuthMethod_Distribution__sample /\
  Gen.Consts.fp_poisson__RejectionMethod_Distribution__sample = GenBase.Consts.fp_poisson__RejectionMethod_Distribution__sample /\
  Gen.Consts.fp_poisson__RejectionMethod__new = GenBase.Consts.fp_poisson__RejectionMethod__new.
Proof. repeat split; reflexivity. Qed.
Print Assumptions C02_fingerprints.
