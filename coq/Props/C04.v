(* Props/C04.v — every public constructor returns Err precisely when a documented error condition
   holds (with a variant whose documented condition is true), Ok otherwise, and never panics.
   Statements only; the proofs live in Proofs/Guard*.v.

   Vocabulary (all in Model/):
     Guards.<Ctor>_new ...        executable model of the constructor's validation logic
     GuardSpec.spec_<Ctor>_new    documented domain: MustOk | MustErr allowed | Unspecified
     GuardSpec.agrees r e         GOk agrees MustOk; GErr v agrees MustErr l when In v l; anything but
                                  GPanic agrees Unspecified; GPanic agrees with nothing
     GuardSpec.ext, ge1           value of a non-NaN float as an extended real / "x >= 1 or +inf"
                                  (only used to state the contracts on the libm parameters)
     GuardSpec.LN_known, hyper_known, is_u64   explicit decidable classes of KNOWN DEFECTS

   Theorems without suffix hold for every binary format (prec, emax), in particular binary32
   (24,128) and binary64 (53,1024); ...64 / ...32 are stated for the instance used by
   ctor64 / ctor32 (their proofs instantiate a format-generic theorem whose hypotheses are facts
   about literal constants, discharged by computation).                                          *)
From Coq Require Import ZArith List Bool String Reals.
From Flocq Require Import Core.Core IEEE754.Binary IEEE754.Bits IEEE754.BinarySingleNaN.
From RD Require Import Model.Guards Model.GuardSpec.
From RD Require Proofs.GuardProofs Proofs.GuardProofs2 Proofs.GuardProofs3 Proofs.GuardProofs4
                Proofs.GuardProofs5 Proofs.GuardProofs6 Proofs.GuardProofs7.
Import ListNotations.
Open Scope string_scope.
Open Scope Z_scope.

(* ---------- non-vacuity: the models and the specification evaluate ---------- *)
(* f64: 1.0 = 4607182418800017408, 2.0 = 4611686018427387904, NaN = 9221120237041090560 *)
Example C04_ex_Gamma_ok : ctor64 "Gamma::new" [4607182418800017408; 4611686018427387904] = Some GOk.
Proof. vm_compute. reflexivity. Qed.
Example C04_ex_Gamma_nan :
  ctor64 "Gamma::new" [9221120237041090560; 4607182418800017408] = Some (GErr "ShapeTooSmall").
Proof. vm_compute. reflexivity. Qed.
Example C04_ex_Gamma32_ok : ctor32 "Gamma::new" [1065353216; 1073741824] = Some GOk.
Proof. vm_compute. reflexivity. Qed.
(* the smallest subnormal is rejected by ChiSquared::new, as documented (0.5 * k <= 0) *)
Example C04_ex_ChiSquared_subnormal : ctor64 "ChiSquared::new" [1] = Some (GErr "DoFTooSmall").
Proof. vm_compute. reflexivity. Qed.
Example C04_ex_Poisson_max :
  ctor64 "Poisson::new" [4895409501946988160] = Some GOk /\
  ctor64 "Poisson::new" [4895409501946988161] = Some (GErr "ShapeTooLarge").
Proof. split; vm_compute; reflexivity. Qed.
Example C04_ex_Dirichlet :
  ctor64 "Dirichlet::new" [4607182418800017408; 4607182418800017408; 4611686018427387904] = Some GOk /\
  ctor64 "Dirichlet::new" [4607182418800017408; 1] = Some (GErr "AlphaSubnormal") /\
  ctor64 "Dirichlet::new" [4607182418800017408] = Some (GErr "AlphaTooShort").
Proof. repeat split; vm_compute; reflexivity. Qed.
Example C04_ex_Binomial : ctor64 "Binomial::new" [18446744073709551615; 4602678819172646912] = Some GOk.
Proof. vm_compute. reflexivity. Qed.
Example C04_ex_unknown : ctor64 "Nope::new" [0] = None.
Proof. vm_compute. reflexivity. Qed.
(* KNOWN DEFECTS reproduced by the model (debug-build semantics) *)
Example C04_ex_Hypergeometric_panics :
  ctor64 "Hypergeometric::new" [18446744073709551615; 18446744073709551615; 18446744073709551615] = Some GPanic /\
  ctor64 "Hypergeometric::new" [18446744073709551615; 18446744073709551614; 9223372036854775808] = Some GPanic /\
  ctor64 "Hypergeometric::new" [18446744073709551615; 5; 5] = Some GOk.
Proof. repeat split; vm_compute; reflexivity. Qed.
(* LogNormal::from_mean_cv(1.0, 1e200): documented Ok, Err(BadVariance) returned *)
Example C04_ex_LogNormal_cv_overflow :
  ctor64 "LogNormal::from_mean_cv" [4607182418800017408; 7598807758576447066] = Some (GErr "BadVariance") /\
  spec_LogNormal_from_mean_cv 53 1024 (dec64 4607182418800017408) (dec64 7598807758576447066) = MustOk.
Proof. split; vm_compute; reflexivity. Qed.
(* the specification is executable too *)
Example C04_ex_spec :
  spec_Gamma_new 53 1024 (dec64 9221120237041090560) (dec64 4607182418800017408) = MustErr ["ShapeTooSmall"] /\
  agreesb (GErr "ShapeTooSmall") (MustErr ["ShapeTooSmall"]) = true /\
  agreesb GPanic Unspecified = false.
Proof. repeat split; vm_compute; reflexivity. Qed.

Print Assumptions C04_ex_Gamma_ok.

(* ---------- validation by comparisons / classification only: every format ---------- *)
Theorem C04_Normal_new_sound :
  forall (prec emax : Z) (Hp : Prec_gt_0 prec) (Hpe : Prec_lt_emax prec emax)
         (mean std_dev : binary_float prec emax),
  agrees (Normal_new prec emax mean std_dev) (spec_Normal_new prec emax mean std_dev).
Proof. exact GuardProofs.Normal_new_sound. Qed.
Print Assumptions C04_Normal_new_sound.

Theorem C04_Normal_from_mean_cv_sound :
  forall (prec emax : Z) (Hp : Prec_gt_0 prec) (Hpe : Prec_lt_emax prec emax)
         (mean cv : binary_float prec emax),
  agrees (Normal_from_mean_cv prec emax mean cv) (spec_Normal_from_mean_cv prec emax mean cv).
Proof. exact GuardProofs.Normal_from_mean_cv_sound. Qed.
Print Assumptions C04_Normal_from_mean_cv_sound.

Theorem C04_LogNormal_new_sound :
  forall (prec emax : Z) (Hp : Prec_gt_0 prec) (Hpe : Prec_lt_emax prec emax)
         (mu sigma : binary_float prec emax),
  agrees (LogNormal_new prec emax mu sigma) (spec_LogNormal_new prec emax mu sigma).
Proof. exact GuardProofs.LogNormal_new_sound. Qed.
Print Assumptions C04_LogNormal_new_sound.

Theorem C04_Exp_new_sound :
  forall (prec emax : Z) (lambda : binary_float prec emax),
  agrees (Exp_new prec emax lambda) (spec_Exp_new prec emax lambda).
Proof. exact GuardProofs.Exp_new_sound. Qed.
Print Assumptions C04_Exp_new_sound.

(* includes: the two `Exp::new(..).unwrap()` inside Gamma::new never panic *)
Theorem C04_Gamma_new_sound :
  forall (prec emax : Z) (Hp : Prec_gt_0 prec) (Hpe : Prec_lt_emax prec emax)
         (shape scale : binary_float prec emax),
  agrees (Gamma_new prec emax Hp Hpe shape scale) (spec_Gamma_new prec emax shape scale).
Proof. exact GuardProofs.Gamma_new_sound. Qed.
Print Assumptions C04_Gamma_new_sound.

Theorem C04_Beta_new_sound :
  forall (prec emax : Z) (Hp : Prec_gt_0 prec) (Hpe : Prec_lt_emax prec emax)
         (alpha beta : binary_float prec emax),
  agrees (Beta_new prec emax alpha beta) (spec_Beta_new prec emax alpha beta).
Proof. exact GuardProofs.Beta_new_sound. Qed.
Print Assumptions C04_Beta_new_sound.

Theorem C04_Triangular_new_sound :
  forall (prec emax : Z) (Hp : Prec_gt_0 prec) (Hpe : Prec_lt_emax prec emax)
         (min max mode : binary_float prec emax),
  agrees (Triangular_new prec emax min max mode) (spec_Triangular_new prec emax min max mode).
Proof. exact GuardProofs.Triangular_new_sound. Qed.
Print Assumptions C04_Triangular_new_sound.

Theorem C04_Cauchy_new_sound :
  forall (prec emax : Z) (Hp : Prec_gt_0 prec) (Hpe : Prec_lt_emax prec emax)
         (median scale : binary_float prec emax),
  agrees (Cauchy_new prec emax median scale) (spec_Cauchy_new prec emax median scale).
Proof. exact GuardProofs.Cauchy_new_sound. Qed.
Print Assumptions C04_Cauchy_new_sound.

Theorem C04_Pareto_new_sound :
  forall (prec emax : Z) (Hp : Prec_gt_0 prec) (Hpe : Prec_lt_emax prec emax)
         (scale shape : binary_float prec emax),
  agrees (Pareto_new prec emax scale shape) (spec_Pareto_new prec emax scale shape).
Proof. exact GuardProofs.Pareto_new_sound. Qed.
Print Assumptions C04_Pareto_new_sound.

Theorem C04_Weibull_new_sound :
  forall (prec emax : Z) (Hp : Prec_gt_0 prec) (Hpe : Prec_lt_emax prec emax)
         (scale shape : binary_float prec emax),
  agrees (Weibull_new prec emax scale shape) (spec_Weibull_new prec emax scale shape).
Proof. exact GuardProofs.Weibull_new_sound. Qed.
Print Assumptions C04_Weibull_new_sound.

Theorem C04_InverseGaussian_new_sound :
  forall (prec emax : Z) (Hp : Prec_gt_0 prec) (Hpe : Prec_lt_emax prec emax)
         (mean shape : binary_float prec emax),
  agrees (InverseGaussian_new prec emax mean shape) (spec_InverseGaussian_new prec emax mean shape).
Proof. exact GuardProofs.InverseGaussian_new_sound. Qed.
Print Assumptions C04_InverseGaussian_new_sound.

Theorem C04_Gumbel_new_sound :
  forall (prec emax : Z) (Hp : Prec_gt_0 prec) (Hpe : Prec_lt_emax prec emax)
         (location scale : binary_float prec emax),
  agrees (Gumbel_new prec emax location scale) (spec_Gumbel_new prec emax location scale).
Proof. exact GuardProofs.Gumbel_new_sound. Qed.
Print Assumptions C04_Gumbel_new_sound.

Theorem C04_Frechet_new_sound :
  forall (prec emax : Z) (Hp : Prec_gt_0 prec) (Hpe : Prec_lt_emax prec emax)
         (location scale shape : binary_float prec emax),
  agrees (Frechet_new prec emax location scale shape) (spec_Frechet_new prec emax location scale shape).
Proof. exact GuardProofs.Frechet_new_sound. Qed.
Print Assumptions C04_Frechet_new_sound.

Theorem C04_SkewNormal_new_sound :
  forall (prec emax : Z) (Hp : Prec_gt_0 prec) (Hpe : Prec_lt_emax prec emax)
         (location scale shape : binary_float prec emax),
  agrees (SkewNormal_new prec emax location scale shape)
         (spec_SkewNormal_new prec emax location scale shape).
Proof. exact GuardProofs.SkewNormal_new_sound. Qed.
Print Assumptions C04_SkewNormal_new_sound.

Theorem C04_Zeta_new_sound :
  forall (prec emax : Z) (Hp : Prec_gt_0 prec) (Hpe : Prec_lt_emax prec emax)
         (s : binary_float prec emax),
  agrees (Zeta_new prec emax Hp Hpe s) (spec_Zeta_new prec emax Hp Hpe s).
Proof. exact GuardProofs.Zeta_new_sound. Qed.
Print Assumptions C04_Zeta_new_sound.

(* validation part of Geometric::new (the squaring loop that follows is a termination question) *)
Theorem C04_Geometric_new_sound :
  forall (prec emax : Z) (Hp : Prec_gt_0 prec) (Hpe : Prec_lt_emax prec emax)
         (p : binary_float prec emax),
  agrees (Geometric_new prec emax Hp Hpe p) (spec_Geometric_new prec emax Hp Hpe p).
Proof. exact GuardProofs.Geometric_new_sound. Qed.
Print Assumptions C04_Geometric_new_sound.

(* ---------- one rounded operation with a constant feeds the decision ---------- *)
(* includes: `Gamma::new(0.5 * k, 2.0).unwrap()` never panics *)
Theorem C04_ChiSquared_new_sound64 :
  forall k : f64,
  agrees (ChiSquared_new 53 1024 Hp64 Hpe64 k) (spec_ChiSquared_new 53 1024 Hp64 Hpe64 k).
Proof. exact GuardProofs2.ChiSquared_new_sound64. Qed.
Print Assumptions C04_ChiSquared_new_sound64.
Theorem C04_ChiSquared_new_sound32 :
  forall k : f32,
  agrees (ChiSquared_new 24 128 Hp32 Hpe32 k) (spec_ChiSquared_new 24 128 Hp32 Hpe32 k).
Proof. exact GuardProofs2.ChiSquared_new_sound32. Qed.
Print Assumptions C04_ChiSquared_new_sound32.

Theorem C04_StudentT_new_sound64 :
  forall nu : f64,
  agrees (StudentT_new 53 1024 Hp64 Hpe64 nu) (spec_StudentT_new 53 1024 Hp64 Hpe64 nu).
Proof. exact GuardProofs2.StudentT_new_sound64. Qed.
Print Assumptions C04_StudentT_new_sound64.
Theorem C04_StudentT_new_sound32 :
  forall nu : f32,
  agrees (StudentT_new 24 128 Hp32 Hpe32 nu) (spec_StudentT_new 24 128 Hp32 Hpe32 nu).
Proof. exact GuardProofs2.StudentT_new_sound32. Qed.
Print Assumptions C04_StudentT_new_sound32.

Theorem C04_FisherF_new_sound64 :
  forall m n : f64,
  agrees (FisherF_new 53 1024 Hp64 Hpe64 m n) (spec_FisherF_new 53 1024 Hp64 Hpe64 m n).
Proof. exact GuardProofs2.FisherF_new_sound64. Qed.
Print Assumptions C04_FisherF_new_sound64.
Theorem C04_FisherF_new_sound32 :
  forall m n : f32,
  agrees (FisherF_new 24 128 Hp32 Hpe32 m n) (spec_FisherF_new 24 128 Hp32 Hpe32 m n).
Proof. exact GuardProofs2.FisherF_new_sound32. Qed.
Print Assumptions C04_FisherF_new_sound32.

(* ShapeTooLarge exactly when lambda > 1.844e19 as a real number, although the f32 code compares
   with fl32(1.844e19) < 1.844e19 *)
Theorem C04_Poisson_new_sound64 :
  forall lambda : f64,
  agrees (Poisson_new 53 1024 Hp64 Hpe64 lambda) (spec_Poisson_new 53 1024 lambda).
Proof. exact GuardProofs2.Poisson_new_sound64. Qed.
Print Assumptions C04_Poisson_new_sound64.
Theorem C04_Poisson_new_sound32 :
  forall lambda : f32,
  agrees (Poisson_new 24 128 Hp32 Hpe32 lambda) (spec_Poisson_new 24 128 lambda).
Proof. exact GuardProofs2.Poisson_new_sound32. Qed.
Print Assumptions C04_Poisson_new_sound32.

(* ---------- rounded arithmetic on the arguments feeds the decision ---------- *)
(* includes: `unreachable!()` is unreachable; inside the documented domain mu = 1/gamma > 0 *)
Theorem C04_NormalInverseGaussian_new_sound :
  forall (prec emax : Z) (Hp : Prec_gt_0 prec) (Hpe : Prec_lt_emax prec emax),
  3 <= prec ->
  forall alpha beta : binary_float prec emax,
  agrees (NormalInverseGaussian_new prec emax Hp Hpe alpha beta)
         (spec_NormalInverseGaussian_new prec emax alpha beta).
Proof. exact GuardProofs3.NormalInverseGaussian_new_sound. Qed.
Print Assumptions C04_NormalInverseGaussian_new_sound.
Theorem C04_NormalInverseGaussian_new_sound64 :
  forall alpha beta : f64,
  agrees (NormalInverseGaussian_new 53 1024 Hp64 Hpe64 alpha beta)
         (spec_NormalInverseGaussian_new 53 1024 alpha beta).
Proof. exact GuardProofs6.NormalInverseGaussian_new_sound64. Qed.
Print Assumptions C04_NormalInverseGaussian_new_sound64.
Theorem C04_NormalInverseGaussian_new_sound32 :
  forall alpha beta : f32,
  agrees (NormalInverseGaussian_new 24 128 Hp32 Hpe32 alpha beta)
         (spec_NormalInverseGaussian_new 24 128 alpha beta).
Proof. exact GuardProofs6.NormalInverseGaussian_new_sound32. Qed.
Print Assumptions C04_NormalInverseGaussian_new_sound32.

(* includes: with a finite range and shape, Beta::new(v, w) cannot fail inside the documented domain *)
Theorem C04_Pert_with_mode_sound :
  forall (prec emax : Z) (Hp : Prec_gt_0 prec) (Hpe : Prec_lt_emax prec emax)
         (min max shape mode : binary_float prec emax),
  agrees (Pert_with_mode prec emax Hp Hpe min max shape mode)
         (spec_Pert_with_mode prec emax Hp Hpe min max shape mode).
Proof. exact GuardProofs3.Pert_with_mode_sound. Qed.
Print Assumptions C04_Pert_with_mode_sound.

Theorem C04_Pert_with_mean_sound :
  forall (prec emax : Z) (Hp : Prec_gt_0 prec) (Hpe : Prec_lt_emax prec emax)
         (min max shape mean : binary_float prec emax),
  agrees (Pert_with_mean prec emax Hp Hpe min max shape mean)
         (spec_Pert_with_mean prec emax Hp Hpe min max shape mean).
Proof. exact GuardProofs3.Pert_with_mean_sound. Qed.
Print Assumptions C04_Pert_with_mean_sound.

(* every n : u64; the assertion inside f64_to_u64 cannot fail (Binomial exists for f64 only) *)
Theorem C04_Binomial_new_sound64 :
  forall (n : Z) (p : f64),
  0 <= n <= u64_max ->
  agrees (Binomial_new 53 1024 Hp64 Hpe64 n p) (spec_Binomial_new 53 1024 Hp64 Hpe64 n p).
Proof. exact GuardProofs6.Binomial_new_sound64. Qed.
Print Assumptions C04_Binomial_new_sound64.

(* any length; FailedToCreateGamma / FailedToCreateBeta are unreachable *)
Theorem C04_Dirichlet_new_sound :
  forall (prec emax : Z) (Hp : Prec_gt_0 prec) (Hpe : Prec_lt_emax prec emax)
         (alpha : list (binary_float prec emax)),
  agrees (Dirichlet_new prec emax Hp Hpe alpha) (spec_Dirichlet_new prec emax Hp Hpe alpha).
Proof. exact GuardProofs4.Dirichlet_new_sound. Qed.
Print Assumptions C04_Dirichlet_new_sound.

(* ---------- libm feeds the decision: stated under an explicit contract ---------- *)
(* Zipf::new: under the contract on powf and ln, `debug_assert!(t > 0)` cannot fail
   (debug = true) and the errors are the documented ones (both build modes). *)
Theorem C04_Zipf_new_sound :
  forall (prec emax : Z) (Hp : Prec_gt_0 prec) (Hpe : Prec_lt_emax prec emax),
  3 <= prec ->
  forall (powf_f : binary_float prec emax -> binary_float prec emax -> binary_float prec emax)
         (ln_f : binary_float prec emax -> binary_float prec emax),
  (forall x y : binary_float prec emax, ge1 prec emax x -> is_finite y = true -> (0 < B2R y)%R ->
     is_nan (powf_f x y) = false /\ (1 <= ext prec emax (powf_f x y))%R) ->
  (forall x y : binary_float prec emax, ge1 prec emax x -> is_finite y = true -> (B2R y < 0)%R ->
     is_nan (powf_f x y) = false /\ (0 <= ext prec emax (powf_f x y) <= 1)%R) ->
  (forall x : binary_float prec emax, is_finite x = true -> (1 <= B2R x)%R ->
     is_nan (ln_f x) = false /\ (0 <= ext prec emax (ln_f x))%R) ->
  forall (debug : bool) (n s : binary_float prec emax),
  agrees (Zipf_new_gen prec emax Hp Hpe debug powf_f ln_f n s) (spec_Zipf_new prec emax Hp Hpe n s).
Proof. exact GuardProofs7.Zipf_new_sound. Qed.
Print Assumptions C04_Zipf_new_sound.

(* LogNormal::from_mean_cv (with the fix of F1: mean tested inside the `cv == 0` branch):
   sound outside the decidable class LN_known (cv finite but 1 + cv*cv = +inf) ... *)
Theorem C04_LogNormal_from_mean_cv_sound_except :
  forall (prec emax : Z) (Hp : Prec_gt_0 prec) (Hpe : Prec_lt_emax prec emax)
         (ln_f : binary_float prec emax -> binary_float prec emax),
  (forall a : binary_float prec emax, is_finite a = true -> (1 <= B2R a)%R ->
     is_finite (ln_f a) = true /\ (0 <= B2R (ln_f a))%R) ->
  ln_f (pinf prec emax) = pinf prec emax ->
  forall mean cv : binary_float prec emax,
  LN_known prec emax Hp Hpe cv = false ->
  agrees (LogNormal_from_mean_cv prec emax Hp Hpe ln_f mean cv)
         (spec_LogNormal_from_mean_cv prec emax mean cv).
Proof. exact GuardProofs5.LogNormal_from_mean_cv_sound_except. Qed.
Print Assumptions C04_LogNormal_from_mean_cv_sound_except.

(* ... and REFUTED on it: mean = 1.0, cv = 1e200 (f64) / 1e20 (f32) *)
Theorem C04_LogNormal_from_mean_cv_refuted64 :
  forall ln_f : f64 -> f64, ln_f (pinf 53 1024) = pinf 53 1024 ->
  exists mean cv : f64,
    ~ agrees (LogNormal_from_mean_cv 53 1024 Hp64 Hpe64 ln_f mean cv)
             (spec_LogNormal_from_mean_cv 53 1024 mean cv).
Proof. exact GuardProofs5.LogNormal_from_mean_cv_refuted64. Qed.
Print Assumptions C04_LogNormal_from_mean_cv_refuted64.
Theorem C04_LogNormal_from_mean_cv_refuted32 :
  forall ln_f : f32 -> f32, ln_f (pinf 24 128) = pinf 24 128 ->
  exists mean cv : f32,
    ~ agrees (LogNormal_from_mean_cv 24 128 Hp32 Hpe32 ln_f mean cv)
             (spec_LogNormal_from_mean_cv 24 128 mean cv).
Proof. exact GuardProofs5.LogNormal_from_mean_cv_refuted32. Qed.
Print Assumptions C04_LogNormal_from_mean_cv_refuted32.

(* `Normal::new(mu, 0).unwrap()` never panics, for any libm *)
Theorem C04_LogNormal_from_mean_cv_no_panic :
  forall (prec emax : Z) (Hp : Prec_gt_0 prec) (Hpe : Prec_lt_emax prec emax)
         (ln_f : binary_float prec emax -> binary_float prec emax)
         (mean cv : binary_float prec emax),
  LogNormal_from_mean_cv prec emax Hp Hpe ln_f mean cv <> GPanic.
Proof. exact GuardProofs5.LogNormal_from_mean_cv_no_panic. Qed.
Print Assumptions C04_LogNormal_from_mean_cv_no_panic.

(* the code before the fix of F1 (no mean test when cv == 0) accepted (mean, cv) = (-1.0, 0.0) *)
Theorem C04_LogNormal_from_mean_cv_unfixed_refuted64 :
  forall ln_f : f64 -> f64,
  exists mean cv : f64,
    ~ agrees (LogNormal_from_mean_cv_gen 53 1024 Hp64 Hpe64 true ln_f mean cv)
             (spec_LogNormal_from_mean_cv 53 1024 mean cv).
Proof. exact GuardProofs5.LogNormal_from_mean_cv_unfixed_refuted64. Qed.
Print Assumptions C04_LogNormal_from_mean_cv_unfixed_refuted64.

(* ---------- integer arguments ---------- *)
(* Hypergeometric::new (with the fix of F2: m computed in floating point).  For all u64 triples:
   the documented errors are returned for K > N and n > N, and otherwise the constructor does not
   panic — in a release build always, in a debug build outside the decidable class hyper_known.
   `None` = the model refused to run more than `cap` iterations of the factorial loop.           *)
Theorem C04_Hypergeometric_new_sound_except :
  forall (prec emax : Z) (Hp : Prec_gt_0 prec) (Hpe : Prec_lt_emax prec emax)
         (debug : bool) (cap N K n : Z),
  is_u64 N -> is_u64 K -> is_u64 n ->
  (debug = true -> hyper_known N K n = false) ->
  match Hypergeometric_new_gen prec emax Hp Hpe debug cap N K n with
  | Some r => agrees r (spec_Hypergeometric_new N K n)
  | None => True
  end.
Proof. exact GuardProofs5.Hypergeometric_new_sound_except. Qed.
Print Assumptions C04_Hypergeometric_new_sound_except.

(* REFUTED inside hyper_known (debug build); GPanic agrees with nothing. *)
Theorem C04_Hypergeometric_new_refuted :
  exists N K n r, is_u64 N /\ is_u64 K /\ is_u64 n /\
    Hypergeometric_new_gen 53 1024 Hp64 Hpe64 true hyper_cap N K n = Some r /\
    ~ agrees r (spec_Hypergeometric_new N K n).
Proof. exact GuardProofs6.Hypergeometric_new_refuted. Qed.
Print Assumptions C04_Hypergeometric_new_refuted.
(* the two witnesses: new(MAX, MAX, MAX) overflows `min_all + 1` (u64);
   new(MAX, MAX - 1, 2^63) overflows `offset_x += n1 as i64 * sign_x` (i64) *)
Theorem C04_Hypergeometric_new_witness_min_all :
  hyper_known2 18446744073709551615 18446744073709551615 18446744073709551615 = true /\
  Hypergeometric_new_gen 53 1024 Hp64 Hpe64 true hyper_cap
    18446744073709551615 18446744073709551615 18446744073709551615 = Some GPanic.
Proof. exact GuardProofs6.Hypergeometric_new_witness_min_all. Qed.
Print Assumptions C04_Hypergeometric_new_witness_min_all.
Theorem C04_Hypergeometric_new_witness_offset :
  hyper_known1 18446744073709551615 (18446744073709551615 - 1) 9223372036854775808 = true /\
  Hypergeometric_new_gen 53 1024 Hp64 Hpe64 true hyper_cap
    18446744073709551615 (18446744073709551615 - 1) 9223372036854775808 = Some GPanic.
Proof. exact GuardProofs6.Hypergeometric_new_witness_offset. Qed.
Print Assumptions C04_Hypergeometric_new_witness_offset.
(* every valid triple of the class known1 panics in a debug build *)
Theorem C04_Hypergeometric_new_known1_panics :
  forall (prec emax : Z) (Hp : Prec_gt_0 prec) (Hpe : Prec_lt_emax prec emax) (cap N K n : Z),
  is_u64 N -> is_u64 K -> is_u64 n -> hyper_known1 N K n = true ->
  Hypergeometric_new_gen prec emax Hp Hpe true cap N K n = Some GPanic.
Proof. exact GuardProofs6.Hypergeometric_new_known1_panics. Qed.
Print Assumptions C04_Hypergeometric_new_known1_panics.
Theorem C04_GPanic_never_agrees : forall e : expect, ~ agrees GPanic e.
Proof. exact GuardProofs6.GPanic_never_agrees. Qed.
Print Assumptions C04_GPanic_never_agrees.
