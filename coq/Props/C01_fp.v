(* Props/C01_fp.v — the source functions this property's hand models were written against are unchanged in the tree:
   regenerated fingerprints (Gen/Consts.v, rewritten by tools/rs2coq.py on every run) = fingerprints of the modelled tree (GenBase). *)
From Coq Require Import String ZArith List Bool.
From RD Require Import Base.Fp.
Require RD.Gen.Consts RD.GenBase.Consts.
Import ListNotations.
Open Scope string_scope.

Definition C01_files : list string := ["normal"; "exponential"; "gamma"; "chi_squared"; "student_t"; "fisher_f"; "beta"; "pert"; "triangular"; "cauchy"; "pareto"; "weibull"; "gumbel"; "frechet"; "skew_normal"; "inverse_gaussian"; "normal_inverse_gaussian"; "utils"].

Theorem C01_fingerprints :
  fps_of C01_files Gen.Consts.all_fps = fps_of C01_files GenBase.Consts.all_fps.
Proof. apply fp_eqb_eq. vm_compute. reflexivity. Qed.

Theorem C01_fingerprints_nonempty : (1 <= length (fps_of C01_files GenBase.Consts.all_fps))%nat.
Proof. vm_compute. repeat constructor. Qed.

Print Assumptions C01_fingerprints.
Print Assumptions C01_fingerprints_nonempty.
