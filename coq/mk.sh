#!/bin/bash
# usage: mk.sh <targets...> — make under the same lock the checks use; prints errors only
cd /verif/coq
flock /verif/build/coq.lock sh -c "coq_makefile -f _CoqProject -o Makefile >/dev/null 2>&1; timeout ${MKT:-1200} make -j8 $* 2>&1" > /tmp/mk.out
grep -B3 -A14 '^Error' /tmp/mk.out | head -${MKN:-60}
grep -q '^Error\|\*\*\*' /tmp/mk.out && echo "MAKE FAILED" || echo "MAKE OK"
