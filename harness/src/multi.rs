//! Vector-valued samplers on a scripted word stream.
//! line:   multi <family> <f32|f64> <params hex bits comma separated|-> <seedhex> <hexwords|->
//! families: unitcircle unitdisc unitsphere unitball (no params), dirichlet (params = alpha bits)
//! output: `<x+hexbits>,<x+hexbits>,...:<words consumed>` | E:<ctor error Debug> | ctorpanic | panic
//!         for dirichlet a second field after '|': the result of `sample_to_slice` into a fresh
//!         buffer on a clone of the (unread) stream, same format.
use crate::rng::{ScriptRng, parse_words};
use crate::samp::FB;
use rand_distr::multi::{Dirichlet, MultiDistribution};
use rand_distr::uniform::SampleUniform;
use rand_distr::*;
use std::panic::{AssertUnwindSafe, catch_unwind};

fn show<F: FB>(v: &[F], count: u64) -> String {
    let parts: Vec<String> = v.iter().map(|x| x.hex()).collect();
    format!("{}:{}", parts.join(","), count)
}

fn arr<F: FB, const N: usize, D: Distribution<[F; N]>>(d: &D, rng: &mut ScriptRng) -> String {
    match catch_unwind(AssertUnwindSafe(|| d.sample(rng))) {
        Ok(v) => show(&v[..], rng.count),
        Err(_) => "panic".to_string(),
    }
}

fn dirichlet<F: FB + Default>(p: &[F], rng: &mut ScriptRng) -> String
where
    StandardNormal: Distribution<F>,
    Exp1: Distribution<F>,
    Open01: Distribution<F>,
{
    let d = match catch_unwind(AssertUnwindSafe(|| Dirichlet::<F>::new(p))) {
        Ok(Ok(d)) => d,
        Ok(Err(e)) => return format!("E:{:?}", e),
        Err(_) => return "ctorpanic".to_string(),
    };
    let mut rng2 = rng.clone();
    let first = match catch_unwind(AssertUnwindSafe(|| {
        let v: Vec<F> = d.sample(rng);
        v
    })) {
        Ok(v) => show(&v[..], rng.count),
        Err(_) => "panic".to_string(),
    };
    let second = match catch_unwind(AssertUnwindSafe(|| {
        let mut buf: Vec<F> = vec![F::zero(); d.sample_len()];
        d.sample_to_slice(&mut rng2, &mut buf[..]);
        buf
    })) {
        Ok(v) => show(&v[..], rng2.count),
        Err(_) => "panic".to_string(),
    };
    format!("{}|{}", first, second)
}

pub fn run<F: FB + Default + SampleUniform>(family: &str, ps: &[&str], rng: &mut ScriptRng) -> String
where
    StandardNormal: Distribution<F>,
    Exp1: Distribution<F>,
    Open01: Distribution<F>,
{
    match family {
        "unitcircle" => arr::<F, 2, _>(&UnitCircle, rng),
        "unitdisc" => arr::<F, 2, _>(&UnitDisc, rng),
        "unitsphere" => arr::<F, 3, _>(&UnitSphere, rng),
        "unitball" => arr::<F, 3, _>(&UnitBall, rng),
        "dirichlet" => {
            let p: Vec<F> = ps.iter().map(|s| F::from_hex(s)).collect();
            dirichlet::<F>(&p, rng)
        }
        other => format!("badfamily:{}", other),
    }
}

pub fn line(toks: &[&str]) -> String {
    if toks.len() < 5 {
        return "badline".to_string();
    }
    let family = toks[1];
    let ty = toks[2];
    let ps: Vec<&str> = if toks[3] == "-" { vec![] } else { toks[3].split(',').collect() };
    let seed = u64::from_str_radix(toks[4], 16).expect("seed");
    let words = parse_words(toks.get(5).copied().unwrap_or("-"));
    let mut rng = ScriptRng::new(words, seed);
    match ty {
        "f32" => run::<f32>(family, &ps, &mut rng),
        "f64" => run::<f64>(family, &ps, &mut rng),
        other => format!("badtype:{}", other),
    }
}
