//! Vector-valued samplers on a scripted word stream.
//! line:   multi <family> <f32|f64> <params hex bits comma separated|-> <seedhex> <hexwords|->
//! families: unitcircle unitdisc unitsphere unitball (no params), dirichlet (params = alpha bits)
//! output: `<x+hexbits>,<x+hexbits>,...:<words consumed>` | E:<ctor error Debug> | ctorpanic | panic
//!         for dirichlet a second field after '|': the result of `sample_to_slice` into a fresh
//!         buffer on a clone of the (unread) stream, same format.
use crate::rng::{ScriptRng, parse_words};
use crate::samp::FB;
use rand_distr::multi::{Dirichlet, MultiDistribution};
use rand_distr::uniform::SampleUniform;
use rand_distr::*;
use std::panic::{AssertUnwindSafe, catch_unwind};

fn show<F: FB>(v: &[F], count: u64) -> String {
    let parts: Vec<String> = v.iter().map(|x| x.hex()).collect();
    format!("{}:{}", parts.join(","), count)
}

fn arr<F: FB, const N: usize, D: Distribution<[F; N]>>(d: &D, rng: &mut ScriptRng) -> String {
    match catch_unwind(AssertUnwindSafe(|| d.sample(rng))) {
        Ok(v) => show(&v[..], rng.count),
        Err(_) => "panic".to_string(),
    }
}

fn dirichlet<F: FB + Default>(p: &[F], rng: &mut ScriptRng) -> String
where
    StandardNormal: Distribution<F>,
    Exp1: Distribution<F>,
    Open01: Distribution<F>,
{
    let d = match catch_unwind(AssertUnwindSafe(|| Dirichlet::<F>::new(p))) {
        Ok(Ok(d)) => d,
        Ok(Err(e)) => return format!("E:{:?}", e),
        Err(_) => return "ctorpanic".to_string(),
    };
    let mut rng2 = rng.clone();
    let first = match catch_unwind(AssertUnwindSafe(|| {
        let v: Vec<F> = d.sample(rng);
        v
    })) {
        Ok(v) => show(&v[..], rng.count),
        Err(_) => "panic".to_string(),
    };
    let second = match catch_unwind(AssertUnwindSafe(|| {
        // a REUSED buffer: pre-filled with a value no sample can contain, so stale slots are visible
        let mut buf: Vec<F> = vec![F::from(7.0).unwrap(); d.sample_len()];
        d.sample_to_slice(&mut rng2, &mut buf[..]);
        buf
    })) {
        Ok(v) => show(&v[..], rng2.count),
        Err(_) => "panic".to_string(),
    };
    format!("{}|{}", first, second)
}

pub fn run<F: FB + Default + SampleUniform>(family: &str, ps: &[&str], rng: &mut ScriptRng) -> String
where
    StandardNormal: Distribution<F>,
    Exp1: Distribution<F>,
    Open01: Distribution<F>,
{
    match family {
        "unitcircle" => arr::<F, 2, _>(&UnitCircle, rng),
        "unitdisc" => arr::<F, 2, _>(&UnitDisc, rng),
        "unitsphere" => arr::<F, 3, _>(&UnitSphere, rng),
        "unitball" => arr::<F, 3, _>(&UnitBall, rng),
        "dirichlet" => {
            let p: Vec<F> = ps.iter().map(|s| F::from_hex(s)).collect();
            dirichlet::<F>(&p, rng)
        }
        other => format!("badfamily:{}", other),
    }
}

pub fn line(toks: &[&str]) -> String {
    if toks.len() < 5 {
        return "badline".to_string();
    }
    let family = toks[1];
    let ty = toks[2];
    let ps: Vec<&str> = if toks[3] == "-" { vec![] } else { toks[3].split(',').collect() };
    let seed = u64::from_str_radix(toks[4], 16).expect("seed");
    let words = parse_words(toks.get(5).copied().unwrap_or("-"));
    let mut rng = ScriptRng::new(words, seed);
    match ty {
        "f32" => run::<f32>(family, &ps, &mut rng),
        "f64" => run::<f64>(family, &ps, &mut rng),
        other => format!("badtype:{}", other),
    }
}


/// manyv: n seeded samples of a vector sampler; norm / simplex predicate on each (property C12 / C11 bulk oracle)
/// `manyv <family> <f32|f64> <params|-> <seedhex> <n>` -> `n=.. bad=.. nan=.. maxdev=<ulp> first=<seed:values>`
pub fn manyv(toks: &[&str]) -> String {
    fn go<F: FB + Default + SampleUniform>(family: &str, ps: &[&str], seed: u64, n: u64) -> String
    where
        StandardNormal: Distribution<F>, Exp1: Distribution<F>, Open01: Distribution<F>,
    {
        let eps = F::epsilon().to64();
        let p: Vec<F> = ps.iter().map(|s| F::from_hex(s)).collect();
        let dir = if family == "dirichlet" { match Dirichlet::new(&p) { Ok(d) => Some(d), Err(e) => return format!("E:{:?}", e) } } else { None };
        let (mut bad, mut nan, mut maxdev) = (0u64, 0u64, 0f64);
        let mut first: Option<String> = None;
        let mut st = seed;
        for _ in 0..n {
            st = st.wrapping_add(0x9E3779B97F4A7C15);
            let mut rng = ScriptRng::new(vec![], st);
            rng.limit = 1_000_000;
            let v: Vec<f64> = match family {
                "unitcircle" => { let a: [F; 2] = UnitCircle.sample(&mut rng); a.iter().map(|x| x.to64()).collect() }
                "unitdisc" => { let a: [F; 2] = UnitDisc.sample(&mut rng); a.iter().map(|x| x.to64()).collect() }
                "unitsphere" => { let a: [F; 3] = UnitSphere.sample(&mut rng); a.iter().map(|x| x.to64()).collect() }
                "unitball" => { let a: [F; 3] = UnitBall.sample(&mut rng); a.iter().map(|x| x.to64()).collect() }
                _ => dir.as_ref().unwrap().sample(&mut rng).iter().map(|x| x.to64()).collect(),
            };
            let isnan = v.iter().any(|x| x.is_nan());
            let (dev, ok) = if family == "dirichlet" {
                let s: f64 = v.iter().sum();
                let d = (s - 1.0).abs() / eps;
                (d, d <= 4.0 * v.len() as f64 && v.iter().all(|x| *x >= 0.0 && *x <= 1.0))
            } else {
                let nrm = v.iter().map(|x| x * x).sum::<f64>().sqrt();
                let d = (nrm - 1.0).abs() / eps;
                if family == "unitcircle" || family == "unitsphere" { (d, d <= 4.0) } else { (0.0, nrm <= 1.0 + 2.0 * eps) }
            };
            if isnan { nan += 1; } else if !ok { bad += 1; } else if dev > maxdev { maxdev = dev; }
            if (isnan || !ok) && first.is_none() { first = Some(format!("{:x}:{:?}", st, v)); }
        }
        format!("n={} bad={} nan={} maxdev={:.2} first={}", n, bad, nan, maxdev, first.unwrap_or_else(|| "-".into()).replace(' ', ""))
    }
    let ps: Vec<&str> = if toks[3] == "-" { vec![] } else { toks[3].split(',').collect() };
    let seed = u64::from_str_radix(toks[4], 16).expect("seed");
    let n: u64 = toks[5].parse().expect("n");
    if toks[2] == "f32" { go::<f32>(toks[1], &ps, seed, n) } else { go::<f64>(toks[1], &ps, seed, n) }
}
