//! `Normal::from_zscore` / `LogNormal::from_zscore` on explicit z values (property C07).
//! line:   zscore <normal|lognormal> <f32|f64> <mean bits>,<std_dev bits> <z bits>,<z bits>,...
//! output: <x+hexbits>,... | E:<ctor error> | panic
use crate::samp::FB;
use rand_distr::{Distribution, LogNormal, Normal, StandardNormal};
use std::panic::{AssertUnwindSafe, catch_unwind};

fn go<F: FB>(family: &str, ps: &[&str], zs: &[&str]) -> String
where
    StandardNormal: Distribution<F>,
{
    let (m, s) = (F::from_hex(ps[0]), F::from_hex(ps[1]));
    let z: Vec<F> = zs.iter().map(|x| F::from_hex(x)).collect();
    let r = catch_unwind(AssertUnwindSafe(|| -> Result<Vec<F>, String> {
        match family {
            "normal" => {
                let d = Normal::new(m, s).map_err(|e| format!("E:{:?}", e))?;
                Ok(z.iter().map(|&x| d.from_zscore(x)).collect())
            }
            "lognormal" => {
                let d = LogNormal::new(m, s).map_err(|e| format!("E:{:?}", e))?;
                Ok(z.iter().map(|&x| d.from_zscore(x)).collect())
            }
            other => Err(format!("badfamily:{}", other)),
        }
    }));
    match r {
        Ok(Ok(v)) => v.iter().map(|x| x.hex()).collect::<Vec<_>>().join(","),
        Ok(Err(e)) => e,
        Err(_) => "panic".to_string(),
    }
}

pub fn line(toks: &[&str]) -> String {
    if toks.len() < 5 {
        return "badline".to_string();
    }
    let ps: Vec<&str> = toks[3].split(',').collect();
    let zs: Vec<&str> = toks[4].split(',').collect();
    match toks[2] {
        "f32" => go::<f32>(toks[1], &ps, &zs),
        "f64" => go::<f64>(toks[1], &ps, &zs),
        other => format!("badtype:{}", other),
    }
}
