//! serde round trips (feature `serde` of rand_distr).
//! line:  serde <family> <f32|f64|u64|wty> <params> <seedhex>
//! output: <json>|<eq|ne>|<same|diff:k>     (json of the original; PartialEq after the round trip; 100 samples on cloned streams)
//!         | E:<ctor error> | ctorpanic | serfail:<msg>
use crate::rng::ScriptRng;
use crate::samp::FB;
use rand_distr::weighted::{WeightedAliasIndex, WeightedTreeIndex};
use rand_distr::*;
use serde::{Serialize, de::DeserializeOwned};
use std::panic::{AssertUnwindSafe, catch_unwind};

fn rt<T, O>(d: T, seed: u64, eq: impl Fn(&T, &T) -> bool) -> String
where
    T: Serialize + DeserializeOwned + Distribution<O>,
    O: PartialEq + core::fmt::Debug,
{
    let j = match serde_json::to_string(&d) { Ok(j) => j, Err(e) => return format!("serfail:{}", e) };
    let d2: T = match serde_json::from_str(&j) { Ok(x) => x, Err(e) => return format!("{}|deserfail:{}|-", j, e.to_string().replace(' ', "_")) };
    let same_eq = eq(&d, &d2);
    let mut r1 = ScriptRng::new(vec![], seed);
    let mut r2 = ScriptRng::new(vec![], seed);
    r1.limit = 1_000_000; r2.limit = 1_000_000;
    let mut diff: Option<usize> = None;
    for k in 0..100 {
        let a = catch_unwind(AssertUnwindSafe(|| d.sample(&mut r1)));
        let b = catch_unwind(AssertUnwindSafe(|| d2.sample(&mut r2)));
        let ok = match (&a, &b) {
            (Ok(x), Ok(y)) => format!("{:?}", x) == format!("{:?}", y) && r1.count == r2.count,
            (Err(_), Err(_)) => true,
            _ => false,
        };
        if !ok { diff = Some(k); break; }
        if a.is_err() { break; }
    }
    format!("{}|{}|{}", j, if same_eq { "eq" } else { "ne" }, match diff { None => "same".to_string(), Some(k) => format!("diff:{}", k) })
}

macro_rules! go {
    ($e:expr, $seed:expr) => { match catch_unwind(AssertUnwindSafe(|| $e)) {
        Ok(Ok(d)) => rt(d, $seed, |a, b| a == b),
        Ok(Err(e)) => format!("E:{:?}", e),
        Err(_) => "ctorpanic".to_string(),
    } };
}

fn cont<F: FB + Serialize + DeserializeOwned + rand::distr::uniform::SampleUniform>(family: &str, ps: &[&str], seed: u64) -> String
where
    StandardNormal: Distribution<F>, Exp1: Distribution<F>, Open01: Distribution<F>,
    OpenClosed01: Distribution<F>, StandardUniform: Distribution<F>,
{
    let p: Vec<F> = ps.iter().map(|s| F::from_hex(s)).collect();
    match family {
        "stdnormal" => rt::<_, F>(StandardNormal, seed, |_, _| true),
        "exp1" => rt::<_, F>(Exp1, seed, |_, _| true),
        "normal" => go!(Normal::new(p[0], p[1]), seed),
        "lognormal" => go!(LogNormal::new(p[0], p[1]), seed),
        "exp" => go!(Exp::new(p[0]), seed),
        "gamma" => go!(Gamma::new(p[0], p[1]), seed),
        "chisq" => go!(ChiSquared::new(p[0]), seed),
        "studentt" => go!(StudentT::new(p[0]), seed),
        "fisherf" => go!(FisherF::new(p[0], p[1]), seed),
        "beta" => go!(Beta::new(p[0], p[1]), seed),
        "pert" => go!(Pert::new(p[0], p[1]).with_shape(p[3]).with_mode(p[2]), seed),
        "triangular" => go!(Triangular::new(p[0], p[1], p[2]), seed),
        "cauchy" => go!(Cauchy::new(p[0], p[1]), seed),
        "pareto" => go!(Pareto::new(p[0], p[1]), seed),
        "weibull" => go!(Weibull::new(p[0], p[1]), seed),
        "gumbel" => go!(Gumbel::new(p[0], p[1]), seed),
        "frechet" => go!(Frechet::new(p[0], p[1], p[2]), seed),
        "skewnormal" => go!(SkewNormal::new(p[0], p[1], p[2]), seed),
        "invgauss" => go!(InverseGaussian::new(p[0], p[1]), seed),
        "nig" => go!(NormalInverseGaussian::new(p[0], p[1]), seed),
        "poisson" => go!(Poisson::new(p[0]), seed),
        "unitcircle" => rt::<_, [F; 2]>(UnitCircle, seed, |_, _| true),
        "unitdisc" => rt::<_, [F; 2]>(UnitDisc, seed, |_, _| true),
        "unitsphere" => rt::<_, [F; 3]>(UnitSphere, seed, |_, _| true),
        "unitball" => rt::<_, [F; 3]>(UnitBall, seed, |_, _| true),
        other => format!("badfamily:{}", other),
    }
}

pub fn line(toks: &[&str]) -> String {
    let (family, ty) = (toks[1], toks[2]);
    let ps: Vec<&str> = if toks[3] == "-" { vec![] } else { toks[3].split(',').collect() };
    let seed = u64::from_str_radix(toks[4], 16).expect("seed");
    let u = |s: &str| s.parse::<u64>().expect("u64");
    match (family, ty) {
        ("binomial", _) => go!(Binomial::new(u(ps[0]), f64::from_hex(ps[1])), seed),
        ("geometric", _) => go!(Geometric::new(f64::from_hex(ps[0])), seed),
        ("stdgeometric", _) => rt::<_, u64>(StandardGeometric, seed, |_, _| true),
        ("hypergeometric", _) => go!(Hypergeometric::new(u(ps[0]), u(ps[1]), u(ps[2])), seed),
        ("alias", "u32") => match WeightedAliasIndex::new(ps.iter().map(|s| s.parse::<u32>().unwrap()).collect()) {
            Ok(d) => rt(d, seed, |a, b| format!("{:?}", a) == format!("{:?}", b)), Err(e) => format!("E:{:?}", e) },
        ("alias", "i64") => match WeightedAliasIndex::new(ps.iter().map(|s| s.parse::<i64>().unwrap()).collect()) {
            Ok(d) => rt(d, seed, |a, b| format!("{:?}", a) == format!("{:?}", b)), Err(e) => format!("E:{:?}", e) },
        ("alias", "f64") => match WeightedAliasIndex::new(ps.iter().map(|s| f64::from_hex(s)).collect()) {
            Ok(d) => rt(d, seed, |a, b| format!("{:?}", a) == format!("{:?}", b)), Err(e) => format!("E:{:?}", e) },
        ("tree", "u32") => match WeightedTreeIndex::new(ps.iter().map(|s| s.parse::<u32>().unwrap()).collect::<Vec<u32>>()) {
            Ok(d) => rt(d, seed, |a, b| a == b), Err(e) => format!("E:{:?}", e) },
        ("tree", "i64") => match WeightedTreeIndex::new(ps.iter().map(|s| s.parse::<i64>().unwrap()).collect::<Vec<i64>>()) {
            Ok(d) => rt(d, seed, |a, b| a == b), Err(e) => format!("E:{:?}", e) },
        ("tree", "f64") => match WeightedTreeIndex::new(ps.iter().map(|s| f64::from_hex(s)).collect::<Vec<f64>>()) {
            Ok(d) => rt(d, seed, |a, b| a == b), Err(e) => format!("E:{:?}", e) },
        // treeh: a tree REACHED BY A HISTORY (update to zero / to a new weight, push, pop derived from the seed) - also a valid value
        ("treeh", "f64") => match WeightedTreeIndex::new(ps.iter().map(|s| f64::from_hex(s)).collect::<Vec<f64>>()) {
            Ok(mut d) => {
                let mut st = seed ^ 0x7ee;
                for _ in 0..(4 + (crate::samp::splitmix(&mut st) % 12)) {
                    let r = crate::samp::splitmix(&mut st);
                    let n = d.len().max(1);
                    let i = (r >> 8) as usize % n;
                    let w = ((r >> 24) % 100) as f64 / 10.0;
                    match r % 8 { 0 | 1 | 2 => { let _ = d.update(i, 0.0); } 3 | 4 | 5 => { let _ = d.update(i, w); } 6 => { let _ = d.push(w); } _ => { if d.len() > 2 { d.pop(); } } }
                }
                rt(d, seed, |a, b| a == b) }
            Err(e) => format!("E:{:?}", e) },
        ("treeh", "u32") => match WeightedTreeIndex::new(ps.iter().map(|s| s.parse::<u32>().unwrap()).collect::<Vec<u32>>()) {
            Ok(mut d) => {
                let mut st = seed ^ 0x7ee;
                for _ in 0..(4 + (crate::samp::splitmix(&mut st) % 12)) {
                    let r = crate::samp::splitmix(&mut st);
                    let n = d.len().max(1);
                    let i = (r >> 8) as usize % n;
                    let w = ((r >> 24) % 1000) as u32;
                    match r % 8 { 0 | 1 | 2 => { let _ = d.update(i, 0); } 3 | 4 | 5 => { let _ = d.update(i, w); } 6 => { let _ = d.push(w); } _ => { if d.len() > 2 { d.pop(); } } }
                }
                rt(d, seed, |a, b| a == b) }
            Err(e) => format!("E:{:?}", e) },
        (_, "f32") => cont::<f32>(family, &ps, seed),
        (_, "f64") => cont::<f64>(family, &ps, seed),
        _ => format!("badtype:{}", ty),
    }
}
