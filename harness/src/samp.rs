//! Continuous / discrete samplers on a scripted word stream.
//! line:  samp <family> <f32|f64|u64> <p1,p2,..(hex bits; decimal u64 for integer params)> <seedhex> <hexwords|-> [nsamples]
//! output: per sample `<value>:<words used so far>` joined by ';'  (value = x+hex bits for floats, decimal for integers)
//!         | E:<ctor error Debug> | ctorpanic | …;panic
//! line:  sweep <family> f32|f64 <params> <seedhex> <pos> [dumpfile]
//!         all 2^24 high-bit patterns of the word at position <pos> (low 40 bits and other words from the seed)
//! line:  many <family> <type> <params> <seedhex> <n>      n samples on one seeded stream: support / finiteness / words statistics
use crate::rng::{ScriptRng, parse_words};
use rand_distr::*;
use std::io::Write;
use std::panic::{AssertUnwindSafe, catch_unwind};

pub trait FB: num_traits::Float + num_traits::FloatConst + core::fmt::Debug + 'static {
    fn from_hex(s: &str) -> Self;
    fn hex(&self) -> String;
    fn to64(&self) -> f64;
    fn ulp_of(&self) -> f64;
}
impl FB for f32 {
    fn from_hex(s: &str) -> Self { f32::from_bits(u32::from_str_radix(s.trim_start_matches('x'), 16).expect("f32 bits")) }
    fn hex(&self) -> String { format!("x{:08x}", self.to_bits()) }
    fn to64(&self) -> f64 { *self as f64 }
    fn ulp_of(&self) -> f64 { let a = self.abs(); (f32::from_bits(a.to_bits() + 1) - a) as f64 }
}
impl FB for f64 {
    fn from_hex(s: &str) -> Self { f64::from_bits(u64::from_str_radix(s.trim_start_matches('x'), 16).expect("f64 bits")) }
    fn hex(&self) -> String { format!("x{:016x}", self.to_bits()) }
    fn to64(&self) -> f64 { *self }
    fn ulp_of(&self) -> f64 { let a = self.abs(); f64::from_bits(a.to_bits() + 1) - a }
}

/// what a sampler returns, uniformly
#[derive(Clone, Copy, Debug)]
pub enum Val { F(f64, u64 /*bits*/, bool /*is f32*/), U(u64) }
impl Val {
    fn show(&self) -> String {
        match *self {
            Val::F(_, b, true) => format!("x{:08x}", b),
            Val::F(_, b, false) => format!("x{:016x}", b),
            Val::U(u) => format!("{}", u),
        }
    }
}
pub trait IntoVal { fn val(&self) -> Val; }
impl IntoVal for f32 { fn val(&self) -> Val { Val::F(*self as f64, self.to_bits() as u64, true) } }
impl IntoVal for f64 { fn val(&self) -> Val { Val::F(*self, self.to_bits(), false) } }
impl IntoVal for u64 { fn val(&self) -> Val { Val::U(*self) } }
impl IntoVal for usize { fn val(&self) -> Val { Val::U(*self as u64) } }

/// a constructed distribution behind a uniform interface
pub struct Dyn(
    pub Box<dyn Fn(&mut ScriptRng) -> Val>,
    /// `.clone()` of the underlying distribution value
    pub Box<dyn Fn() -> Dyn>,
    /// `{:?}` of the very object that is sampled
    pub Box<dyn Fn() -> String>,
    /// `sample_iter(rng).take(n)`
    pub Box<dyn Fn(&mut ScriptRng, usize) -> Vec<Val>>,
    /// the distribution value itself, for `clone_from`
    pub std::rc::Rc<dyn std::any::Any>,
    /// `let mut x = target.clone(); x.clone_from(self); x` when the target has the same concrete type (else `self.clone()`)
    pub Box<dyn Fn(&dyn std::any::Any) -> Dyn>,
    /// `self == other` through the type's own PartialEq ("eq" / "ne"; "na" when the types differ or the type has no PartialEq)
    pub Box<dyn Fn(&dyn std::any::Any) -> &'static str>,
);

fn boxed<T: IntoVal + 'static, D: Distribution<T> + Clone + core::fmt::Debug + PartialEq + 'static>(d: D) -> Dyn {
    boxed_gen::<T, D>(d, Some(|a: &D, b: &D| a == b))
}
fn boxed_noeq<T: IntoVal + 'static, D: Distribution<T> + Clone + core::fmt::Debug + 'static>(d: D) -> Dyn {
    boxed_gen::<T, D>(d, None)
}

fn boxed_gen<T: IntoVal + 'static, D: Distribution<T> + Clone + core::fmt::Debug + 'static>(d: D, eqf: Option<fn(&D, &D) -> bool>) -> Dyn {
    let rc = std::rc::Rc::new(d);
    let (a, b, c, e, g, h, q) = (rc.clone(), rc.clone(), rc.clone(), rc.clone(), rc.clone(), rc.clone(), rc);
    Dyn(
        Box::new(move |rng: &mut ScriptRng| a.sample(rng).val()),
        Box::new(move || boxed_gen::<T, D>((*b).clone(), eqf)),
        Box::new(move || format!("{:?}", c)),
        Box::new(move |rng: &mut ScriptRng, n: usize| (&*e).sample_iter(rng).take(n).map(|v| v.val()).collect()),
        g,
        Box::new(move |target: &dyn std::any::Any| match target.downcast_ref::<D>() {
            Some(t) => { let mut x: D = t.clone(); x.clone_from(&*h); boxed_gen::<T, D>(x, eqf) }
            None => boxed_gen::<T, D>((*h).clone(), eqf),
        }),
        Box::new(move |other: &dyn std::any::Any| match (eqf, other.downcast_ref::<D>()) {
            (Some(f), Some(o)) => if f(&*q, o) { "eq" } else { "ne" },
            _ => "na",
        }),
    )
}

macro_rules! mk {
    ($e:expr) => { match catch_unwind(AssertUnwindSafe(|| $e)) {
        Ok(Ok(d)) => Ok(boxed(d)),
        Ok(Err(e)) => Err(format!("E:{:?}", e)),
        Err(_) => Err("ctorpanic".to_string()),
    } };
}

pub fn build_cont<F: FB + IntoVal>(family: &str, ps: &[&str]) -> Result<Dyn, String>
where
    StandardNormal: Distribution<F>,
    Exp1: Distribution<F>,
    Open01: Distribution<F>,
    OpenClosed01: Distribution<F>,
    StandardUniform: Distribution<F>,
{
    let p: Vec<F> = ps.iter().map(|s| F::from_hex(s)).collect();
    match family {
        "stdnormal" => Ok(boxed_noeq::<F, _>(StandardNormal)),
        "exp1" => Ok(boxed_noeq::<F, _>(Exp1)),
        "normal" => mk!(Normal::new(p[0], p[1])),
        "lognormal" => mk!(LogNormal::new(p[0], p[1])),
        "exp" => mk!(Exp::new(p[0])),
        "gamma" => mk!(Gamma::new(p[0], p[1])),
        "chisq" => mk!(ChiSquared::new(p[0])),
        "studentt" => mk!(StudentT::new(p[0])),
        "fisherf" => mk!(FisherF::new(p[0], p[1])),
        "beta" => mk!(Beta::new(p[0], p[1])),
        "pert" => mk!(Pert::new(p[0], p[1]).with_shape(p[3]).with_mode(p[2])),
        "triangular" => mk!(Triangular::new(p[0], p[1], p[2])),
        "cauchy" => mk!(Cauchy::new(p[0], p[1])),
        "pareto" => mk!(Pareto::new(p[0], p[1])),
        "weibull" => mk!(Weibull::new(p[0], p[1])),
        "gumbel" => mk!(Gumbel::new(p[0], p[1])),
        "frechet" => mk!(Frechet::new(p[0], p[1], p[2])),
        "skewnormal" => mk!(SkewNormal::new(p[0], p[1], p[2])),
        "invgauss" => mk!(InverseGaussian::new(p[0], p[1])),
        "nig" => mk!(NormalInverseGaussian::new(p[0], p[1])),
        "poisson" => mk!(Poisson::new(p[0])),
        "zeta" => mk!(Zeta::new(p[0])),
        "zipf" => mk!(Zipf::new(p[0], p[1])),
        other => Err(format!("badfamily:{}", other)),
    }
}

pub fn build_disc(family: &str, ps: &[&str]) -> Result<Dyn, String> {
    let u = |s: &str| s.parse::<u64>().expect("u64");
    match family {
        "binomial" => mk!(Binomial::new(u(ps[0]), f64::from_hex(ps[1]))),
        "geometric" => mk!(Geometric::new(f64::from_hex(ps[0]))),
        "stdgeometric" => Ok(boxed_noeq::<u64, _>(StandardGeometric)),
        "hypergeometric" => mk!(Hypergeometric::new(u(ps[0]), u(ps[1]), u(ps[2]))),
        other => Err(format!("badfamily:{}", other)),
    }
}

/// weighted index distributions (`walias`, `wtree`) over a weight type; weights as in the `alias` / `tree` commands
fn build_weighted<W>(family: &str, ps: &[&str]) -> Result<Dyn, String>
where
    W: crate::alias::AW + crate::tree::TW + Default + 'static,
    <W as rand::distr::uniform::SampleUniform>::Sampler: core::fmt::Debug + Clone + 'static,
{
    let ws: Vec<W> = match crate::wt::parse_list(&ps.join(",")) { Some(v) => v, None => return Err("badweights".to_string()) };
    match family {
        "walias" => match catch_unwind(AssertUnwindSafe(|| rand_distr::weighted::WeightedAliasIndex::new(ws))) {
            Ok(Ok(d)) => Ok(boxed_noeq(d)),
            Ok(Err(e)) => Err(format!("E:{:?}", e)),
            Err(_) => Err("ctorpanic".to_string()),
        },
        "wtree" => mk!(rand_distr::weighted::WeightedTreeIndex::new(ws)),
        other => Err(format!("badfamily:{}", other)),
    }
}

pub fn build(family: &str, ty: &str, ps: &[&str]) -> Result<Dyn, String> {
    if family == "walias" || family == "wtree" {
        return match ty {
            "f32" => build_weighted::<f32>(family, ps),
            "f64" => build_weighted::<f64>(family, ps),
            "u8" => build_weighted::<u8>(family, ps),
            "u32" => build_weighted::<u32>(family, ps),
            "u64" => build_weighted::<u64>(family, ps),
            "i32" => build_weighted::<i32>(family, ps),
            other => Err(format!("badtype:{}", other)),
        };
    }
    match ty {
        "f32" => build_cont::<f32>(family, ps),
        "f64" => build_cont::<f64>(family, ps),
        "u64" => build_disc(family, ps),
        other => Err(format!("badtype:{}", other)),
    }
}

fn split_params(s: &str) -> Vec<&str> {
    if s == "-" { vec![] } else { s.split(',').collect() }
}

pub fn line(toks: &[&str]) -> String {
    let ps = split_params(toks[3]);
    let seed = u64::from_str_radix(toks[4], 16).expect("seed");
    let words = parse_words(toks.get(5).copied().unwrap_or("-"));
    let n: usize = toks.get(6).map(|s| s.parse().unwrap()).unwrap_or(1);
    let d = match build(toks[1], toks[2], &ps) { Ok(d) => d, Err(e) => return e };
    let mut rng = ScriptRng::new(words, seed);
    let mut out: Vec<String> = vec![];
    for _ in 0..n {
        match catch_unwind(AssertUnwindSafe(|| (d.0)(&mut rng))) {
            Ok(v) => out.push(format!("{}:{}", v.show(), rng.count)),
            Err(_) => { out.push("panic".into()); break; }
        }
    }
    out.join(";")
}

// ---------------------------------------------------------------------------------------------
/// support predicate of the documented distribution (property C03), on the real crate's output
pub fn in_support(family: &str, ty: &str, ps: &[&str], v: Val) -> Result<(), String> {
    let pf: Vec<f64> = if ty == "u64" { vec![] } else {
        ps.iter().map(|s| if ty == "f32" { f32::from_hex(s) as f64 } else { f64::from_hex(s) }).collect() };
    match v {
        Val::F(x, _, is32) => {
            let ulp = |b: f64| if is32 { (b as f32).ulp_of() } else { b.ulp_of() };
            if x.is_nan() { return Err("NaN".into()); }
            // documented: Zeta returns +inf when s is so close to 1 that the proposal overflows
            if x.is_infinite() && family == "zeta" && x > 0.0 { return Ok(()); }
            if x.is_infinite() { return Err(format!("{}", x)); }
            let ok = match family {
                "stdnormal" | "normal" | "cauchy" | "gumbel" | "skewnormal" | "nig" | "studentt" => true,
                "lognormal" | "exp1" | "exp" | "gamma" | "chisq" | "fisherf" | "weibull" | "invgauss" => x >= 0.0,
                "pareto" => x >= pf[0],
                "frechet" => x >= pf[0],
                "beta" => (0.0..=1.0).contains(&x),
                "triangular" | "pert" => {
                    let big = pf[0].abs().max(pf[1].abs());
                    let tol = 4.0 * ulp(big);
                    x >= pf[0] - tol && x <= pf[1] + tol
                }
                "poisson" => x >= 0.0 && x.fract() == 0.0,
                "zeta" => x >= 1.0 && x.fract() == 0.0,
                "zipf" => x >= 1.0 && x <= pf[0] && x.fract() == 0.0,
                _ => true,
            };
            if ok { Ok(()) } else { Err(format!("{}", x)) }
        }
        Val::U(k) => {
            let u = |s: &str| s.parse::<u64>().unwrap();
            let ok = match family {
                "binomial" => k <= u(ps[0]),
                "hypergeometric" => {
                    let (n, kk, s) = (u(ps[0]) as u128, u(ps[1]) as u128, u(ps[2]) as u128);
                    let lo = (s + kk).saturating_sub(n);
                    let hi = s.min(kk);
                    (k as u128) >= lo && (k as u128) <= hi
                }
                _ => true,
            };
            if ok { Ok(()) } else { Err(format!("{}", k)) }
        }
    }
}

pub fn splitmix(state: &mut u64) -> u64 {
    *state = state.wrapping_add(0x9E3779B97F4A7C15);
    let mut z = *state;
    z = (z ^ (z >> 30)).wrapping_mul(0xBF58476D1CE4E5B9);
    z = (z ^ (z >> 27)).wrapping_mul(0x94D049BB133111EB);
    z ^ (z >> 31)
}

/// sweep: every one of the 2^24 high-bit patterns of the word at position `pos`
pub fn sweep(toks: &[&str]) -> String {
    let (family, ty) = (toks[1], toks[2]);
    let ps = split_params(toks[3]);
    let seed = u64::from_str_radix(toks[4], 16).expect("seed");
    let pos: usize = toks[5].parse().expect("pos");
    let dump = toks.get(6).copied();
    let d = match build(family, ty, &ps) { Ok(d) => d, Err(e) => return e };
    // fixed prefix words (positions < pos) and fixed low 40 bits, from the seed
    let mut st = seed;
    let prefix: Vec<u64> = (0..pos).map(|_| splitmix(&mut st)).collect();
    let low = splitmix(&mut st) & ((1u64 << 40) - 1);
    let (mut bad, mut nonfinite, mut panics, mut nonmono, mut maxwords) = (0u64, 0u64, 0u64, 0u64, 0u64);
    let mut first: Option<String> = None;
    let mut prev: Option<f64> = None;
    let mut dir = 0i32; // monotone direction seen so far (only meaningful for pos 0 single-draw samplers)
    let mut file = dump.map(|p| std::io::BufWriter::new(std::fs::File::create(p).expect("dump file")));
    for k in 0u64..(1u64 << 24) {
        let mut words = prefix.clone();
        words.push((k << 40) | low);
        let mut rng = ScriptRng::new(words, seed ^ 0x5555);
        match catch_unwind(AssertUnwindSafe(|| (d.0)(&mut rng))) {
            Ok(v) => {
                maxwords = maxwords.max(rng.count);
                if let Err(why) = in_support(family, ty, &ps, v) {
                    if matches!(v, Val::F(x, _, _) if !x.is_finite()) { nonfinite += 1 } else { bad += 1 }
                    if first.is_none() { first = Some(format!("{:06x}:{}:{}", k, v.show(), why)); }
                }
                if let Val::F(x, b, _) = v {
                    if let Some(p) = prev {
                        if x.is_finite() && p.is_finite() {
                            let s = if x > p { 1 } else if x < p { -1 } else { 0 };
                            if s != 0 { if dir == 0 { dir = s } else if s != dir { nonmono += 1 } }
                        }
                    }
                    prev = Some(x);
                    if let Some(f) = file.as_mut() { f.write_all(&(b as u32).to_le_bytes()).unwrap(); }
                }
            }
            Err(_) => {
                panics += 1;
                if first.is_none() { first = Some(format!("{:06x}:panic:", k)); }
                if let Some(f) = file.as_mut() { f.write_all(&0x7fc00000u32.to_le_bytes()).unwrap(); }
            }
        }
    }
    format!("n=16777216 bad={} nonfinite={} panic={} nonmono={} maxwords={} first={}", bad, nonfinite, panics, nonmono, maxwords,
            first.unwrap_or_else(|| "-".into()))
}

/// many: n samples from one seeded stream (optionally with one adversarial word at a position):
/// support, finiteness, words per call. `many <family> <ty> <params> <seedhex> <n> [pos:hexword]`
pub fn many(toks: &[&str]) -> String {
    let (family, ty) = (toks[1], toks[2]);
    let ps = split_params(toks[3]);
    let seed = u64::from_str_radix(toks[4], 16).expect("seed");
    let n: u64 = toks[5].parse().expect("n");
    let adv: Option<(usize, u64)> = toks.get(6).map(|s| { let (a, b) = s.split_once(':').unwrap(); (a.parse().unwrap(), u64::from_str_radix(b, 16).unwrap()) });
    let d = match build(family, ty, &ps) { Ok(d) => d, Err(e) => return e };
    let (mut bad, mut nonfinite, mut panics, mut total, mut maxw) = (0u64, 0u64, 0u64, 0u64, 0u64);
    let mut first: Option<String> = None;
    let mut st = seed;
    for i in 0..n {
        let s = splitmix(&mut st);
        let mut words: Vec<u64> = vec![];
        if let Some((pos, w)) = adv {
            let mut t = s;
            for _ in 0..pos { words.push(splitmix(&mut t)); }
            words.push(w);
        }
        let mut rng = ScriptRng::new(words.clone(), s);
        rng.limit = 100_000;
        match catch_unwind(AssertUnwindSafe(|| (d.0)(&mut rng))) {
            Ok(v) => {
                total += rng.count; maxw = maxw.max(rng.count);
                if let Err(why) = in_support(family, ty, &ps, v) {
                    if matches!(v, Val::F(x, _, _) if !x.is_finite()) { nonfinite += 1 } else { bad += 1 }
                    if first.is_none() { first = Some(format!("{}:{:x}:{}:{}", i, s, v.show(), why)); }
                }
            }
            Err(_) => {
                panics += 1; maxw = maxw.max(rng.count);
                if first.is_none() { first = Some(format!("{}:{:x}:panic(words={}):", i, s, rng.count)); }
            }
        }
    }
    format!("n={} bad={} nonfinite={} panic={} meanwords={:.3} maxwords={} first={}", n, bad, nonfinite, panics,
            total as f64 / n.max(1) as f64, maxw, first.unwrap_or_else(|| "-".into()))
}

/// lat: for every position < npos and every lattice word: n samples on seeded streams with that one word replaced.
/// `lat <family> <ty> <params> <seedhex> <n> <npos> <w1,w2,...>` -> aggregated counts and up to 8 failures `pos:word:seed:value:why`
pub fn lat(toks: &[&str]) -> String {
    let (family, ty) = (toks[1], toks[2]);
    let ps = split_params(toks[3]);
    let seed = u64::from_str_radix(toks[4], 16).expect("seed");
    let n: u64 = toks[5].parse().expect("n");
    let npos: usize = toks[6].parse().expect("npos");
    let lattice = parse_words(toks[7]);
    let d = match build(family, ty, &ps) { Ok(d) => d, Err(e) => return e };
    let (mut evals, mut total, mut maxw) = (0u64, 0u64, 0u64);
    let mut fails: Vec<String> = vec![];
    let mut nfail = 0u64;
    let mut st = seed;
    for pos in 0..npos {
        for &w in &lattice {
            for _ in 0..n {
                let s = splitmix(&mut st);
                let mut t = s;
                let mut words: Vec<u64> = (0..pos).map(|_| splitmix(&mut t)).collect();
                words.push(w);
                let mut rng = ScriptRng::new(words, s);
                rng.limit = 100_000;
                evals += 1;
                match catch_unwind(AssertUnwindSafe(|| (d.0)(&mut rng))) {
                    Ok(v) => {
                        total += rng.count; maxw = maxw.max(rng.count);
                        if let Err(why) = in_support(family, ty, &ps, v) {
                            nfail += 1;
                            if fails.len() < 8 { fails.push(format!("{}:{:x}:{:x}:{}:{}", pos, w, s, v.show(), why)); }
                        }
                    }
                    Err(_) => {
                        nfail += 1; maxw = maxw.max(rng.count);
                        if fails.len() < 8 { fails.push(format!("{}:{:x}:{:x}:panic:words={}", pos, w, s, rng.count)); }
                    }
                }
            }
        }
    }
    format!("n={} fail={} meanwords={:.3} maxwords={} fails={}", evals, nfail, total as f64 / evals.max(1) as f64, maxw,
            if fails.is_empty() { "-".to_string() } else { fails.join(",") })
}

/// pure: interleaved histories over several objects and several seeded streams (property C14)
/// `pure <seedhex> <fresh:0|1> <family:ty:params;...> <op> <op> ...`
///   S<k>:<r> sample object k from stream r | I<k>:<r>:<n> sample_iter take n | C<k> push clone of k | B<k> push rebuild of k
///   F<k>:<j> push (clone of k).clone_from(j)
///   D<k> Debug of object k
/// with fresh=1 every sample is drawn from an object newly constructed from the same parameters
pub fn pure(toks: &[&str]) -> String {
    let seed = u64::from_str_radix(toks[1], 16).expect("seed");
    let fresh = toks[2] == "1";
    let mut specs: Vec<(String, String, Vec<String>)> = vec![];
    let mut objs: Vec<Dyn> = vec![];
    for sp in toks[3].split(';') {
        let p: Vec<&str> = sp.split(':').collect();
        let ps: Vec<String> = if p[2] == "-" { vec![] } else { p[2].split(',').map(|x| x.to_string()).collect() };
        let psr: Vec<&str> = ps.iter().map(|x| x.as_str()).collect();
        match build(p[0], p[1], &psr) { Ok(d) => objs.push(d), Err(e) => return e }
        specs.push((p[0].to_string(), p[1].to_string(), ps));
    }
    let mut rngs: Vec<ScriptRng> = (0..8).map(|r| { let mut g = ScriptRng::new(vec![], seed.wrapping_add(0x1000 * r as u64)); g.limit = 1_000_000; g }).collect();
    let mut out: Vec<String> = vec![];
    let rebuild = |specs: &Vec<(String, String, Vec<String>)>, k: usize| -> Dyn {
        let (f, t, ps) = &specs[k];
        let psr: Vec<&str> = ps.iter().map(|x| x.as_str()).collect();
        build(f, t, &psr).ok().unwrap()
    };
    for op in &toks[4..] {
        let kind = &op[..1];
        let a: Vec<usize> = op[1..].split(':').map(|x| x.parse().unwrap()).collect();
        let r = catch_unwind(AssertUnwindSafe(|| match kind {
            "S" => {
                let v = if fresh { (rebuild(&specs, a[0]).0)(&mut rngs[a[1]]) } else { (objs[a[0]].0)(&mut rngs[a[1]]) };
                format!("{}:{}", v.show(), rngs[a[1]].count)
            }
            "I" => {
                let vs = if fresh { (rebuild(&specs, a[0]).3)(&mut rngs[a[1]], a[2]) } else { (objs[a[0]].3)(&mut rngs[a[1]], a[2]) };
                format!("{}:{}", vs.iter().map(|v| v.show()).collect::<Vec<_>>().join(","), rngs[a[1]].count)
            }
            "C" => { let c = (objs[a[0]].1)(); objs.push(c); specs.push(specs[a[0]].clone()); "ok".to_string() }
            "B" => { let c = rebuild(&specs, a[0]); objs.push(c); specs.push(specs[a[0]].clone()); "ok".to_string() }
            // F<k>:<j> : push `x` where `let mut x = objs[k].clone(); x.clone_from(&objs[j])` - a value that must behave as objs[j]
            "F" => { let c = (objs[a[1]].5)(&*objs[a[0]].4); objs.push(c); specs.push(specs[a[1]].clone()); "ok".to_string() }
            "D" => (objs[a[0]].2)().replace(' ', ""),
            // E<k>:<j> : objs[k] == objs[j] through PartialEq
            "E" => (objs[a[0]].6)(&*objs[a[1]].4).to_string(),
            _ => "badop".to_string(),
        }));
        out.push(r.unwrap_or_else(|_| "panic".to_string()));
    }
    out.join(" ")
}

/// ks: the exact Kolmogorov distance between the law induced by all 2^24 first-word patterns of a single-draw f32 sampler and the
/// documented CDF (evaluated in f64), against the property's resolution bound 2^-24 (1.5 + 8 sup|x f(x)|) (property C13).
/// `ks <family> <params f32 bits> <seedhex>` -> `D=<ks> bound=<b> M=<sup|x f|> nonfinite=<n> argmax=<k>:<value>`
pub fn ks(toks: &[&str]) -> String {
    let family = toks[1];
    let ps = split_params(toks[2]);
    let seed = u64::from_str_radix(toks[3], 16).expect("seed");
    let p: Vec<f64> = ps.iter().map(|s| f32::from_hex(s) as f64).collect();
    let d = match build(family, "f32", &ps) { Ok(d) => d, Err(e) => return e };
    let mut st = seed;
    let low = splitmix(&mut st) & ((1u64 << 40) - 1);
    let n = 1usize << 24;
    let mut v: Vec<f64> = Vec::with_capacity(n);
    for k in 0u64..(n as u64) {
        let mut rng = ScriptRng::new(vec![(k << 40) | low], seed ^ 0x5555);
        match catch_unwind(AssertUnwindSafe(|| (d.0)(&mut rng))) {
            Ok(Val::F(x, _, _)) => v.push(x),
            _ => v.push(f64::NAN),
        }
    }
    let nonfinite = v.iter().filter(|x| !x.is_finite()).count();
    let mut s: Vec<f64> = v.iter().cloned().filter(|x| !x.is_nan()).collect();
    s.sort_by(|a, b| a.partial_cmp(b).unwrap());
    let pi = core::f64::consts::PI;
    let (cdf, pdf): (Box<dyn Fn(f64) -> f64>, Box<dyn Fn(f64) -> f64>) = match family {
        "cauchy" => { let (x0, g) = (p[0], p[1]); (Box::new(move |x| 0.5 + ((x - x0) / g).atan() / pi), Box::new(move |x| 1.0 / (pi * g * (1.0 + ((x - x0) / g).powi(2))))) }
        "pareto" => { let (xm, a) = (p[0], p[1]); (Box::new(move |x| if x < xm { 0.0 } else { 1.0 - (xm / x).powf(a) }), Box::new(move |x| if x < xm { 0.0 } else { a * xm.powf(a) / x.powf(a + 1.0) })) }
        "weibull" => { let (l, k) = (p[0], p[1]); (Box::new(move |x| if x <= 0.0 { 0.0 } else { -(-(x / l).powf(k)).exp_m1() }), Box::new(move |x| if x <= 0.0 { 0.0 } else { k / l * (x / l).powf(k - 1.0) * (-(x / l).powf(k)).exp() })) }
        "gumbel" => { let (m, b) = (p[0], p[1]); (Box::new(move |x| (-(-(x - m) / b).exp()).exp()), Box::new(move |x| { let z = (x - m) / b; (-(z + (-z).exp())).exp() / b })) }
        "frechet" => { let (m, sg, a) = (p[0], p[1], p[2]); (Box::new(move |x| if x <= m { 0.0 } else { (-((x - m) / sg).powf(-a)).exp() }), Box::new(move |x| if x <= m { 0.0 } else { let z = (x - m) / sg; a / sg * z.powf(-1.0 - a) * (-z.powf(-a)).exp() })) }
        "triangular" => { let (a, b, c) = (p[0], p[1], p[2]);
            (Box::new(move |x| if x <= a { 0.0 } else if x >= b { 1.0 } else if x <= c { (x - a) * (x - a) / ((b - a) * (c - a)) } else { 1.0 - (b - x) * (b - x) / ((b - a) * (b - c)) }),
             Box::new(move |x| if x < a || x > b { 0.0 } else if x < c { 2.0 * (x - a) / ((b - a) * (c - a)) } else if x > c { 2.0 * (b - x) / ((b - a) * (b - c)) } else { 2.0 / (b - a) })) }
        other => return format!("badfamily:{}", other),
    };
    let nn = s.len() as f64;
    let (mut dmax, mut arg, mut m) = (0.0f64, 0usize, 0.0f64);
    for (k, &x) in s.iter().enumerate() {
        let f = if x == f64::INFINITY { 1.0 } else if x == f64::NEG_INFINITY { 0.0 } else { cdf(x) };
        let dev = (f - (k as f64 + 1.0) / nn).abs().max((f - k as f64 / nn).abs());
        if dev > dmax { dmax = dev; arg = k; }
        if x.is_finite() { let xf = x.abs() * pdf(x); if xf.is_finite() && xf > m { m = xf; } }
    }
    let bound = (1.5 + 8.0 * m) / 16777216.0;
    format!("D={:e} bound={:e} M={:e} nonfinite={} argmax={}:{:e}", dmax, bound, m, nonfinite, arg, s[arg])
}
