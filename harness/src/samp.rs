//! Continuous / discrete samplers on a scripted word stream.
//! line:  samp <family> <f32|f64> <p1,p2,..(hex bits, or decimal u64 for integer params)> <seedhex> <hexwords|-> [nsamples]
//! output: per sample `<value>:<words used so far>` joined by ';'  (value = x+hex bits for floats, decimal for integers)
//!         | E:<ctor error Debug> | panic[:<partial>]
use crate::rng::{ScriptRng, parse_words};
use rand_distr::*;
use std::panic::{AssertUnwindSafe, catch_unwind};

pub trait FB: num_traits::Float + num_traits::FloatConst + core::fmt::Debug + 'static {
    fn from_hex(s: &str) -> Self;
    fn hex(&self) -> String;
}
impl FB for f32 {
    fn from_hex(s: &str) -> Self { f32::from_bits(u32::from_str_radix(s.trim_start_matches('x'), 16).expect("f32 bits")) }
    fn hex(&self) -> String { format!("x{:08x}", self.to_bits()) }
}
impl FB for f64 {
    fn from_hex(s: &str) -> Self { f64::from_bits(u64::from_str_radix(s.trim_start_matches('x'), 16).expect("f64 bits")) }
    fn hex(&self) -> String { format!("x{:016x}", self.to_bits()) }
}

fn draw<T, D: Distribution<T>>(d: &D, rng: &mut ScriptRng, n: usize, show: impl Fn(&T) -> String) -> String {
    let mut out: Vec<String> = vec![];
    for _ in 0..n {
        match catch_unwind(AssertUnwindSafe(|| d.sample(rng))) {
            Ok(v) => out.push(format!("{}:{}", show(&v), rng.count)),
            Err(_) => {
                out.push("panic".into());
                break;
            }
        }
    }
    out.join(";")
}

macro_rules! ctor {
    ($e:expr, $rng:expr, $n:expr, $show:expr) => {
        match catch_unwind(AssertUnwindSafe(|| $e)) {
            Ok(Ok(d)) => draw(&d, $rng, $n, $show),
            Ok(Err(e)) => format!("E:{:?}", e),
            Err(_) => "ctorpanic".to_string(),
        }
    };
}

pub fn cont<F: FB>(family: &str, ps: &[&str], rng: &mut ScriptRng, n: usize) -> String
where
    StandardNormal: Distribution<F>,
    Exp1: Distribution<F>,
    Open01: Distribution<F>,
    OpenClosed01: Distribution<F>,
    StandardUniform: Distribution<F>,
{
    let p: Vec<F> = ps.iter().map(|s| F::from_hex(s)).collect();
    let sh = |v: &F| v.hex();
    match family {
        "stdnormal" => draw(&StandardNormal, rng, n, sh),
        "exp1" => draw(&Exp1, rng, n, sh),
        "normal" => ctor!(Normal::new(p[0], p[1]), rng, n, sh),
        "lognormal" => ctor!(LogNormal::new(p[0], p[1]), rng, n, sh),
        "exp" => ctor!(Exp::new(p[0]), rng, n, sh),
        "gamma" => ctor!(Gamma::new(p[0], p[1]), rng, n, sh),
        "chisq" => ctor!(ChiSquared::new(p[0]), rng, n, sh),
        "studentt" => ctor!(StudentT::new(p[0]), rng, n, sh),
        "fisherf" => ctor!(FisherF::new(p[0], p[1]), rng, n, sh),
        "beta" => ctor!(Beta::new(p[0], p[1]), rng, n, sh),
        "pert" => ctor!(Pert::new(p[0], p[1]).with_shape(p[3]).with_mode(p[2]), rng, n, sh),
        "triangular" => ctor!(Triangular::new(p[0], p[1], p[2]), rng, n, sh),
        "cauchy" => ctor!(Cauchy::new(p[0], p[1]), rng, n, sh),
        "pareto" => ctor!(Pareto::new(p[0], p[1]), rng, n, sh),
        "weibull" => ctor!(Weibull::new(p[0], p[1]), rng, n, sh),
        "gumbel" => ctor!(Gumbel::new(p[0], p[1]), rng, n, sh),
        "frechet" => ctor!(Frechet::new(p[0], p[1], p[2]), rng, n, sh),
        "skewnormal" => ctor!(SkewNormal::new(p[0], p[1], p[2]), rng, n, sh),
        "invgauss" => ctor!(InverseGaussian::new(p[0], p[1]), rng, n, sh),
        "nig" => ctor!(NormalInverseGaussian::new(p[0], p[1]), rng, n, sh),
        "poisson" => ctor!(Poisson::new(p[0]), rng, n, sh),
        "zeta" => ctor!(Zeta::new(p[0]), rng, n, sh),
        "zipf" => ctor!(Zipf::new(p[0], p[1]), rng, n, sh),
        other => format!("badfamily:{}", other),
    }
}

pub fn disc(family: &str, ps: &[&str], rng: &mut ScriptRng, n: usize) -> String {
    let shu = |v: &u64| format!("{}", v);
    let u = |s: &str| s.parse::<u64>().expect("u64");
    match family {
        "binomial" => ctor!(Binomial::new(u(ps[0]), f64::from_hex(ps[1])), rng, n, shu),
        "geometric" => ctor!(Geometric::new(f64::from_hex(ps[0])), rng, n, shu),
        "stdgeometric" => draw(&StandardGeometric, rng, n, shu),
        "hypergeometric" => ctor!(Hypergeometric::new(u(ps[0]), u(ps[1]), u(ps[2])), rng, n, shu),
        other => format!("badfamily:{}", other),
    }
}

pub fn line(toks: &[&str]) -> String {
    let family = toks[1];
    let ty = toks[2];
    let ps: Vec<&str> = if toks[3] == "-" { vec![] } else { toks[3].split(',').collect() };
    let seed = u64::from_str_radix(toks[4], 16).expect("seed");
    let words = parse_words(toks.get(5).copied().unwrap_or("-"));
    let n: usize = toks.get(6).map(|s| s.parse().unwrap()).unwrap_or(1);
    let mut rng = ScriptRng::new(words, seed);
    match ty {
        "f32" => cont::<f32>(family, &ps, &mut rng, n),
        "f64" => cont::<f64>(family, &ps, &mut rng, n),
        "u64" => disc(family, &ps, &mut rng, n),
        other => format!("badtype:{}", other),
    }
}
