//! WeightedAliasIndex.
//! line:  alias <ty> <seedhex> <w1,w2,..|-> [S:hexwords]...
//! output: E:<err> | panic | ok|[aliases]|[no_alias_odds]|<[weights()]|wpanic>|<sample;sample;...>
//!   sample = idx:<i>:<words used> | panic
use crate::rng::{ScriptRng, parse_words};
use crate::wt::{HW, parse_list, show_list};
use rand::distr::uniform::SampleUniform;
use rand_distr::Distribution;
use rand_distr::weighted::{AliasableWeight, WeightedAliasIndex};
use std::panic::{AssertUnwindSafe, catch_unwind};

pub trait AW: HW + AliasableWeight + core::fmt::Debug {}
impl<T: HW + AliasableWeight + core::fmt::Debug> AW for T {}

fn field<W: AW>(dbg: &str, name: &str) -> Vec<W> {
    let key = format!("{}: [", name);
    let a = dbg.find(&key).unwrap() + key.len();
    let b = a + dbg[a..].find(']').unwrap();
    let inner = dbg[a..b].replace(' ', "");
    if inner.is_empty() { vec![] } else { inner.split(',').map(|x| W::from_debug(x)).collect() }
}

pub fn run<W: AW>(seed: u64, toks: &[&str]) -> String
where
    <W as SampleUniform>::Sampler: core::fmt::Debug,
{
    let ws: Vec<W> = parse_list(toks[0]).expect("weights");
    let d = match catch_unwind(AssertUnwindSafe(|| WeightedAliasIndex::new(ws))) {
        Ok(Ok(d)) => d,
        Ok(Err(e)) => return format!("E:{:?}", e),
        Err(_) => return "panic".into(),
    };
    let dbg = format!("{:?}", d);
    let aliases: Vec<u32> = field::<u32>(&dbg, "aliases");
    let odds: Vec<W> = field::<W>(&dbg, "no_alias_odds");
    let weights = match catch_unwind(AssertUnwindSafe(|| d.weights())) {
        Ok(w) => show_list(&w),
        Err(_) => "wpanic".into(),
    };
    let mut samples: Vec<String> = vec![];
    for t in &toks[1..] {
        let words = parse_words(t.strip_prefix("S:").expect("S:"));
        let mut rng = ScriptRng::new(words, seed);
        match catch_unwind(AssertUnwindSafe(|| d.sample(&mut rng))) {
            Ok(i) => samples.push(format!("idx:{}:{}", i, rng.count)),
            Err(_) => samples.push("panic".into()),
        }
    }
    format!("ok|{}|{}|{}|{}", show_list(&aliases), show_list(&odds), weights, samples.join(";"))
}
