//! Constructors on arbitrary argument values (property C04).
//! line:  ctor <Name::fn> <f32|f64> <arg,arg,...>      float args = hex bits, integer args = decimal
//! output: Ok[:accessor bits...] | E:<Variant> | panic
use crate::samp::FB;
use rand_distr::multi::{Dirichlet, MultiDistribution};
use rand_distr::*;
use std::panic::{AssertUnwindSafe, catch_unwind};

macro_rules! r {
    ($e:expr) => { match catch_unwind(AssertUnwindSafe(|| $e)) {
        Ok(Ok(_)) => "Ok".to_string(),
        Ok(Err(e)) => format!("E:{:?}", e),
        Err(_) => "panic".to_string(),
    } };
    ($e:expr, $acc:expr) => { match catch_unwind(AssertUnwindSafe(|| $e)) {
        Ok(Ok(d)) => format!("Ok:{}", $acc(&d)),
        Ok(Err(e)) => format!("E:{:?}", e),
        Err(_) => "panic".to_string(),
    } };
}

fn fl<F: FB>(name: &str, a: &[&str]) -> String
where
    StandardNormal: Distribution<F>, Exp1: Distribution<F>, Open01: Distribution<F>,
    OpenClosed01: Distribution<F>, StandardUniform: Distribution<F>,
{
    let p: Vec<F> = a.iter().map(|s| F::from_hex(s)).collect();
    match name {
        "Normal::new" => r!(Normal::new(p[0], p[1]), |d: &Normal<F>| format!("{},{}", d.mean().hex(), d.std_dev().hex())),
        "Normal::from_mean_cv" => r!(Normal::from_mean_cv(p[0], p[1]), |d: &Normal<F>| format!("{},{}", d.mean().hex(), d.std_dev().hex())),
        "LogNormal::new" => r!(LogNormal::new(p[0], p[1])),
        "LogNormal::from_mean_cv" => r!(LogNormal::from_mean_cv(p[0], p[1])),
        "Exp::new" => r!(Exp::new(p[0])),
        "Gamma::new" => r!(Gamma::new(p[0], p[1])),
        "ChiSquared::new" => r!(ChiSquared::new(p[0])),
        "StudentT::new" => r!(StudentT::new(p[0])),
        "FisherF::new" => r!(FisherF::new(p[0], p[1])),
        "Beta::new" => r!(Beta::new(p[0], p[1])),
        "Pert::with_mode" => r!(Pert::new(p[0], p[1]).with_shape(p[2]).with_mode(p[3])),
        "Pert::with_mean" => r!(Pert::new(p[0], p[1]).with_shape(p[2]).with_mean(p[3])),
        "Triangular::new" => r!(Triangular::new(p[0], p[1], p[2])),
        "Cauchy::new" => r!(Cauchy::new(p[0], p[1])),
        "Pareto::new" => r!(Pareto::new(p[0], p[1])),
        "Weibull::new" => r!(Weibull::new(p[0], p[1])),
        "InverseGaussian::new" => r!(InverseGaussian::new(p[0], p[1])),
        "Gumbel::new" => r!(Gumbel::new(p[0], p[1])),
        "Frechet::new" => r!(Frechet::new(p[0], p[1], p[2])),
        "SkewNormal::new" => r!(SkewNormal::new(p[0], p[1], p[2]),
                                |d: &SkewNormal<F>| format!("{},{},{}", d.location().hex(), d.scale().hex(), d.shape().hex())),
        "NormalInverseGaussian::new" => r!(NormalInverseGaussian::new(p[0], p[1])),
        "Poisson::new" => r!(Poisson::new(p[0])),
        "Zeta::new" => r!(Zeta::new(p[0])),
        "Zipf::new" => r!(Zipf::new(p[0], p[1])),
        "Dirichlet::new" => r!(Dirichlet::new(&p), |d: &Dirichlet<F>| format!("{}", d.sample_len())),
        other => format!("badctor:{}", other),
    }
}

pub fn line(toks: &[&str]) -> String {
    let (name, ty) = (toks[1], toks[2]);
    let a: Vec<&str> = if toks.len() < 4 || toks[3] == "-" { vec![] } else { toks[3].split(',').collect() };
    let u = |s: &str| s.parse::<u64>().expect("u64");
    match name {
        "Binomial::new" => r!(Binomial::new(u(a[0]), f64::from_hex(a[1]))),
        "Geometric::new" => r!(Geometric::new(f64::from_hex(a[0]))),
        "Hypergeometric::new" => r!(Hypergeometric::new(u(a[0]), u(a[1]), u(a[2]))),
        _ => if ty == "f32" { fl::<f32>(name, &a) } else { fl::<f64>(name, &a) },
    }
}
