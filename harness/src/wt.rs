//! Weight-type plumbing: parsing/printing of weights for all 13 weight types.
//! Integers: decimal. Floats: `x` + hex bit pattern.
pub trait HW: Copy + PartialOrd + core::fmt::Debug + 'static {
    fn parse(s: &str) -> Option<Self>;
    fn show(&self) -> String;
    /// parse one element of a `Debug`-printed list (exact: Rust prints round-trip decimals)
    fn from_debug(s: &str) -> Self;
}
macro_rules! hw_int {
    ($($t:ty),*) => {$(
        impl HW for $t {
            fn parse(s: &str) -> Option<Self> { s.parse::<$t>().ok() }
            fn show(&self) -> String { format!("{}", self) }
            fn from_debug(s: &str) -> Self { s.parse::<$t>().expect("debug int") }
        }
    )*};
}
hw_int!(u8, u16, u32, u64, u128, usize, i8, i16, i32, i64, i128, isize);
impl HW for f32 {
    fn parse(s: &str) -> Option<Self> {
        let s = s.strip_prefix('x')?;
        u32::from_str_radix(s, 16).ok().map(f32::from_bits)
    }
    fn show(&self) -> String { format!("x{:08x}", self.to_bits()) }
    fn from_debug(s: &str) -> Self { s.parse::<f32>().expect("debug f32") }
}
impl HW for f64 {
    fn parse(s: &str) -> Option<Self> {
        let s = s.strip_prefix('x')?;
        u64::from_str_radix(s, 16).ok().map(f64::from_bits)
    }
    fn show(&self) -> String { format!("x{:016x}", self.to_bits()) }
    fn from_debug(s: &str) -> Self { s.parse::<f64>().expect("debug f64") }
}

pub fn parse_list<W: HW>(s: &str) -> Option<Vec<W>> {
    if s.is_empty() || s == "-" {
        return Some(vec![]);
    }
    s.split(',').map(W::parse).collect()
}
pub fn show_list<W: HW>(v: &[W]) -> String {
    let parts: Vec<String> = v.iter().map(|w| w.show()).collect();
    format!("[{}]", parts.join(","))
}

/// dispatch a generic function over the weight type named by `$ty`
#[macro_export]
macro_rules! dispatch_wty {
    ($ty:expr, $f:ident, $($arg:expr),*) => {
        match $ty {
            "u8" => $f::<u8>($($arg),*),
            "u16" => $f::<u16>($($arg),*),
            "u32" => $f::<u32>($($arg),*),
            "u64" => $f::<u64>($($arg),*),
            "u128" => $f::<u128>($($arg),*),
            "usize" => $f::<usize>($($arg),*),
            "i8" => $f::<i8>($($arg),*),
            "i16" => $f::<i16>($($arg),*),
            "i32" => $f::<i32>($($arg),*),
            "i64" => $f::<i64>($($arg),*),
            "i128" => $f::<i128>($($arg),*),
            "f32" => $f::<f32>($($arg),*),
            "f64" => $f::<f64>($($arg),*),
            other => format!("badtype:{}", other),
        }
    };
}
