//! rdh — correspondence harness for rand_distr. Reads one command per line on stdin,
//! writes one result line per command on stdout (prefixed by the command tag).
mod alias;
mod ctor;
mod rng;
mod multi;
mod samp;
mod ser;
mod tree;
mod wt;
mod zs;

use std::io::{BufRead, Write};

fn tree_line(toks: &[&str]) -> String {
    let ty = toks[1];
    let seed = u64::from_str_radix(toks[2], 16).expect("seed");
    let ops = &toks[3..];
    fn go<W: tree::TW + Default>(seed: u64, ops: &[&str]) -> String {
        tree::run::<W>(seed, ops)
    }
    dispatch_wty!(ty, go, seed, ops)
}

fn alias_line(toks: &[&str]) -> String {
    let ty = toks[1];
    let seed = u64::from_str_radix(toks[2], 16).expect("seed");
    let rest = &toks[3..];
    fn go<W: alias::AW>(seed: u64, rest: &[&str]) -> String
    where
        <W as rand::distr::uniform::SampleUniform>::Sampler: core::fmt::Debug,
    {
        alias::run::<W>(seed, rest)
    }
    dispatch_wty!(ty, go, seed, rest)
}

fn zig_line() -> String {
    let mut parts: Vec<String> = vec![];
    for which in 0..2 {
        let (x, f, r) = rand_distr::verif_hooks::zig_tables(which);
        let xs: Vec<String> = x.iter().map(|v| format!("{:016x}", v.to_bits())).collect();
        let fs: Vec<String> = f.iter().map(|v| format!("{:016x}", v.to_bits())).collect();
        parts.push(format!("{}|{}|{:016x}", xs.join(","), fs.join(","), r.to_bits()));
    }
    parts.join(";")
}

fn dispatch(line: &str) -> String {
    let toks: Vec<&str> = line.split_whitespace().collect();
    if toks.is_empty() {
        return String::new();
    }
    match toks[0] {
        "tree" => tree_line(&toks),
        "alias" => alias_line(&toks),
        "samp" => samp::line(&toks),
        "ctor" => ctor::line(&toks),
        "serde" => ser::line(&toks),
        "sweep" => samp::sweep(&toks),
        "ks" => samp::ks(&toks),
        "many" => samp::many(&toks),
        "lat" => samp::lat(&toks),
        "pure" => samp::pure(&toks),
        "multi" => multi::line(&toks),
        "zscore" => zs::line(&toks),
        "manyv" => multi::manyv(&toks),
        "zig" => zig_line(),
        "ping" => "pong".to_string(),
        other => format!("unknown:{}", other),
    }
}

fn main() {
    std::panic::set_hook(Box::new(|_| {}));
    // RDH_TIMEOUT_MS: wall-clock watchdog per command; a command that does not finish prints HANG
    // (its thread keeps spinning until the process exits)
    let timeout_ms: Option<u64> = std::env::var("RDH_TIMEOUT_MS").ok().and_then(|s| s.parse().ok());
    let stdin = std::io::stdin();
    let stdout = std::io::stdout();
    let mut out = std::io::BufWriter::new(stdout.lock());
    for line in stdin.lock().lines() {
        let line = line.unwrap();
        if line.trim().is_empty() {
            continue;
        }
        let r = match timeout_ms {
            None => dispatch(&line),
            Some(ms) => {
                let (tx, rx) = std::sync::mpsc::channel();
                let l = line.clone();
                std::thread::Builder::new()
                    .stack_size(64 << 20)
                    .spawn(move || {
                        let r = std::panic::catch_unwind(std::panic::AssertUnwindSafe(|| dispatch(&l)))
                            .unwrap_or_else(|_| "CRASH:panic".to_string());
                        let _ = tx.send(r);
                    })
                    .unwrap();
                rx.recv_timeout(std::time::Duration::from_millis(ms)).unwrap_or_else(|_| "HANG".to_string())
            }
        };
        writeln!(out, "{}", r).unwrap();
        out.flush().unwrap();
    }
}
