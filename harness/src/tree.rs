//! WeightedTreeIndex histories.
//! line:  tree <ty> <seedhex> <op> <op> ...
//!   N:w1,w2,..   new (on Err/panic the current tree is kept)
//!   P:w          push
//!   O            pop
//!   U:i:w        update
//!   S:hexwords   try_sample with the scripted word prefix (then SplitMix from seed)
//! output: one `;`-separated record per op:  <out>|<len>,<is_empty>,<is_valid>|[subtotals]|[gets]|<eqfresh>
use crate::rng::{ScriptRng, parse_words};
use crate::wt::{HW, parse_list, show_list};
use core::ops::SubAssign;
use rand::distr::uniform::SampleUniform;
use rand_distr::weighted::{Weight, WeightedTreeIndex};
use std::panic::{AssertUnwindSafe, catch_unwind};

pub trait TW: HW + Clone + PartialEq + PartialOrd + SampleUniform + SubAssign<Self> + Weight + serde::Serialize {}
impl<T: HW + Clone + PartialEq + PartialOrd + SampleUniform + SubAssign<T> + Weight + serde::Serialize> TW for T {}

fn debug_subtotals<W: TW>(t: &WeightedTreeIndex<W>) -> String {
    // Debug prints `WeightedTreeIndex { subtotals: [a, b, c] }`
    let s = format!("{:?}", t);
    let a = s.find('[').unwrap();
    let b = s.rfind(']').unwrap();
    let inner = s[a + 1..b].replace(' ', "");
    let v: Vec<W> = if inner.is_empty() { vec![] } else { inner.split(',').map(|x| W::from_debug(x)).collect() };
    show_list(&v)
}

fn state<W: TW>(t: &WeightedTreeIndex<W>, floaty: bool) -> String {
    let n = t.len();
    let gets: Vec<W> = (0..n)
        .map(|i| catch_unwind(AssertUnwindSafe(|| t.get(i))))
        .filter_map(|r| r.ok())
        .collect();
    let gets_ok = gets.len() == n;
    let eqfresh = if gets_ok {
        match catch_unwind(AssertUnwindSafe(|| WeightedTreeIndex::new(gets.clone()))) {
            Ok(Ok(f)) => {
                if f == *t { "eq" } else { "ne" }
            }
            Ok(Err(_)) => "freshErr",
            Err(_) => "freshPanic",
        }
    } else {
        "getPanic"
    };
    let _ = floaty;
    let subs = debug_subtotals(t);
    format!(
        "{},{},{}|{}|{}|{}",
        n,
        t.is_empty() as u8,
        t.is_valid() as u8,
        subs,
        if gets_ok { show_list(&gets) } else { "getPanic".to_string() },
        eqfresh
    )
}

pub fn run<W: TW + Default>(seed: u64, ops: &[&str]) -> String {
    let floaty = core::any::type_name::<W>().starts_with('f');
    let mut t: WeightedTreeIndex<W> = WeightedTreeIndex::new(Vec::<W>::new()).unwrap();
    let mut out: Vec<String> = vec![];
    for op in ops {
        let parts: Vec<&str> = op.split(':').collect();
        let r: String = match parts[0] {
            "N" => {
                let ws: Vec<W> = parse_list(parts.get(1).copied().unwrap_or("")).expect("weights");
                match catch_unwind(AssertUnwindSafe(|| WeightedTreeIndex::new(ws))) {
                    Ok(Ok(nt)) => {
                        t = nt;
                        "ok".into()
                    }
                    Ok(Err(e)) => format!("E:{:?}", e),
                    Err(_) => "panic".into(),
                }
            }
            "P" => {
                let w = W::parse(parts[1]).expect("weight");
                match catch_unwind(AssertUnwindSafe(|| t.push(w))) {
                    Ok(Ok(())) => "ok".into(),
                    Ok(Err(e)) => format!("E:{:?}", e),
                    Err(_) => "panic".into(),
                }
            }
            "O" => match catch_unwind(AssertUnwindSafe(|| t.pop())) {
                Ok(Some(w)) => format!("some:{}", w.show()),
                Ok(None) => "none".into(),
                Err(_) => "panic".into(),
            },
            "U" => {
                let i: usize = parts[1].parse().expect("index");
                let w = W::parse(parts[2]).expect("weight");
                match catch_unwind(AssertUnwindSafe(|| t.update(i, w))) {
                    Ok(Ok(())) => "ok".into(),
                    Ok(Err(e)) => format!("E:{:?}", e),
                    Err(_) => "panic".into(),
                }
            }
            "S" => {
                let words = parse_words(parts.get(1).copied().unwrap_or(""));
                let mut rng = ScriptRng::new(words, seed);
                match catch_unwind(AssertUnwindSafe(|| t.try_sample(&mut rng))) {
                    Ok(Ok(i)) => format!("idx:{}:{}", i, rng.count),
                    Ok(Err(e)) => format!("E:{:?}:{}", e, rng.count),
                    Err(_) => "panic".into(),
                }
            }
            other => format!("badop:{}", other),
        };
        out.push(format!("{}|{}", r, state(&t, floaty)));
    }
    out.join(";")
}
