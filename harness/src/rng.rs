//! Scripted RNG: a prefix of chosen 64-bit words, then SplitMix64 from a seed.
//! `next_u32` returns the HIGH 32 bits of the next word. Counts words consumed.
use rand::rand_core::Infallible;

#[derive(Clone, Debug)]
pub struct ScriptRng {
    pub words: Vec<u64>,
    pub pos: usize,
    pub state: u64,
    pub count: u64,
    /// panic when more than this many words are drawn (0 = no limit): turns a non-terminating rejection loop into a caught panic
    pub limit: u64,
}

impl ScriptRng {
    pub fn new(words: Vec<u64>, seed: u64) -> Self {
        ScriptRng { words, pos: 0, state: seed, count: 0, limit: 0 }
    }
    #[inline]
    pub fn word(&mut self) -> u64 {
        self.count += 1;
        if self.limit != 0 && self.count > self.limit {
            panic!("word limit exceeded");
        }
        if self.pos < self.words.len() {
            let w = self.words[self.pos];
            self.pos += 1;
            w
        } else {
            self.pos += 1;
            self.state = self.state.wrapping_add(0x9E3779B97F4A7C15);
            let mut z = self.state;
            z = (z ^ (z >> 30)).wrapping_mul(0xBF58476D1CE4E5B9);
            z = (z ^ (z >> 27)).wrapping_mul(0x94D049BB133111EB);
            z ^ (z >> 31)
        }
    }
}

impl rand::TryRng for ScriptRng {
    type Error = Infallible;
    #[inline]
    fn try_next_u32(&mut self) -> Result<u32, Infallible> {
        Ok((self.word() >> 32) as u32)
    }
    #[inline]
    fn try_next_u64(&mut self) -> Result<u64, Infallible> {
        Ok(self.word())
    }
    fn try_fill_bytes(&mut self, dst: &mut [u8]) -> Result<(), Infallible> {
        for chunk in dst.chunks_mut(8) {
            let b = self.word().to_le_bytes();
            chunk.copy_from_slice(&b[..chunk.len()]);
        }
        Ok(())
    }
}

pub fn parse_words(s: &str) -> Vec<u64> {
    if s.is_empty() || s == "-" {
        return vec![];
    }
    s.split(',').map(|w| u64::from_str_radix(w, 16).expect("hex word")).collect()
}
