#!/bin/bash
# Build the framework from files on disk only (offline): Rust harness against /repo, full Coq .vo build.
set -e
cd "$(dirname "$0")"
export CARGO_NET_OFFLINE=true RUSTFLAGS="--cfg rand_distr_verif"
mkdir -p build evidence
(cd harness && cargo build --offline 2>&1 | tail -3)
(cd harness && cargo build --offline --release 2>&1 | tail -3)
if [ -d rs2coq ] && [ -f rs2coq/Cargo.toml ]; then (cd rs2coq && cargo build --offline --release 2>&1 | tail -3); fi
if [ -x ./sync_gen ]; then ./sync_gen; fi
cd coq
coq_makefile -f _CoqProject -o Makefile
timeout 3000 make -j16 2>&1 | grep -v "^Closed under\|^COQC\|^COQDEP" | tail -20
echo "setup done"
