"""C10 — WeightedTreeIndex samples proportionally to the current weights."""
import struct
from common import *
import treelib as T

PID = "C10"
LEVEL = "proof"
COQ_TARGETS = ["Props/C10.vo", "Props/C10_fp.vo", "Props/C10_float.vo"]
PROPS_FILES = ["C10", "C10_fp", "C10_float"]
THEOREMS = ["C10_float_assert_refuted", "C10_float_new_errors", "C10_float_error_atomic", "C10_fingerprints", "C10_try_sample_ok", "C10_proportional", "C10_zero_total", "C10_after_history",
            "C10_canon_in_range", "C10_nonvacuous"]
TRUSTED_BASE = [
    "Coq 8.16.1 kernel + vm_compute; all C10 theorems print 'Closed under the global context'",
    "hand-written models coq/Model/Tree.v (descent of try_sample) and coq/Model/Uniform.v (rand 0.10 Canon range "
    "reduction, default biased variant), tied to the code by correspondence on identical (history, RNG words)",
    "uniformity of the target: rand's sample_single is modelled (C10_canon_in_range proves range safety); its "
    "documented bias (<= 1 in 2^64 samples for 64-bit weights) is rand's, stated not hidden",
    "float weight types: direct oracle only; known finding F7 (assertion panic) is listed, not proved about",
]
ASSUMPTIONS = ["rand::Rng plumbing (next_u32 = high half of a word is the harness RNG's convention)",
               "events needing two specific words simultaneously are outside the quantifier"]

FTYPES = {"f32": ("<f", "<I", 8), "f64": ("<d", "<Q", 16)}


def fbits(ty, x):
    p, u, n = FTYPES[ty]
    return "x%0*x" % (n, struct.unpack(u, struct.pack(p, x))[0])


def gen_cases(ctx):
    rng, tier = ctx["rng"], ctx["tier"]
    cases = []
    nrand = 30 if tier == "quick" else 500
    for ty in T.ITYPES:
        for _ in range(nrand):
            cases.append((ty, T.random_history(rng, ty, 10 + rng.below(40 if tier == "quick" else 200), True), "random"))
    return cases


def enum_cases(ctx):
    """exact law: for small totals enumerate every target through crafted words."""
    rng, tier = ctx["rng"], ctx["tier"]
    res = []
    n = 40 if tier == "quick" else 600
    for k in range(n):
        ty = rng.choice(["u8", "u16", "u32", "u64", "i8", "i32", "i64", "usize", "u128", "i128"])
        lo, hi, sk = T.ITYPES[ty]
        ln = rng.choice([1, 2, 3, 4, 5, 6, 7, 8, 9, 12, 16, 17])
        cap = min(hi, 255 if tier == "quick" else 4095)
        ws = []
        for _ in range(ln):
            room = cap - sum(ws)
            ws.append(0 if room <= 0 or rng.chance(1, 4) else rng.below(min(room, 40)) + (1 if rng.chance(1, 2) else 0))
        if sum(ws) == 0:
            ws[rng.below(ln)] = 1
        # reach the state through a short history so that it is not only a fresh build
        ops = [("N", ws[:max(1, ln // 2)])]
        for w in ws[max(1, ln // 2):]:
            ops.append(("P", w))
        i = rng.below(ln)
        ops.append(("U", i, (ws[i] + 1) if sum(ws) < cap else ws[i]))
        ops.append(("U", i, ws[i]))
        total = sum(ws)
        bits = 32 if (sk == "SK32" or (sk == "SKusize")) else (64 if sk == "SK64" else 128)
        M = 1 << bits
        for tgt in range(total):
            w1 = -((-tgt * M) // total)          # ceil(tgt*M/total): smallest draw whose high part is tgt
            if bits == 32: words = [w1 << 32, 0]
            elif bits == 64: words = [w1, 0]
            else: words = [w1 & (2**64 - 1), w1 >> 64, 0, 0]
            ops.append(("S", words))
        res.append((ty, ops, ws))
    return res


def float_cases(ctx):
    """random float trees x the largest draw: direct oracle only (F7 class)."""
    rng, tier = ctx["rng"], ctx["tier"]
    n = 300 if tier == "quick" else 20000
    lines, meta = [], []
    for k in range(n):
        ty = "f32" if k % 2 == 0 else "f64"
        ln = 2 + rng.below(7)
        ws = [(rng.below(1 << 24) + 1) / float(1 << 24) for _ in range(ln)]
        words = rng.choice([[2**64 - 1], [2**64 - 2**32], [2**64 - 2**40], [rng.u64()]])
        line = "tree %s 0 N:%s S:%s" % (ty, ",".join(fbits(ty, w) for w in ws), ",".join("%x" % w for w in words))
        lines.append(line); meta.append((ty, ws, words))
    return lines, meta


def correspond(ctx):
    cases = gen_cases(ctx)
    enum = enum_cases(ctx)
    allc = [(ty, ops, kind) for ty, ops, kind in cases] + [(ty, ops, "enumerate") for ty, ops, ws in enum]
    lines = [T.harness_line(ty, ops) for ty, ops, _ in allc]
    flines, fmeta = float_cases(ctx)
    outs = run_harness_parallel(ctx["binary"], lines + flines)
    fouts = outs[len(lines):]
    outs = outs[:len(lines)]
    coq_cases, parsed = [], []
    for (ty, ops, kind), o in zip(allc, outs):
        recs = [T.parse_rec(r) for r in o.split(";")]
        parsed.append(recs)
        coq_cases.append(T.case_to_coq(ty, ops, recs))
    failing = coq_eval_failing("C10", T.HEADER, coq_cases, shard=60 if ctx["tier"] == "quick" else 150)
    oracle_failures, mismatches = [], []
    nsamples, two_word, distinct = 0, 0, set()
    for n, ((ty, ops, kind), recs) in enumerate(zip(allc, parsed)):
        for why in (T.oracle_c09(ty, ops, recs), T.oracle_c10_sample(ty, ops, recs)):
            if why:
                oracle_failures.append({"property": PID, "type": ty, "harness_line": lines[n], "what": why,
                                        "class": "int-tree-sample"})
        for op, r in zip(ops, recs):
            if op[0] == "S":
                nsamples += 1
                if r["out"].endswith(":2") or r["out"].endswith(":4"):
                    two_word += 1
                distinct.add((ty, tuple(r["gets"] or []), tuple(op[1])))
    # exact law on the enumerated cases
    enumerated_targets = 0
    for (ty, ops, ws), recs in zip(enum, parsed[len(cases):]):
        counts = [0] * len(ws)
        bad = None
        for op, r in zip(ops, recs):
            if op[0] != "S":
                continue
            enumerated_targets += 1
            if not r["out"].startswith("idx:"):
                bad = "try_sample returned %s" % r["out"]; break
            counts[int(r["out"].split(":")[1])] += 1
        if bad is None and counts != ws:
            bad = "over all %d targets the index counts are %s but the weights are %s" % (sum(ws), counts, ws)
        if bad:
            oracle_failures.append({"property": PID, "type": ty, "harness_line": T.harness_line(ty, ops),
                                    "what": bad, "class": "int-tree-law"})
    for n in failing:
        ty, ops, kind = allc[n]
        mismatches.append({"type": ty, "harness_line": lines[n], "rust": outs[n], "kind": kind})
    # floats
    fpanic = 0
    for line, (ty, ws, words), o in zip(flines, fmeta, fouts):
        recs = o.split(";")
        s = recs[1].split("|")
        valid = s[1].split(",")[2] == "1"
        if s[0] == "panic" and valid:
            fpanic += 1
            oracle_failures.append({"property": PID, "type": ty, "harness_line": line, "class": "float-tree-assert",
                                    "what": "try_sample panicked although is_valid() (float weights %s, words %s)" % (ws, words)})
        elif s[0].startswith("idx:"):
            i = int(s[0].split(":")[1])
            if i >= len(ws):
                oracle_failures.append({"property": PID, "type": ty, "harness_line": line, "class": "float-tree-range",
                                        "what": "index %d out of range" % i})
    return {
        "evaluations": len(allc) + len(flines), "distinct_nontrivial": len(distinct),
        "rule": "random update histories with interleaved try_sample calls on scripted words (lattice + random), all 11 integer "
                "weight types, compared step by step with the Coq model (target via the Canon model, then the descent); "
                "plus exact enumeration of every target of small-total trees through crafted words (index counts must equal "
                "the weights); plus random f32/f64 trees x largest draw through the direct oracle. distinct = distinct "
                "(type, weight list, words) sample situations",
        "samples": [lines[0], lines[len(cases)] if enum else lines[-1], flines[0]],
        "mismatches": mismatches, "oracle_failures": oracle_failures,
        "extra": {"sample_calls": nsamples, "two_draw_canon_paths": two_word, "enumerated_targets": enumerated_targets,
                  "enumerated_trees": len(enum), "float_trees": len(flines), "float_assert_panics": fpanic},
    }


def match_known(f, kf):
    for k in kf:
        if k.get("class") == f.get("class") == "float-tree-assert" and f.get("type") in ("f32", "f64"):
            return k
    return None


def replay_known(ctx, k):
    if k.get("class") != "float-tree-assert":
        return None
    out = run_harness(ctx["binary"], [k["witness"]["harness_line"]])[0]
    if out.split(";")[-1].startswith("panic|"):
        return {"what": k["what"], "harness_line": k["witness"]["harness_line"]}
    return None


def replay(ctx, obj):
    print("rust :", run_harness(ctx["binary"], [obj["harness_line"]])[0])
