"""C05 — sampling terminates with a small, bounded consumption of random words."""
from common import *
import samplib as S
import c03

PID = "C05"
LEVEL = "proof"
NEED_RELEASE = True
COQ_TARGETS = ["Props/C05.vo", "Props/C05_fp.vo", "Props/C05_bounds.vo"]
PROPS_FILES = ["C05", "C05_fp", "C05_bounds"]
THEOREMS = ["C05_btpe_loop_words", "C05_h2pe_loop_words", "C05_geometric_new_terminates", "C05_binv_inner_no_fuel_exhaustion", "C05_knuth_words", "C05_hin_loop_no_fuel_exhaustion", "C05_std_geometric_words", "C05_fingerprints", "C05_zig_first_pass_norm", "C05_zig_first_pass_exp", "C05_canon_words", "C05_lemire_words", "C05_tree_descent_terminates"]
TRUSTED_BASE = [
    "Coq 8.16.1 kernel; first-pass return probability of the ziggurat from the regenerated tables by reflection (>= 0.985 normal, >= 0.977 "
    "exponential); word bounds of rand's Canon/Lemire range reduction; termination of the tree descent; the inner-loop identities of "
    "Props/C02_identities.v (BINV restart fuel 111, Knuth count, geometric block decomposition)",
    "the sampler models (Continuous.v / Discrete.v) carry explicit fuel (64 passes per rejection loop); C01/C02's pathwise correspondence "
    "compares the number of words consumed on every case, so a model/implementation divergence in consumption is a correspondence failure",
    "acceptance-rate constants of Marsaglia-Tsang, Cheng BB/BC, BTPE, H2PE, PD, Zeta, Zipf are the papers' and are NOT proved: the measured mean "
    "and maximum words per call over the parameter grid are compared with fixed family bounds by the direct oracle (counting RNG with a "
    "10^5-word limit + wall-clock watchdog around the real sample())",
]
ASSUMPTIONS = ["CPU-time bound is observed (watchdog), not proved", "fully constant streams are excluded"]

# fixed a priori: mean words per call never above this for parameters in E (papers' worst cases are < 10)
MEAN_BOUND = 24.0
MAX_WORDS = 100000


def points(ctx):
    rng, tier = ctx["rng"], ctx["tier"]
    pts = [p for p in c03.points(ctx) if not (p[0] == "hypergeometric" and int(p[2][0]) > 10**7)]
    # integer extremes explicitly (C05 includes them)
    for n in c03.INT_EXTREMES + [2**63, 2**64 - 3]:
        for p in (0.5, 1e-3, 0.999, 10.5 / max(n, 1) if n > 20 else 0.3):
            pts.append(("binomial", "u64", [str(n), S.f_bits("f64", min(max(p, 0.0), 1.0))]))
    # BINV regime (n*min(p,1-p) < 10) with huge n: the inverse-transform walk must stay bounded (restart at BINV_MAX_X) although
    # the tabulated mass falls short of the largest uniform draw
    for n in (10**6, 10**9, 2**40, 10**10, 4 * 10**16, 2**53 + 1, 2**62, 2**64 - 1):
        for c in (0.5, 1.0, 3.0, 9.9):
            pts.append(("binomial", "u64", [str(n), S.f_bits("f64", c / n)]))
        if n < 2**50:
            pts.append(("binomial", "u64", [str(n), S.f_bits("f64", 1.0 - 2.0 / n)]))
    # huge populations only where the constructor is cheap (H2PE; the HIN constructor loops ~N times, which is construction cost)
    for N in (2**40, 2**40 - 1, 10**9):
        for K, n in ((N // 2, N // 2), (N // 3, N // 5), (N - 1000, N - 1000), (N // 2, 1000)):
            pts.append(("hypergeometric", "u64", [str(N), str(K), str(n)]))
    for lam in (1e-3, 11.999, 12.0, 1e6, 1e15):     # envelope E: lambda <= 1e15 (see DESIGN.md: acceptance collapses above 1e17)
        pts.append(("poisson", "f64", [S.f_bits("f64", lam)]))
    for s in (1.0000001, 1.01, 1.05, 50.0):
        pts.append(("zeta", "f64", [S.f_bits("f64", s)]))
    for p in (1e-300, 1e-12, 0.0, 1.0):
        pts.append(("geometric", "u64", [S.f_bits("f64", p)]))
    # "no parameter value makes sampling loop forever": every accepted parameter, also far outside the box of E — the extremes of the
    # float range for every parameter of every continuous family (termination and word count only are judged here)
    import itertools
    ext = {"f64": [1e-300, 1e-100, 1.0, 1e100, 1e155, 1e300, 1.7e308], "f32": [1e-38, 1e-20, 1.0, 1e19, 2e19, 3e38]}
    arity = {"normal": 2, "lognormal": 2, "exp": 1, "gamma": 2, "chisq": 1, "studentt": 1, "fisherf": 2, "beta": 2, "cauchy": 2, "pareto": 2,
             "weibull": 2, "gumbel": 2, "frechet": 3, "skewnormal": 3, "invgauss": 2, "nig": 2, "zeta": 1, "zipf": 2, "triangular": 3, "pert": 4}
    for fam, k in arity.items():
        for ty in ("f64", "f32"):
            for t in itertools.product(ext[ty], repeat=min(k, 2)):
                vals = list(t) + [1.0] * (k - len(t))
                if fam in ("triangular", "pert"):
                    vals = [0.0, t[0], t[0] / 2] + ([t[1]] if fam == "pert" else [])
                pts.append((fam, ty, [S.f_bits(ty, S.f_round(ty, v)) for v in vals]))
    return pts


def correspond(ctx):
    rng, tier = ctx["rng"], ctx["tier"]
    pts = points(ctx)
    nrand = 3000 if tier == "quick" else 100000
    lines, meta = [], []
    adv = [0, 2**64 - 1, 2**63, 2**64 - 2**11, (1 << 11) - 1, 0xFFFFFFFFFFFFF000]
    for fam, ty, ps in pts:
        lines.append("many %s %s %s %x %d" % (fam, ty, ",".join(ps) or "-", rng.u64(), nrand)); meta.append((fam, ty, ps, "random"))
        for pos in range(3):
            for w in adv:
                lines.append("many %s %s %s %x %d %d:%x" % (fam, ty, ",".join(ps) or "-", rng.u64(), 60 if tier == "quick" else 600, pos, w))
                meta.append((fam, ty, ps, "adv%d:%x" % (pos, w)))
    outs = run_harness_guarded_parallel(ctx["binary_release"], lines, batch_timeout=180, line_timeout=10, chunk=19)
    oracle_failures = []
    calls, worst_mean, worst_max, hangs = 0, (0.0, None), (0, None), 0
    per_family = {}
    for line, (fam, ty, ps, mode), o in zip(lines, meta, outs):
        if o.startswith("E:") or o.startswith("ctorpanic") or o.startswith("bad"):
            continue
        if o == "HANG" or o.startswith("CRASH"):
            hangs += 1
            cls = "hang"
            if fam == "binomial" and int(ps[0]) >= 2**62:
                pv = S.bits_val("f64", ps[1])
                # F9 is a BTPE-only defect (region 4's saturating cast): n*min(p,1-p) >= 10
                if int(ps[0]) * min(pv, 1.0 - pv) >= 10.0:
                    cls = "btpe-saturating-cast-walk"
            oracle_failures.append({"property": PID, "class": cls, "family": fam, "params": ps, "harness_line": line,
                                    "what": "%s(%s): sample() did not return within the 10 s watchdog (%s, %s)" % (fam, ",".join(ps), mode, o)})
            continue
        f = dict(x.split("=", 1) for x in o.split(" "))
        n = int(f["n"]); calls += n
        mean, mx = float(f["meanwords"]), int(f["maxwords"])
        st = per_family.setdefault("%s/%s" % (fam, ty), {"mean_max": 0.0, "max": 0})
        if mode == "random": st["mean_max"] = max(st["mean_max"], mean)
        st["max"] = max(st["max"], mx)
        if mode == "random" and mean > worst_mean[0]: worst_mean = (mean, line[:120])
        if mx > worst_max[0]: worst_max = (mx, line[:120])
        # a documented exception: Zeta with s so close to 1 that every proposal overflows returns +inf immediately
        if "panic(words=" in f["first"] and int(f["panic"]) > 0:
            oracle_failures.append({"property": PID, "class": "word-limit", "family": fam, "params": ps, "harness_line": line,
                                    "what": "%s(%s): a sample consumed more than %d words (%s)" % (fam, ",".join(ps), MAX_WORDS, f["first"])})
        elif mode == "random" and mean > MEAN_BOUND:
            oracle_failures.append({"property": PID, "class": "mean-words", "family": fam, "params": ps, "harness_line": line,
                                    "what": "%s(%s): mean %.2f words per call over %d random streams exceeds the family bound %.0f" % (fam, ",".join(ps), mean, n, MEAN_BOUND)})
    return {
        "evaluations": calls, "distinct_nontrivial": len(lines),
        "rule": "every sampler x parameter points of E incl. the integer extremes of n, N (0,1,2,2^32+-1,2^53+-1,2^62,2^63+-1,u64::MAX-1,u64::MAX), tiny/huge "
                "shape and rate, values adjacent to method thresholds: %d seeded random streams each plus single adversarial words at positions 0-2; "
                "counting RNG with a 10^5-word limit, 10 s wall-clock watchdog per job; mean words <= %.0f, max words <= 10^5" % (nrand, MEAN_BOUND),
        "samples": [lines[0][:200], outs[0][:200]],
        "mismatches": [], "oracle_failures": oracle_failures,
        "extra": {"worst_mean_words": worst_mean, "worst_max_words": worst_max, "watchdog_hangs": hangs, "per_family": per_family,
                  "parameter_points": len(pts)},
    }


def match_known(f, kf):
    for k in kf:
        if k.get("class") == f.get("class"):
            return k
    return None


def replay_known(ctx, k):
    w = k.get("witness", {})
    if "harness_line" not in w:
        return None
    out = run_harness_guarded(ctx["binary_release"], [w["harness_line"]], line_timeout=6)[0]
    if out == "HANG":
        return {"what": k["what"], "harness_line": w["harness_line"]}
    return None


def replay(ctx, obj):
    print("rust :", run_harness_guarded(ctx["binary_release"], [obj["harness_line"]], line_timeout=20)[0])
