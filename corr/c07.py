"""C07 — location and scale parameters act as exact affine maps on a fixed random stream."""
import math, struct
from common import *
import samplib as S

PID = "C07"
LEVEL = "proof"
COQ_TARGETS = ["Props/C07.vo", "Props/C07_fp.vo", "Props/C07_fl.vo", "Props/C07_scale.vo"]
PROPS_FILES = ["C07", "C07_fp", "C07_fl", "C07_scale"]
THEOREMS = ["C07_fingerprints", "C07_from_zscore_fl_def", "C07_from_zscore_fl_value", "C07_from_zscore_fl_error", "C07_scale_pow2_exact",
            "C07_from_zscore_fl_nan", "C07_from_zscore_fl_z_inf", "C07_from_zscore_fl_sd_zero",
            "C07_affine_sub_fl_def", "C07_affine_sub_fl_value", "C07_affine_sub_fl_error", "C07_fl_source",
            "C07_scale_fl_def", "C07_scale_source", "C07_scale_fl_value", "C07_scale_fl_error", "C07_scale_fl_comm_value", "C07_scale_fl_nonneg",
            "C07_scale_fl_monotone", "C07_scale_fl_pow2", "C07_recip_source", "C07_recip_fl_value", "C07_neg_recip_fl_value",
            "C07_exp_sample_fl_def", "C07_exp_sample_fl_error", "C07_scale_fl_ge_scale"]
TRUSTED_BASE = [
    "Coq 8.16.1 kernel; Proofs/Equivariance.v: on the sampler models (coq/Model/Continuous.v, tied to the code by C01's pathwise "
    "correspondence) the decision tree for (loc, scale) is the decision tree of the standard sampler with the affine expression applied at "
    "the leaves: same decisions, same words, value = loc + scale * standard value",
    "Props/C07_fl.v (Flocq BinarySingleNaN; Proofs/AffineFl.v): the IEEE program Bplus mean (Bmult sd z) of Normal::from_zscore - value = nested "
    "rounding, error bound u|m+sz| + u(2+u)|sz| + (1+u)eta against the real affine map, exact power-of-two scaling, NaN / infinity / sd = 0 cases; "
    "Flocq's model of IEEE-754 binary arithmetic is trusted to describe the hardware + and *",
    "direct oracle on the real crate (independent of the model): paired sample() calls on identical word streams; where the code applies the "
    "map as its last IEEE operations the transformed bits are recomputed exactly from the standard bits (round-to-nearest f32/f64 arithmetic "
    "in python; double rounding through binary64 is innocuous for binary32 + - * /), elsewhere within a stated ulp budget; word counts equal",
]
ASSUMPTIONS = ["python float arithmetic is IEEE binary64", "libm exp within 2 ulp for LogNormal"]


def r32(x):
    try:
        return struct.unpack("<f", struct.pack("<f", x))[0]
    except OverflowError:
        return math.copysign(math.inf, x)


def rnd(ty, x):
    return r32(x) if ty == "f32" else x


def ulp(ty, x):
    x = abs(x)
    if x == 0 or not math.isfinite(x): return 0.0
    return (S.nextafter(ty, rnd(ty, x), True) - rnd(ty, x))


# family -> (standard params, expected(ty, base_value, params) -> (expected value, ulp tolerance))
def relation(fam, ty, p, base):
    R = lambda x: rnd(ty, x)
    if fam == "normal": return R(p[0] + R(p[1] * base)), 0
    if fam == "lognormal":
        try:
            return math.exp(base), 2     # base = Normal(mu, sigma) sample on the same stream; libm exp within 2 ulp
        except OverflowError:
            return None, 0
    if fam == "exp": return R(base * R(1.0 / p[0])), 0
    if fam == "cauchy": return R(p[0] + R(p[1] * base)), 0
    if fam == "gumbel": return R(p[0] - R(p[1] * (-base))), 0          # standard (0,1): 0 - 1*g = -g
    if fam == "frechet": return R(p[0] + R(p[1] * base)), 0
    if fam == "skewnormal": return R(R(base * p[1]) + p[0]), 0
    if fam in ("weibull", "pareto"): return R(p[0] * base), 0
    if fam == "gamma":
        # shape < 1: the code multiplies by the scale LAST ((a*b*d) * scale, gamma.rs "do it last to avoid inf * 0"), so the sample is
        # finite whenever the map of the standard sample is; shape >= 1: v * (d*scale) (d*scale may overflow first). Values within 3 ulp.
        return base * p[1], 3
    if fam == "invgauss": return R(base * p[2]), 0      # c is a power of two: every operation scales exactly
    return None, 0


def standard_params(fam, ty, p):
    if fam in ("normal", "cauchy", "gumbel"): return (0.0, 1.0)
    if fam == "lognormal": return p            # base sampler is Normal(mu, sigma): see BASE_FAMILY
    if fam == "exp": return (1.0,)
    if fam == "frechet": return (0.0, 1.0, p[2])
    if fam == "skewnormal": return (0.0, 1.0, p[2])
    if fam in ("weibull", "pareto"): return (1.0, p[1])
    if fam == "gamma": return (p[0], 1.0)
    if fam == "invgauss": return (p[0], p[1])
    return None


BASE_FAMILY = {"lognormal": "normal"}
FAMS = ["normal", "lognormal", "exp", "cauchy", "gumbel", "frechet", "skewnormal", "weibull", "pareto", "gamma", "invgauss"]


def correspond(ctx):
    rng, tier = ctx["rng"], ctx["tier"]
    npts = 6 if tier == "quick" else 60
    nstreams = 30 if tier == "quick" else 300
    jobs = []
    for fam in FAMS:
        for ty in ("f64", "f32"):
            got = 0
            for _ in range(500):
                if got >= npts: break
                p = tuple(S.f_round(ty, v) for v in S.fam_params(fam, rng, ty))
                if not S.in_envelope(fam, ty, p): continue
                if fam in ("normal", "lognormal") and got == 0:
                    p = (p[0], 0.0)               # zero scale is accepted by the constructor: same words must be consumed
                if fam == "normal" and got == 1:
                    p = (p[0], -0.0)
                if fam == "invgauss":
                    # the scale enters inside a cancelling expression: the relation is exact only for c = 2^k
                    c = 2.0 ** (rng.below(21) - 10); p = (p[0], p[1], c); tp = (p[0] * c, p[1] * c)
                else:
                    tp = p
                sp = standard_params(fam, ty, p)
                got += 1
                for s in range(nstreams):
                    words = S.adversarial_words(rng, 24, rng.below(4), rng.choice(S.LATTICE)) if s % 5 == 4 else S.random_words(rng, 24)
                    jobs.append((fam, ty, p, sp, tp, words))
    # Gamma with shape < 1 at the extremes of the scale range (beyond the box of E; the source promises the scale is applied last
    # so that no intermediate overflows): the map must still be the single final product
    for ty in ("f64", "f32"):
        big = [1.7e308, 1e308, 3e307, 1e300] if ty == "f64" else [3.3e38, 1e38, 4e37]
        small = [1e-300, 5e-324] if ty == "f64" else [1e-38, 1e-45]
        for shape in (0.9, 0.5, 0.1, 0.002):
            for sc in big + small:
                p = (S.f_round(ty, shape), S.f_round(ty, sc)); sp = (p[0], 1.0)
                for s in range(nstreams // 2):
                    jobs.append(("gamma", ty, p, sp, p, S.random_words(rng, 24)))
    lines = []
    for fam, ty, p, sp, tp, words in jobs:
        w = ",".join("%x" % x for x in words)
        lines.append("samp %s %s %s 0 %s" % (BASE_FAMILY.get(fam, fam), ty, ",".join(S.f_bits(ty, v) for v in sp), w))
        lines.append("samp %s %s %s 0 %s" % (fam, ty, ",".join(S.f_bits(ty, v) for v in tp[:len(sp)]), w))
    outs = run_harness_parallel(ctx["binary"], lines)
    oracle_failures = []
    stats = {"exact": 0, "within_ulp": 0, "skipped_nonfinite": 0, "count_mismatch": 0}
    per = {}
    for i, (fam, ty, p, sp, tp, words) in enumerate(jobs):
        a, b = outs[2 * i], outs[2 * i + 1]
        if ":" not in a or ":" not in b or a.startswith("E:") or b.startswith("E:") or "panic" in a or "panic" in b:
            stats["skipped_nonfinite"] += 1; continue
        (va, ca), (vb, cb) = a.split(":"), b.split(":")
        k = "%s/%s" % (fam, ty)
        per[k] = per.get(k, 0) + 1
        if ca != cb:
            stats["count_mismatch"] += 1
            oracle_failures.append({"property": PID, "class": "affine-words", "family": fam, "type": ty, "harness_line": lines[2 * i + 1],
                                    "what": "%s<%s>: %s words consumed with parameters %s but %s with the standard parameters %s on the same stream"
                                            % (fam, ty, cb, list(tp), ca, list(sp))})
            continue
        base, got = S.bits_val(ty, va), S.bits_val(ty, vb)
        if not math.isfinite(base):
            stats["skipped_nonfinite"] += 1; continue
        exp, tol = relation(fam, ty, p, base)
        if exp is None or math.isnan(exp):
            stats["skipped_nonfinite"] += 1; continue
        fmax = 3.4028234663852886e38 if ty == "f32" else 1.7976931348623157e308
        if tol == 0:
            # the map is the last IEEE operation(s): the transformed bits are determined, including overflow to +-inf
            ok = (exp == got) or (exp == 0 and got == 0)
            stats["exact"] += 1
        elif not (math.isfinite(exp) and math.isfinite(got)):
            small_gamma = (fam == "gamma" and p[0] < 1.0)
            if math.isfinite(exp) and not math.isfinite(got) and \
               ((small_gamma and abs(exp) < fmax / 2) or (abs(exp) < fmax / 1e6 and abs(p[-1]) < fmax / 1e12)):
                ok = False      # a finite map value away from overflow, but a non-finite sample
            else:
                stats["skipped_nonfinite"] += 1; continue
        else:
            ok = abs(exp - got) <= tol * max(ulp(ty, got), ulp(ty, exp))
            stats["within_ulp"] += 1
        if not ok:
            oracle_failures.append({"property": PID, "class": "affine-value", "family": fam, "type": ty, "harness_line": lines[2 * i + 1],
                                    "standard_line": lines[2 * i],
                                    "what": "%s<%s>%s: sample %r on this stream, but the map applied to the standard sample %r gives %r (tolerance %d ulp)"
                                            % (fam, ty, list(tp), got, base, exp, tol)})
    return {
        "evaluations": len(jobs), "distinct_nontrivial": len({(j[0], j[1], j[2], tuple(j[5][:3])) for j in jobs}),
        "rule": "11 location/scale families x {f32,f64} x parameter points of E x word streams (random and single-word adversarial): sample() with the "
                "given parameters and with the standard parameters on the same words; exact recomputation of the affine map on the standard sample "
                "(bit equality) for Normal, Exp, Cauchy, Gumbel, Frechet, SkewNormal, Weibull, Pareto; within 3-6 ulp for Gamma, InverseGaussian, LogNormal; "
                "equal word counts. distinct by (family,type,params,first 3 words)",
        "samples": [lines[0][:200], lines[1][:200]],
        "mismatches": [], "oracle_failures": oracle_failures,
        "extra": {"pair_stats": stats, "pairs_per_family": per},
    }


def replay(ctx, obj):
    print("rust :", run_harness(ctx["binary"], [obj["harness_line"]])[0])
    if "standard_line" in obj:
        print("std  :", run_harness(ctx["binary"], [obj["standard_line"]])[0])
