"""Shared machinery of the /verif checks: building the harness against /repo's working tree,
building Coq targets, evaluating the Coq model on harness cases, evidence, violations."""
import json, os, re, signal, subprocess, sys, time, hashlib, random

ROOT = os.path.dirname(os.path.dirname(os.path.abspath(__file__)))
COQ = os.path.join(ROOT, "coq")
BUILD = os.path.join(ROOT, "build")
REPO = "/repo"
GUARD = "rand_distr_verif"
NCPU = 16

ENV = dict(os.environ)
ENV.update({"CARGO_NET_OFFLINE": "true", "RUSTFLAGS": "--cfg " + GUARD, "LC_ALL": "C"})

FORBIDDEN = re.compile(
    r"\b(Admitted|admit|Axiom|Axioms|Parameter|Parameters|Conjecture|Conjectures|Hypothesis|Variable|Variables|"
    r"Unset\s+Guard|bypass_check|type-in-type|impredicative-set|Admit\s+Obligations)\b")

# axioms that the standard library / installed libraries declare and that theorems may depend on
ALLOWED_AXIOMS = {
    "ClassicalDedekindReals.sig_forall_dec", "ClassicalDedekindReals.sig_not_dec",
    "FunctionalExtensionality.functional_extensionality_dep",
    "Classical_Prop.classic", "Eqdep.Eq_rect_eq.eq_rect_eq", "JMeq.JMeq_eq",
    "ProofIrrelevance.proof_irrelevance", "Epsilon.epsilon_statement",
    "ClassicalEpsilon.constructive_indefinite_description",
    "IndefiniteDescription.constructive_indefinite_description",
    "PropExtensionality.propositional_extensionality",
}
ALLOWED_AXIOM_PREFIXES = ("Uint63.", "PrimInt63.", "Uint63Axioms.", "PrimFloat.", "FloatAxioms.", "Sint63.",
                          "Coq.Numbers.Cyclic.Int63.", "Coq.Floats.")


class CheckError(Exception):
    pass


def log(*a):
    print(*a, file=sys.stderr, flush=True)


def sh(cmd, timeout=600, cwd=None, env=None, inp=None):
    """run a command; on timeout the whole process group is killed (a `sh -c coqc …` wrapper would otherwise leave coqc running)"""
    t0 = time.time()
    p = subprocess.Popen(cmd, shell=isinstance(cmd, str), cwd=cwd, env=env or ENV, stdin=subprocess.PIPE if inp is not None else subprocess.DEVNULL,
                         stdout=subprocess.PIPE, stderr=subprocess.PIPE, text=True, start_new_session=True)
    try:
        out, err = p.communicate(inp, timeout=timeout)
        return p.returncode, out, err, time.time() - t0
    except subprocess.TimeoutExpired:
        try:
            os.killpg(p.pid, signal.SIGKILL)
        except OSError:
            pass
        try:
            out, err = p.communicate(timeout=10)
        except Exception:
            out, err = "", ""
        return 124, out or "", "TIMEOUT", time.time() - t0


# ------------------------------------------------------------------ harness
def build_harness(profile="debug"):
    """(Re)build the Rust harness against /repo's current working tree. Returns the binary path."""
    args = "cargo build --offline" + (" --release" if profile == "release" else "")
    rc, out, err, dt = sh(args, timeout=900, cwd=os.path.join(ROOT, "harness"))
    if rc != 0:
        raise CheckError("harness build failed:\n" + err[-4000:])
    return os.path.join(BUILD, "harness-target", profile, "rdh")


def run_harness(binary, lines, timeout=900):
    inp = "\n".join(lines) + "\n"
    rc, out, err, dt = sh([binary], timeout=timeout, inp=inp)
    if rc != 0:
        raise CheckError("harness exited %d: %s" % (rc, err[-2000:]))
    res = out.split("\n")
    if res and res[-1] == "":
        res.pop()
    if len(res) != len(lines):
        raise CheckError("harness returned %d lines for %d commands" % (len(res), len(lines)))
    return res


def run_harness_parallel(binary, lines, timeout=900, nproc=NCPU):
    """Split the command list over nproc harness processes (order preserved)."""
    if len(lines) < 64:
        return run_harness(binary, lines, timeout)
    import concurrent.futures as cf
    k = max(1, (len(lines) + nproc - 1) // nproc)
    chunks = [lines[i:i + k] for i in range(0, len(lines), k)]
    with cf.ThreadPoolExecutor(nproc) as ex:
        outs = list(ex.map(lambda c: run_harness(binary, c, timeout), chunks))
    return [x for o in outs for x in o]


# ------------------------------------------------------------------ coq
def coq_makefile():
    mk = os.path.join(COQ, "Makefile")
    cp = os.path.join(COQ, "_CoqProject")
    if not os.path.exists(mk) or os.path.getmtime(mk) < os.path.getmtime(cp):
        rc, out, err, _ = sh("coq_makefile -f _CoqProject -o Makefile", cwd=COQ, timeout=60)
        if rc != 0:
            raise CheckError("coq_makefile failed: " + err)


def coq_build(targets, timeout=1500, jobs=NCPU):
    """make the given .vo targets (full compilation). Returns (ok, log_text)."""
    import fcntl
    os.makedirs(BUILD, exist_ok=True)
    with open(os.path.join(BUILD, "coq.lock"), "w") as lk:
        fcntl.flock(lk, fcntl.LOCK_EX)          # one `make` at a time in coq/
        coq_makefile()
        cmd = "make -j%d %s" % (jobs, " ".join(targets))
        rc, out, err, dt = sh(cmd, cwd=COQ, timeout=timeout)
    return rc == 0, out + "\n" + err


def scan_forbidden(files):
    """grep the Coq sources for anything that would declare an axiom or disable a check."""
    hits = []
    for f in files:
        txt = open(f).read()
        # strip comments (nested)
        depth, outc, i = 0, [], 0
        while i < len(txt):
            if txt.startswith("(*", i):
                depth += 1; i += 2; continue
            if txt.startswith("*)", i) and depth > 0:
                depth -= 1; i += 2; continue
            if depth == 0:
                outc.append(txt[i])
            i += 1
        body = "".join(outc)
        for m in FORBIDDEN.finditer(body):
            # `Variable`/`Hypothesis` are fine inside a Section; flag only outside
            if m.group(1) in ("Variable", "Variables", "Hypothesis"):
                pre = body[:m.start()]
                if len(re.findall(r"\bSection\b", pre)) > len(re.findall(r"\bEnd\b", pre)):
                    continue
            hits.append("%s: %s" % (os.path.relpath(f, ROOT), m.group(0)))
    return hits


def coq_sources():
    res = []
    for d in ("Base", "Model", "Proofs", "Props", "Gen"):
        p = os.path.join(COQ, d)
        if os.path.isdir(p):
            res += [os.path.join(p, f) for f in sorted(os.listdir(p)) if f.endswith(".v") and not f.startswith("Dbg_")]
    return res


def props_assumptions(pid, timeout=900):
    """Re-run coqc on Props/<pid>.v (cheap: its dependencies are compiled) and parse every
    `Print Assumptions` block. Returns dict theorem -> list of axioms ([] = closed)."""
    f = os.path.join(COQ, "Props", pid + ".v")
    src = open(f).read()
    names = re.findall(r"Print Assumptions\s+(\S+?)\.", src)
    rc, out, err, dt = sh("coqc -Q . RD -w -notation-overridden,-deprecated-hint-without-locality Props/%s.v" % pid,
                          cwd=COQ, timeout=timeout)
    if rc != 0:
        return None, out + err
    blocks = re.split(r"(?m)^(?=Closed under the global context|Axioms:)", out)
    blocks = [b for b in blocks if b.startswith("Closed under") or b.startswith("Axioms:")]
    res = {}
    for n, b in zip(names, blocks):
        if b.startswith("Closed"):
            res[n] = []
        else:
            ax = re.findall(r"(?m)^([A-Za-z_][\w\.']*)\s*$|^([A-Za-z_][\w\.']*)\s*:", b)
            res[n] = sorted({a or c for a, c in ax} - {"Axioms"})
    if len(blocks) != len(names):
        return None, "Print Assumptions blocks (%d) != statements (%d)\n%s" % (len(blocks), len(names), out[-3000:])
    return res, out


def axioms_allowed(ax):
    bad = []
    for a in ax:
        if a in ALLOWED_AXIOMS or a.startswith(ALLOWED_AXIOM_PREFIXES):
            continue
        bad.append(a)
    return bad


def coq_eval_failing(tag, header, cases, shard=400, timeout=900, max_chars=1_000_000):
    """cases: list of Coq terms of type bool. Evaluates them with vm_compute in sharded coqc runs
    and returns the sorted list of indices whose term evaluated to false."""
    import concurrent.futures as cf
    d = os.path.join(COQ, "cases")
    os.makedirs(d, exist_ok=True)
    tag = "%s_p%d" % (tag, os.getpid())      # several checks may run concurrently
    # contiguous shards of at most `shard` cases and about `max_chars` characters: coqc's memory grows with the size of the literal
    # terms it has to parse (1000 histories of 200 operations in one file took 17 GB and 15 min; the same cases in 1 MB files take seconds)
    shards, cur, cur_chars, base = [], [], 0, 0
    for i, c in enumerate(cases):
        if cur and (len(cur) >= shard or cur_chars + len(c) > max_chars):
            shards.append((base, cur)); cur, cur_chars, base = [], 0, i
        cur.append(c); cur_chars += len(c)
    if cur:
        shards.append((base, cur))

    def one(arg):
        base, cs = arg
        name = "%s_%d" % (tag, base)
        path = os.path.join(d, name + ".v")
        with open(path, "w") as fh:
            fh.write(header + "\n")
            fh.write("Definition cases : list bool := [\n  " + ";\n  ".join(cs) + "\n].\n")
            fh.write("Eval vm_compute in (failing 0 cases).\n")
        rc, out, err, dt = sh("coqc -noglob -Q %s RD -w -notation-overridden %s" % (COQ, path), cwd=d, timeout=timeout)
        if rc == 124:     # a loaded machine is not a disagreement: one retry with a longer limit before giving up
            rc, out, err, dt = sh("coqc -noglob -Q %s RD -w -notation-overridden %s" % (COQ, path), cwd=d, timeout=3 * timeout)
        for ext in (".vo", ".vok", ".vos", ".glob"):
            try: os.unlink(os.path.join(d, name + ext))
            except OSError: pass
        try: os.unlink(os.path.join(d, "." + name + ".aux"))
        except OSError: pass
        if rc != 0:
            raise CheckError("coqc failed on %s: %s" % (path, (out + err)[-3000:]))
        txt = " ".join(out.split())
        m = re.search(r"= \[(.*?)\]\s*:\s*list Z", txt)
        if not m:
            raise CheckError("unparsable coqc output for %s: %s" % (path, out[-2000:]))
        idx = [int(x.replace("%Z", "")) for x in m.group(1).split(";") if x.strip()]
        os.unlink(path)
        return [base + i for i in idx]

    with cf.ThreadPoolExecutor(NCPU) as ex:
        res = list(ex.map(one, shards))
    return sorted(x for r in res for x in r)


def coq_eval_print(header, term, timeout=300):
    """Evaluate one term and return Coq's printed value (for diagnostics / replay)."""
    d = os.path.join(COQ, "cases")
    os.makedirs(d, exist_ok=True)
    name = "one_p%d" % os.getpid()
    path = os.path.join(d, name + ".v")
    with open(path, "w") as fh:
        fh.write(header + "\nEval vm_compute in (%s).\n" % term)
    rc, out, err, dt = sh("coqc -noglob -Q %s RD -w -notation-overridden %s" % (COQ, path), cwd=d, timeout=timeout)
    for ext in (".v", ".vo", ".vok", ".vos", ".glob"):
        try: os.unlink(os.path.join(d, name + ext))
        except OSError: pass
    try: os.unlink(os.path.join(d, "." + name + ".aux"))
    except OSError: pass
    return " ".join((out + err).split())


# ------------------------------------------------------------------ coq literals
def zlit(n):
    return str(n) if n >= 0 else "(%d)" % n


def zlist(l):
    return "[" + "; ".join(zlit(x) for x in l) + "]"


def blit(b):
    return "true" if b else "false"


# ------------------------------------------------------------------ known findings / evidence
def known_findings():
    p = os.path.join(ROOT, "known_findings.json")
    if not os.path.exists(p):
        return []
    return json.load(open(p)).get("findings", [])


def write_evidence(pid, tier, seed, level, coverage, wall, violations, assumptions):
    os.makedirs(os.path.join(ROOT, "evidence"), exist_ok=True)
    ev = {"property_id": pid, "tier": tier, "seed": seed, "level": level, "coverage": coverage,
          "assumptions": assumptions, "wall_s": round(wall, 2), "violations": violations}
    with open(os.path.join(ROOT, "evidence", pid + ".json"), "w") as fh:
        json.dump(ev, fh, indent=1, sort_keys=True)
        fh.write("\n")


def write_replay(pid, obj):
    d = os.path.join(ROOT, "replays")
    os.makedirs(d, exist_ok=True)
    n = 0
    while os.path.exists(os.path.join(d, "%s-%d.json" % (pid, n))):
        n += 1
    p = os.path.join(d, "%s-%d.json" % (pid, n))
    with open(p, "w") as fh:
        json.dump(obj, fh, indent=1)
        fh.write("\n")
    return p


class Rng:
    """SplitMix64 — every random choice of a check derives from VERIF_SEED through this."""
    def __init__(self, seed):
        self.s = seed & 0xFFFFFFFFFFFFFFFF
    def u64(self):
        self.s = (self.s + 0x9E3779B97F4A7C15) & 0xFFFFFFFFFFFFFFFF
        z = self.s
        z = ((z ^ (z >> 30)) * 0xBF58476D1CE4E5B9) & 0xFFFFFFFFFFFFFFFF
        z = ((z ^ (z >> 27)) * 0x94D049BB133111EB) & 0xFFFFFFFFFFFFFFFF
        return z ^ (z >> 31)
    def below(self, n):
        return self.u64() % n
    def choice(self, l):
        return l[self.below(len(l))]
    def chance(self, num, den):
        return self.below(den) < num


def run_harness_guarded(binary, lines, batch_timeout=60, line_timeout=6):
    """Run commands with a wall-clock watchdog: a command that does not return within line_timeout seconds
    (alone) yields the result 'HANG'. Batches that time out are bisected."""
    if not lines:
        return []
    inp = "\n".join(lines) + "\n"
    env = dict(ENV); env["RDH_TIMEOUT_MS"] = str(int(line_timeout * 1000))      # the harness prints HANG for a command that does not return
    rc, out, err, dt = sh([binary], timeout=(batch_timeout if len(lines) > 1 else line_timeout + 5), inp=inp, env=env)
    if rc == 0:
        res = out.split("\n")
        if res and res[-1] == "":
            res.pop()
        if len(res) == len(lines):
            return res
    if len(lines) == 1:
        return ["HANG" if rc == 124 else "CRASH:%d" % rc]
    mid = len(lines) // 2
    return run_harness_guarded(binary, lines[:mid], batch_timeout, line_timeout) + \
           run_harness_guarded(binary, lines[mid:], batch_timeout, line_timeout)


def run_harness_guarded_parallel(binary, lines, batch_timeout=60, line_timeout=6, nproc=NCPU, chunk=40):
    import concurrent.futures as cf
    chunks = [lines[i:i + chunk] for i in range(0, len(lines), chunk)]
    with cf.ThreadPoolExecutor(nproc) as ex:
        outs = list(ex.map(lambda c: run_harness_guarded(binary, c, batch_timeout, line_timeout), chunks))
    return [x for o in outs for x in o]
