"""C08 — WeightedAliasIndex encodes and samples exactly the given weights."""
import itertools, struct
from fractions import Fraction
from common import *
import treelib as T

PID = "C08"
LEVEL = "proof"
COQ_TARGETS = ["Props/C08.vo", "Props/C08_fp.vo", "Props/C08_float.vo"]
PROPS_FILES = ["C08", "C08_fp", "C08_float"]
THEOREMS = ["C08_float_sentinel_refuted", "C08_float_new_errors", "C08_fingerprints", "C08_nonvacuous", "C08_new_errors", "C08_shape", "C08_odds_range", "C08_mass", "C08_weights_roundtrip",
            "C08_pick_count", "C08_pair_count", "C08_zero_never", "C08_pick_in_range", "C08_lemire_in_range"]
TRUSTED_BASE = [
    "Coq 8.16.1 kernel + vm_compute",
    "hand-written model coq/Model/Alias.v of src/weighted/weighted_alias.rs (integer weight types; the two intrusive "
    "linked lists are Gallina stacks, the link values are written into the alias array as the crate does), tied to the "
    "code by correspondence on identical weight vectors: Debug-printed aliases and no_alias_odds entry by entry, "
    "weights(), and sample() on scripted words through the Lemire model (coq/Model/Uniform.v)",
    "float weights (f32/f64): direct oracle only (error cases, reconstruction within rounding, index range); "
    "known finding F8 listed",
]
ASSUMPTIONS = ["rand's Uniform<u32>/Uniform<W> (Lemire) are modelled, not verified, beyond range safety",
               "vectors longer than u32::MAX (InvalidInput) cannot be materialised and are covered by the theorem only"]

HEADER = ("From Coq Require Import ZArith List Bool.\nFrom RD Require Import Model.Tree Model.Uniform Model.TreeIO Model.Alias Model.AliasIO.\n"
          "Import ListNotations.\nOpen Scope Z_scope.\n")


def bits_of(ty, S):
    sk = T.ITYPES[ty][2]
    if sk == "SK32": return 32
    if sk == "SK64": return 64
    if sk == "SK128": return 128
    return 64 if S - 1 > 2**32 - 1 else 32


def spec_new(ty, ws):
    lo, hi, _ = T.ITYPES[ty]
    n = len(ws)
    if n == 0: return "E:InvalidInput"
    maxw = hi // n if n <= hi else 0
    if any(w < 0 or w > maxw for w in ws): return "E:InvalidWeight"
    if sum(ws) == 0: return "E:InsufficientNonZero"
    return "ok"


def words_for(ty, n, S, c, r, pad=4):
    """RNG words that make Lemire return column c and threshold r (no rejection)."""
    w1 = -((-c << 32) // n)
    b = bits_of(ty, S)
    w2 = -((-r << b) // S)
    # the accepted draw must have lo >= thresh; the smallest draw with high part r has lo < S; bump if needed
    def ok(w, rng_, bb):
        M = 1 << bb
        return ((w * rng_) % M) >= ((M - rng_) % rng_) and (w * rng_) // M == (c if bb == 32 and rng_ == n else r)
    while not (((w1 * n) % 2**32) >= ((2**32 - n) % n)):
        w1 += 1
    M = 1 << b
    while not (((w2 * S) % M) >= ((M - S) % S)):
        w2 += 1
    if (w1 * n) >> 32 != c or (w2 * S) // M != r:
        return None
    ws = [w1 << 32]
    if b == 32: ws.append(w2 << 32)
    elif b == 64: ws.append(w2)
    else: ws += [w2 & (2**64 - 1), w2 >> 64]
    return ws + [0x9E3779B97F4A7C15] * pad


def gen_vectors(ctx):
    rng, tier = ctx["rng"], ctx["tier"]
    vecs = []   # (ty, ws, kind)
    maxlen_all = 3 if tier == "quick" else 4
    for ty, (lo, hi, sk) in T.ITYPES.items():
        top = maxlen_all + (1 if tier == "thorough" and ty in ("u8", "i8", "u64") else 0)
        for n in range(0, top + 1):
            mw = hi // n if n and n <= hi else 0
            alpha = sorted({0, 1, 2, 3, max(mw - 1, 0), mw, mw + 1} | ({-1} if lo < 0 else set()))
            alpha = [a for a in alpha if lo <= a <= hi]
            for v in itertools.product(alpha, repeat=n):
                vecs.append((ty, list(v), "exhaustive"))
    if tier == "thorough":
        for ty in ("u8",):
            lo, hi, sk = T.ITYPES[ty]
            n = 6
            mw = hi // n
            alpha = sorted({0, 1, 2, 3, mw - 1, mw, mw + 1} | ({-1} if lo < 0 else set()))
            for v in itertools.product(alpha, repeat=n):
                vecs.append((ty, list(v), "exhaustive"))
    nrand = 40 if tier == "quick" else 600
    for ty, (lo, hi, sk) in T.ITYPES.items():
        for k in range(nrand):
            n = rng.choice([1, 2, 3, 5, 8, 13, 31, 32, 33, 64, 100, 255, 256, 257])
            if tier == "thorough" and k % 50 == 0:
                n = rng.choice([1000, 4096, 10000])
            mw = hi // n if n <= hi else 0
            mode = rng.below(6)
            ws = []
            for i in range(n):
                if mode == 0: w = rng.below(mw + 1)
                elif mode == 1: w = rng.choice([0, mw, mw, rng.below(mw + 1)])
                elif mode == 2: w = mw                                   # all equal at the maximum
                elif mode == 3: w = mw if i == n // 2 else 0             # single non-zero
                elif mode == 4: w = rng.below(min(mw, 9) + 1)            # small
                else: w = rng.choice([0, 1, mw - 1 if mw else 0, mw, rng.below(mw + 1), (mw + 1) if rng.chance(1, 40) else 0])
                ws.append(max(lo, min(hi, w)))
            vecs.append((ty, ws, "random"))
    return vecs


def fhex(ty, x):
    return ("x%08x" % struct.unpack("<I", struct.pack("<f", x))[0]) if ty == "f32" else \
           ("x%016x" % struct.unpack("<Q", struct.pack("<d", x))[0])


def float_lines(ctx):
    rng, tier = ctx["rng"], ctx["tier"]
    lines, meta = [], []
    specials = {"f32": ["x7fc00000", "x7f800000", "xff800000", "x80000000", "x00000000", "x00000001", "x7f7fffff", "xbf800000", "x3f800000", "x00800000"],
                "f64": ["x7ff8000000000000", "x7ff0000000000000", "xfff0000000000000", "x8000000000000000", "x0000000000000000",
                        "x0000000000000001", "x7fefffffffffffff", "xbff0000000000000", "x3ff0000000000000", "x0010000000000000"]}
    for ty in ("f32", "f64"):
        sp = specials[ty]
        for a in sp:
            lines.append("alias %s 0 %s S:0,0 S:0,ffffffffffffffff S:ffffffffffffffff,ffffffffffffffff" % (ty, a)); meta.append((ty, [a]))
            for b in sp:
                lines.append("alias %s 0 %s,%s S:0,0 S:0,ffffffffffffffff S:ffffffffffffffff,ffffffffffffffff S:8000000000000000,ffffffffffffffff" % (ty, a, b))
                meta.append((ty, [a, b]))
        for k in range(300 if tier == "quick" else 8000):
            n = 1 + rng.below(9)
            mode = k % 3
            if mode == 0:     # dyadic weights: sums are exact
                ws = [fhex(ty, (rng.below(1 << 20)) / 1024.0 * (0 if rng.chance(1, 5) else 1)) for _ in range(n)]
            elif mode == 1:   # full-mantissa weights: every sum and product rounds
                ws = [fhex(ty, (rng.below(1 << 53) + 1) / float(1 << 53) * (0 if rng.chance(1, 6) else 1)) for _ in range(n)]
            else:             # decimal-looking weights (0.1 .. 9.9)
                ws = [fhex(ty, (1 + rng.below(99)) / 10.0) for _ in range(n)]
            if k % 10 == 9:
                # weights exactly at the per-length maximum MAX/n (accepted: w <= MAX/n), where the scaling w*n rounds to or beyond MAX
                n = rng.choice([2, 3, 5, 6, 7, 9, 25, 31, 49])
                fmx = 3.4028234663852886e38 if ty == "f32" else 1.7976931348623157e308
                m = fmx / n if ty == "f64" else struct.unpack("<f", struct.pack("<f", fmx / n))[0]
                if ty == "f32" and m > fmx / n:          # round MAX/n down to the f32 quotient the crate computes
                    m = struct.unpack("<f", struct.pack("<I", struct.unpack("<I", struct.pack("<f", m))[0] - 1))[0]
                k_at = 1 + rng.below(min(n, 4))
                ws = [fhex(ty, m) for _ in range(k_at)] + \
                     [fhex(ty, rng.choice([0.0, 1.0, m / 3, m * (1 - 2.0 ** -20), (1 + rng.below(99)) / 10.0])) for _ in range(n - k_at)]
            # every column with the largest threshold draw, plus random draws
            cols = " ".join("S:%x,ffffffffffffffff" % ((-((-c << 32) // n)) << 32) for c in range(n))
            lines.append("alias %s 0 %s %s S:%x,%x" % (ty, ",".join(ws), cols, rng.u64(), rng.u64()))
            meta.append((ty, ws))
    return lines, meta


def fval(ty, h):
    if ty == "f32": return struct.unpack("<f", struct.pack("<I", int(h[1:], 16)))[0]
    return struct.unpack("<d", struct.pack("<Q", int(h[1:], 16)))[0]


def plist(x):
    return [] if x == "[]" else [int(v) for v in x[1:-1].split(",")]


def correspond(ctx):
    rng = ctx["rng"]
    vecs = gen_vectors(ctx)
    lines, wordsets = [], []
    for ty, ws, kind in vecs:
        samples = []
        if spec_new(ty, ws) == "ok":
            n, S = len(ws), sum(ws)
            picks = [(0, 0), (n - 1, S - 1), (rng.below(n), rng.below(S)), (rng.below(n), rng.below(S)), (rng.below(n), S - 1)]
            if n * S <= 64:
                picks = [(c, r) for c in range(n) for r in range(S)]
            for c, r in picks:
                w = words_for(ty, n, S, c, r)
                if w: samples.append((c, r, w))
            b = bits_of(ty, S)
            nw = 2 if b < 128 else 3
            for _ in range(2):
                samples.append((None, None, [rng.choice(T.WORD_LATTICE) if rng.chance(1, 3) else rng.u64() for _ in range(nw)] + [0x9E3779B97F4A7C15, 0xD1B54A32D192ED03, 0x8CB92BA72F3D8DD7, 0x123456789ABCDEF1, 0xFEDCBA9876543210]))
        wordsets.append(samples)
        lines.append("alias %s 0 %s %s" % (ty, ",".join(str(w) for w in ws) if ws else "-",
                                          " ".join("S:" + ",".join("%x" % x for x in w) for _, _, w in samples)))
    flines, fmeta = float_lines(ctx)
    outs = run_harness_parallel(ctx["binary"], lines + flines)
    fouts, outs = outs[len(lines):], outs[:len(lines)]
    coq_cases, oracle_failures, mismatches = [], [], []
    outcome = {}
    enum_pairs = 0
    distinct = set()
    for n_, ((ty, ws, kind), samples, o) in enumerate(zip(vecs, wordsets, outs)):
        lo, hi, sk = T.ITYPES[ty]
        exp = spec_new(ty, ws)
        key = o.split("|")[0]
        outcome[key] = outcome.get(key, 0) + 1
        distinct.add((ty, tuple(ws)))
        fail = None
        if o.startswith("ok|"):
            _, al, od, wts, smp = o.split("|")
            al, od = plist(al), plist(od)
            n, S = len(ws), sum(ws)
            if exp != "ok":
                fail = "new() accepted %s although the documented domain says %s" % (ws, exp)
            else:
                if wts == "wpanic":
                    fail = "weights() panicked"
                elif plist(wts) != ws:
                    fail = "weights() returned %s for %s" % (wts, ws)
                # exact alias mass from the crate's own table
                mass = list(od)
                for j in range(n):
                    if od[j] < S:
                        if not (0 <= al[j] < n):
                            fail = fail or "column %d has odds %d < sum %d but alias %d is not an index" % (j, od[j], S, al[j])
                        else:
                            mass[al[j]] += S - od[j]
                    elif od[j] > S:
                        fail = fail or "column %d has odds %d > sum %d" % (j, od[j], S)
                if not fail and mass != [w * n for w in ws]:
                    fail = "alias table mass %s != n*w = %s" % (mass, [w * n for w in ws])
                sm = smp.split(";") if smp else []
                counts = [0] * n
                full = n * S <= 64
                for (c, r, w), s in zip(samples, sm):
                    if not s.startswith("idx:"):
                        fail = fail or "sample() panicked on words %s" % w
                        continue
                    i = int(s.split(":")[1])
                    if i >= n or ws[i] == 0:
                        fail = fail or "sample() returned index %d (weights %s, words %s)" % (i, ws, ["%x" % x for x in w])
                    elif c is not None:
                        counts[i] += 1
                        enum_pairs += 1
                if full and not fail and counts != [w * n for w in ws]:
                    fail = "enumerating all %d (column,threshold) pairs gives counts %s, expected n*w = %s" % (n * S, counts, [w * n for w in ws])
                samp = "; ".join("(%s, (%s, %s))" % (zlist(w), s.split(":")[1], s.split(":")[2])
                                 for (c, r, w), s in zip(samples, sm)
                                 if s.startswith("idx:") and int(s.split(":")[2]) <= len(w))   # beyond the explicit words the seeded tail is not modelled
                coq_cases.append("acase (mka %s %s) %s %s (ANOk %s %s (%s)) [%s]" % (
                    zlit(lo), zlit(hi), sk, zlist(ws), zlist(al), zlist(od),
                    "None" if wts == "wpanic" else "Some " + zlist(plist(wts)), samp))
        elif o == "panic":
            fail = "new() panicked on %s" % ws
            coq_cases.append("acase (mka %s %s) %s %s ANPanic []" % (zlit(lo), zlit(hi), sk, zlist(ws)))
        else:
            if o != exp:
                fail = "new(%s) returned %s, documented domain says %s" % (ws, o, exp)
            coq_cases.append("acase (mka %s %s) %s %s (ANErr %s) []" % (zlit(lo), zlit(hi), sk, zlist(ws), o[2:]))
        if fail:
            oracle_failures.append({"property": PID, "type": ty, "harness_line": lines[n_], "what": fail, "class": "int-alias"})
    failing = coq_eval_failing("C08", HEADER, coq_cases, shard=300 if ctx["tier"] == "quick" else 1500)
    for i in failing:
        mismatches.append({"type": vecs[i][0], "harness_line": lines[i], "rust": outs[i][:2000]})
    # floats: direct oracle
    fsent = 0; fover = 0; fmass = 0
    for line, (ty, hx), o in zip(flines, fmeta, fouts):
        vals = [fval(ty, h) for h in hx]
        n = len(vals)
        fmax = 3.4028234663852886e38 if ty == "f32" else 1.7976931348623157e308
        bad = any((v != v) or v < 0 or v > fmax / n for v in vals)
        fails = []          # (class, what): every distinct failure of this vector is reported on its own
        if o == "panic":
            fails.append(("float-alias", "new() panicked on float weights %s" % vals))
        elif o.startswith("E:"):
            exp = "E:InvalidWeight" if bad else ("E:InsufficientNonZero" if sum(vals) == 0 else None)
            if exp is None and not (sum(vals) == float("inf")):
                fails.append(("float-alias", "new(%s) returned %s but the weights are valid and not all zero" % (vals, o)))
            elif exp and o != exp:
                fails.append(("float-alias", "new(%s) returned %s, documented %s" % (vals, o, exp)))
        else:
            _, al, od, wts, smp = o.split("|")
            if bad:
                fails.append(("float-alias", "new() accepted invalid float weights %s" % vals))
            elif sum(vals) == 0:
                fails.append(("float-alias", "new() accepted all-zero float weights"))
            else:
                if wts != "wpanic":
                    rec = [fval(ty, h) for h in wts[1:-1].split(",")]
                    tol = (1e-5 if ty == "f32" else 1e-13) * max(vals) * n
                    if any(not (abs(a - b) <= tol) for a, b in zip(rec, vals)):
                        c = "float-alias"
                        # F17's class: a weight within rounding of MAX/len: the accumulation inside weights() overflows to inf
                        if max(vals) * n >= fmax * (1 - 2.0 ** -20) and all((a == float("inf") and b * n >= fmax * (1 - 2.0 ** -20)) or abs(a - b) <= tol
                                                                          for a, b in zip(rec, vals)):
                            c = "float-alias-weights-overflow"; fover += 1
                        fails.append((c, "weights() reconstruction %s deviates from %s by more than rounding" % (rec, vals)))
                else:
                    fails.append(("float-alias", "weights() panicked"))
                # the law encoded by the table the crate built (exact rational arithmetic on the printed table): column j keeps itself with
                # probability min(odds_j/S, 1) and otherwise yields aliases[j]; must equal w_i / sum(w) up to the rounding of the construction
                try:
                    alist = [int(v) for v in al[1:-1].split(",")]
                    olist = [Fraction(fval(ty, h)) if fval(ty, h) != float("inf") else None for h in od[1:-1].split(",")]
                    tot = sum(Fraction(v) for v in vals)
                    # the crate's weight_sum is the float sum of the weights; saturated at MAX when the sum overflows (documented clamp)
                    Sx = min(tot, Fraction(fmax))
                    mass = [Fraction(0)] * n
                    okm = True
                    for j in range(n):
                        keep = Fraction(1) if olist[j] is None else min(olist[j] / Sx, Fraction(1))
                        mass[j] += keep / n
                        if keep < 1:
                            if alist[j] >= n: okm = None; break       # a sentinel that can be reached: judged by the index-range oracle
                            mass[alist[j]] += (1 - keep) / n
                    if okm:
                        ptol = Fraction(n * 64, 2 ** (24 if ty == "f32" else 53))
                        if tot <= Fraction(fmax):
                            dev = max(abs(mass[i] - Fraction(vals[i]) / tot) for i in range(n))
                            fmass += 1
                            if dev > ptol:
                                fails.append(("float-alias", "the alias table built for float weights %s encodes probabilities %s (deviation %.3g from "
                                              "w_i/sum(w), rounding budget %.3g)" % (vals, [float(m) for m in mass], float(dev), float(ptol))))
                except (ValueError, ZeroDivisionError):
                    pass
                for s in (smp.split(";") if smp else []):
                    if s == "panic":
                        fails.append(("float-alias", "sample() panicked"))
                    else:
                        i = int(s.split(":")[1])
                        if i >= n:
                            c = "float-alias"
                            # F8's class: the weight sum is subnormal (Uniform(0,S) can return S itself)
                            tiny = 1.1754943508222875e-38 if ty == "f32" else 2.2250738585072014e-308
                            if i == 4294967295 and sum(vals) < tiny:
                                c = "float-alias-sentinel"; fsent += 1
                            fails.append((c, "sample() returned %d for %d float weights %s" % (i, n, vals)))
                        elif vals[i] == 0:
                            fails.append(("float-alias", "sample() returned zero-weight index %d of %s" % (i, vals)))
        seen = set()
        for c, what in fails:
            if (c, what) in seen: continue
            seen.add((c, what))
            oracle_failures.append({"property": PID, "type": ty, "harness_line": line, "what": what, "class": c})
    return {
        "evaluations": len(vecs) + len(flines), "distinct_nontrivial": len(distinct),
        "rule": "weight vectors: exhaustively every vector of length <= %d over {0,1,2,3,MAX/n-1,MAX/n,MAX/n+1,-1} for each of the 11 "
                "integer types (thorough: length <= 4 for all types, 5 for u8/i8/u64, 6 for u8), seeded random vectors up to length 257 (10^4 at thorough) with "
                "adversarial magnitude mixes; each accepted vector is sampled on crafted words hitting chosen (column,threshold) pairs "
                "(all pairs when n*sum <= 64) and lattice/random words; float vectors through the direct oracle. distinct = distinct (type, vector)"
                % (3 if ctx["tier"] == "quick" else 4),
        "samples": [lines[5], lines[len(lines) // 2], lines[-1][:300], flines[3]],
        "mismatches": mismatches, "oracle_failures": oracle_failures,
        "extra": {"outcome_distribution": outcome, "enumerated_column_threshold_pairs": enum_pairs,
                  "float_vectors": len(flines), "float_sentinel_returns": fsent, "float_weights_overflow": fover, "float_tables_mass_checked": fmass,
                  "kinds": {k: sum(1 for v in vecs if v[2] == k) for k in ("exhaustive", "random")}},
    }


def match_known(f, kf):
    for k in kf:
        if k.get("class") == f.get("class") and k.get("class") in ("float-alias-sentinel", "float-alias-weights-overflow"):
            return k
    return None


def replay_known(ctx, k):
    if k.get("class") not in ("float-alias-sentinel", "float-alias-weights-overflow"):
        return None
    out = run_harness(ctx["binary"], [k["witness"]["harness_line"]])[0]
    if k.get("class") == "float-alias-sentinel" and "idx:4294967295:" in out:
        return {"what": k["what"]}
    if k.get("class") == "float-alias-weights-overflow" and out.startswith("ok|") and "x7ff0000000000000" in out.split("|")[3]:
        return {"what": k["what"]}
    return None


def replay(ctx, obj):
    print("rust :", run_harness(ctx["binary"], [obj["harness_line"]])[0])
