"""C03 — every sample lies in the support; sampling never panics (random, single-word-adversarial and all 2^24 f32 draws)."""
import struct
import math
from common import *
import samplib as S

PID = "C03"
LEVEL = "proof"
NEED_RELEASE = True
COQ_TARGETS = ["Props/C03.vo", "Props/C03_fp.vo", "Props/C03_support.vo", "Props/C03_refuted.vo", "Props/C03_discrete.vo", "Props/C03_fl.vo"]
PROPS_FILES = ["C03", "C03_fp", "C03_support", "C03_refuted", "C03_discrete", "C03_fl"]
THEOREMS = ["C03_fl_source", "C03_triangular_source", "C03_triangular_fl_finite", "C03_pert_source", "C03_pert_fl_support", "C03_frechet_refuted", "C03_frechet_except_known", "C03_gumbel_refuted", "C03_gumbel_except_known", "C03_beta_in_unit", "C03_gamma_nonneg", "C03_fingerprints",
            "C03_geometric_support", "C03_zeta_support", "C03_zipf_support", "C03_poisson_support", "C03_binv_support", "C03_std_geometric_support",
            "C03_beta_final_in_unit", "C03_exp_tail_defined", "C03_lognormal_pos", "C03_fisher_f_nonneg", "C03_inverse_gaussian_pos", "C03_btpe_support", "C03_binomial_support", "C03_h2pe_branch_support", "C03_hypergeometric_support"]
TRUSTED_BASE = [
    "Coq 8.16.1 kernel; integer-exact support theorems (alias/tree indices: C08/C10) and ideal-real support theorems on the "
    "sampler models (Proofs/Support.v) — the models are tied to the code by C01's pathwise correspondence",
    "Props/C03_discrete.v (Proofs/SupportDiscrete.v): on the EXECUTABLE discrete models of Model/Discrete.v (the trees C02's pathwise "
    "correspondence runs against the crate) every returned value is in the support and the panic marker (failure code 3: u64 underflow, "
    "`1 << 64`, overflowing add, f64_to_u64 assertion, negative table index) is unreachable, for every word list and all valid parameters: "
    "StandardGeometric, Geometric (k <= 54, (d << k) + m fits), Zeta, Zipf (integer n, every s >= 0: result in [1, n]), Poisson (Knuth and "
    "Ahrens-Dieter PD: step F's index >= 0), Binomial (constant, Poisson limit, BINV walk stops at x <= n, BTPE: both f64_to_u64 assertions, "
    "the saturating cast and n - y of step 5.3, with and without the flip), Hypergeometric (HIN, H2PE region 1 inside [0, min(n1,k)] so the "
    "u64 products of step 4.1 cannot underflow, all four reflections; N < 2^51)",
    "Props/C03_fl.v (Flocq, any binary format): the libm-free last step of Beta::sample - the `w == inf` guard and the reflection - returns "
    "a finite float in [0, 1] for every finite b > 0 and every w that is +inf or finite and >= 0",
    "the rest of the IEEE-level part of this property (what a float program returns when a draw is exactly 0, 1/2 or its maximum) is decided by "
    "the DIRECT ORACLE on the real code, not by a theorem: support predicate + catch_unwind over the single-word-adversarial lattice "
    "(DESIGN.md App. D) x parameter points of envelope E, and the exhaustive sweep of all 2^24 high-bit patterns of one word for "
    "every f32 sampler (harness/src/samp.rs: sweep, lat) in debug (overflow checks) and release builds",
    "known findings F4 (Frechet), F11 (Gumbel), F6/F16 (Zipf), F15 are listed in known_findings.json and matched by class; F5 (Exp1 tail) is repaired (fix: bff3353) and listed as fixed",
]
ASSUMPTIONS = ["events that need two or more specific words simultaneously are outside the quantifier",
               "documented infinite results (Exp rate 0, Gamma infinite parameter, Zeta s near 1, Geometric(0)) are not failures"]

DISC = ["binomial", "geometric", "stdgeometric", "hypergeometric", "poisson", "zeta", "zipf"]
INT_EXTREMES = [0, 1, 2, 2**32 - 1, 2**32 + 1, 2**53 - 1, 2**53 + 1, 2**62, 2**63 - 1, 2**63 + 1, 2**64 - 2, 2**64 - 1]


def disc_params(fam, rng, ty, k):
    """(params as harness strings) for the discrete families"""
    L = S.logu
    if fam == "stdgeometric":
        return ("u64", [])
    if fam == "binomial":
        n = rng.choice(INT_EXTREMES[:8] + [rng.below(40), rng.below(10**6), rng.below(2**62)])
        p = rng.choice([0.0, 1.0, 0.5, S.nextafter("f64", 0.5, True), 1e-12, 1 - 1e-12, 10.0 / max(n, 1) if n else 0.3, L(rng, 1e-6, 1.0)])
        p = min(max(p, 0.0), 1.0)
        return ("u64", [str(n), S.f_bits("f64", p)])
    if fam == "geometric":
        p = rng.choice([0.0, 1.0, 2.0 / 3.0, S.nextafter("f64", 2.0 / 3.0, False), 0.5, 1e-12, L(rng, 1e-12, 1.0)])
        return ("u64", [S.f_bits("f64", p)])
    if fam == "hypergeometric":
        N = rng.choice([0, 1, 2, 10, 40, rng.below(200), rng.below(10**6), 2**40])
        K = rng.below(N + 1); n = rng.below(N + 1)
        return ("u64", [str(N), str(K), str(n)])
    if fam == "poisson":
        t = ty
        lam = rng.choice([1e-3, 0.5, S.nextafter(t, 12.0, False), 12.0, S.nextafter(t, 12.0, True), 100.0, L(rng, 1e-3, 1e15 if t == "f64" else 1e6)])
        return (t, [S.f_bits(t, S.f_round(t, lam))])
    if fam == "zeta":
        t = ty
        s = rng.choice([1.01 if t == "f64" else 1.1, 1.5, 2.0, 3.0, L(rng, 1.1, 20.0)])
        return (t, [S.f_bits(t, S.f_round(t, s))])
    if fam == "zipf":
        t = ty
        n = rng.choice([1.0, 2.0, 10.0, 1000.0, float(int(L(rng, 1, 1e15 if t == "f64" else 1e6)))])
        s = rng.choice([0.0, 0.5, 1.0, S.nextafter(t, 1.0, True), S.nextafter(t, 1.0, False), 2.0, L(rng, 0.01, 20.0)])
        return (t, [S.f_bits(t, S.f_round(t, n)), S.f_bits(t, S.f_round(t, s))])
    raise ValueError(fam)


def points(ctx):
    rng, tier = ctx["rng"], ctx["tier"]
    npts = 3 if tier == "quick" else 12
    pts = []    # (family, ty, [param strings])
    # corners of the Beta box of envelope E: the smallest shape makes exp(v) overflow for the largest uniform draw (w = +inf, the guard
    # anchored at beta.rs:253-262), the largest makes a * exp(v) overflow; placed first so that the quick tier's f32 sweep uses one of them
    for ty in ("f32", "f64"):
        lo, hi = (0.05, 1e4) if ty == "f64" else (0.2, 1e3)
        for a, b in ((hi, lo), (lo, hi), (lo, lo), (1.0, lo)):
            vals = (S.f_round(ty, a), S.f_round(ty, b))
            if S.in_envelope("beta", ty, vals):
                pts.append(("beta", ty, [S.f_bits(ty, v) for v in vals]))
    for fam in S.CONT_FAMILIES:
        for ty in ("f64", "f32"):
            got = 0
            for _ in range(200):
                if got >= (1 if fam in ("stdnormal", "exp1") else npts): break
                vals = tuple(S.f_round(ty, v) for v in S.fam_params(fam, rng, ty))
                if S.in_envelope(fam, ty, vals):
                    pts.append((fam, ty, [S.f_bits(ty, v) for v in vals])); got += 1
    for fam in DISC:
        for ty in (("f64", "f32") if fam in ("poisson", "zeta", "zipf") else ("u64",)):
            for k in range(1 if fam == "stdgeometric" else 2 * npts):
                t, ps = disc_params(fam, rng, ty, k)
                pts.append((fam, t, ps))
    return pts


def classify(fam, ty, ps, fail):
    """decidable class of a failure record `pos:word:seed:value:why` (lat) or sweep record"""
    pos, word, seed, val, why = fail
    if fam in ("frechet", "gumbel") and why in ("inf", "-inf"):
        top = (word >> 40) if ty == "f32" else (word >> 11)
        if top == (2**24 - 1 if ty == "f32" else 2**53 - 1):
            return fam + "-draw-one"
    if why == "inf" and fam in ("exp1", "exp", "gamma", "chisq", "fisherf", "studentt", "poisson", "pert", "beta"):
        if (word >> 11) == 0:
            return "exp1-tail-zero-draw"
    if fam in ("fisherf", "studentt") and why in ("inf", "-inf", "NaN") and (word >> 12) == 2**51:
        return "zero-normal-division"
    if fam == "zipf" and why not in ("inf", "-inf", "NaN") and val != "panic":
        # (a) the largest draws: floor(inv_cdf(u) + 1) rounds up to n + 1
        if word >= 0 and (word >> 52) == 0xFFF:
            return "zipf-top-draw"
        # (b) s within a few ulp of 1: (pt*(1-s)+s).powf(1/(1-s)) cancels catastrophically
        s_val = S.bits_val(ty, ps[1])
        if s_val != 1.0 and abs(s_val - 1.0) <= 4 * (2.0 ** -23 if ty == "f32" else 2.0 ** -52):
            return "zipf-s-near-one"
    return None



def r32(x):
    import struct
    try:
        return struct.unpack("<f", struct.pack("<f", x))[0]
    except OverflowError:
        return math.copysign(math.inf, x)


def triangular_ieee(ty, mn, mx, md, word):
    """Props/C03_fl.v: triangular_fl evaluated in IEEE arithmetic (binary32 through binary64, one rounding per operation: products of
    24-bit significands are exact in binary64, + - and sqrt round innocuously twice since 53 >= 2*24 + 2)"""
    rr = (lambda z: z) if ty == "f64" else r32
    f = (word >> 11) * 2.0 ** -53 if ty == "f64" else (word >> 40) * 2.0 ** -24
    dmm = rr(md - mn); rng_ = rr(mx - mn); fr = rr(f * rng_)
    if fr < dmm:
        return rr(mn + rr(math.sqrt(rr(fr * dmm))))
    return rr(mx - rr(math.sqrt(rr(rr(rng_ - fr) * rr(mx - md)))))


def triangular_oracle(ctx):
    """bit-exact tie between triangular_fl (the Flocq program of C03_triangular_fl_finite) and Triangular::sample of the crate"""
    rng, tier = ctx["rng"], ctx["tier"]
    jobs = []
    for ty in ("f64", "f32"):
        pts = []
        for _ in range(12 if tier == "quick" else 80):
            pts.append(S.tri(rng, ty))
        big = 2.0 ** (510 if ty == "f64" else 62)
        pts += [(-1.0, 1.0, 0.0), (0.0, 1.0, 1.0), (0.0, 1.0, 0.0), (-1.0, 1.0 + 3 * 2.0 ** -23, 1.0 + 3 * 2.0 ** -23), (-big, big, 0.0), (-big, big, big),
                (1.0, S.nextafter(ty, 1.0, True), 1.0), (-3.0, -1.0, -2.0), (0.0, 2.0 ** -100, 2.0 ** -101)]
        for (a, b, m) in pts:
            a, b, m = S.f_round(ty, a), S.f_round(ty, b), S.f_round(ty, m)
            if not (a <= m <= b and a < b): continue
            words = [w for w in S.LATTICE[::3]] + [rng.u64() for _ in range(24 if tier == "quick" else 200)]
            for w in words:
                jobs.append((ty, a, b, m, w & (2 ** 64 - 1)))
    lines = ["samp triangular %s %s 0 %x" % (ty, ",".join(S.f_bits(ty, v) for v in (a, b, m)), w) for ty, a, b, m, w in jobs]
    outs = run_harness_parallel(ctx["binary"], lines)
    fails, branch = [], {"first": 0, "second": 0}
    for (ty, a, b, m, w), line, o in zip(jobs, lines, outs):
        if o.startswith("E:") or o.startswith("ctorpanic"):
            continue
        want = triangular_ieee(ty, a, b, m, w)
        f = (w >> 11) * 2.0 ** -53 if ty == "f64" else (w >> 40) * 2.0 ** -24
        branch["first" if ((lambda z: z) if ty == "f64" else r32)(f * ((lambda z: z) if ty == "f64" else r32)(b - a)) < ((lambda z: z) if ty == "f64" else r32)(m - a) else "second"] += 1
        got = o.split(";")[0].split(":")[0].lstrip("x")
        if o.startswith("panic") or got != S.f_bits(ty, want):
            fails.append({"property": PID, "class": "triangular-ieee", "harness_line": line[:300],
                          "what": "Triangular<%s>(min=%r, max=%r, mode=%r) on word %x returned %s, the IEEE program triangular_fl gives %s (%r)"
                                  % (ty, a, b, m, w, got, S.f_bits(ty, want), want)})
    return fails, len(jobs), branch


def correspond(ctx):
    rng, tier = ctx["rng"], ctx["tier"]
    pts = points(ctx)
    lattice = S.LATTICE
    n_per = 2 if tier == "quick" else 6
    npos = 4 if tier == "quick" else 8
    lat = ",".join("%x" % w for w in lattice)
    lines, meta = [], []
    for fam, ty, ps in pts:
        for build in ("debug", "release"):
            if build == "release" and tier == "quick" and fam not in ("binomial", "hypergeometric", "poisson", "geometric"):
                continue
            lines.append("lat %s %s %s %x %d %d %s" % (fam, ty, ",".join(ps) or "-", rng.u64(), n_per, npos, lat))
            meta.append(("lat", fam, ty, ps, build))
            lines.append("many %s %s %s %x %d" % (fam, ty, ",".join(ps) or "-", rng.u64(), 2000 if tier == "quick" else 50000))
            meta.append(("many", fam, ty, ps, build))
    # exhaustive f32 sweeps: every f32 sampler, position 0 (and more positions at thorough tier)
    sweeps = []
    seen = set()
    for fam, ty, ps in pts:
        if ty != "f32": continue
        if tier == "quick" and fam in seen: continue
        seen.add(fam)
        for pos in ((0,) if tier == "quick" else range(0, 8)):
            sweeps.append(("sweep", fam, ty, ps, "release", pos))
            lines.append("sweep %s %s %s %x %d" % (fam, ty, ",".join(ps) or "-", rng.u64(), pos))
            meta.append(("sweep", fam, ty, ps, "release"))
    outs = [None] * len(lines)
    for build in ("debug", "release"):
        idx = [i for i, m in enumerate(meta) if m[4] == build]
        res = run_harness_guarded_parallel(ctx["binary"] if build == "debug" else ctx["binary_release"], [lines[i] for i in idx],
                                           batch_timeout=240, line_timeout=30, chunk=6)
        for i, r in zip(idx, res):
            outs[i] = r
    oracle_failures = []
    evals, fails_seen, hangs = 0, 0, 0
    classes = {}
    for line, m, o in zip(lines, meta, outs):
        kind, fam, ty, ps, build = m
        if o.startswith("E:") or o.startswith("ctorpanic") or o.startswith("bad"):
            continue
        if o in ("HANG",) or o.startswith("CRASH"):
            hangs += 1
            oracle_failures.append({"property": PID, "family": fam, "type": ty, "params": ps, "harness_line": line[:300], "build": build,
                                    "class": "hang", "what": "%s did not return within the watchdog (%s)" % (fam, o)})
            continue
        f = dict(x.split("=", 1) for x in o.split(" "))
        evals += int(f["n"])
        recs = []
        if kind == "lat" and f["fails"] != "-":
            for r in f["fails"].split(","):
                pos, word, seed, val, why = r.split(":", 4)
                recs.append((int(pos), int(word, 16), int(seed, 16), val, why))
        elif kind == "many" and f["first"] != "-":
            i, seed, val, why = f["first"].split(":", 3)
            recs.append((-1, -1, int(seed, 16), val, why))
        elif kind == "sweep" and f["first"] != "-":
            k, val, why = f["first"].split(":", 2)
            recs.append((0, int(k, 16) << 40 | ((1 << 40) - 1), 0, val, why))
        for r in recs:
            fails_seen += 1
            cls = classify(fam, ty, ps, r) or "unclassified"
            classes[cls] = classes.get(cls, 0) + 1
            oracle_failures.append({"property": PID, "family": fam, "type": ty, "params": ps, "build": build, "class": cls,
                                    "harness_line": line[:200] + ("…" if len(line) > 200 else ""),
                                    "what": "%s<%s>(%s): sample = %s (%s) with word %s at position %d (stream seed %x)" % (
                                        fam, ty, ",".join(ps), r[3], r[4], "%x" % r[1] if r[1] >= 0 else "random", r[0], r[2])})
    # weighted index distributions (also Distribution<usize>): index < len, non-zero weight, no panic — float tables and trees with the
    # largest threshold / target draws, integer tables and trees with lattice words (the integer case is the theorem C03_tree_index /
    # C03_alias_index_range; this is the same predicate evaluated on the real crate)
    import c08, c10
    wfail = {"alias": 0, "tree": 0}
    flines, fmeta = c08.float_lines(ctx)
    tlines, tmeta = c10.float_cases(ctx)
    ilines, imeta = [], []
    for k in range(200 if tier == "quick" else 5000):
        ty = rng.choice(["u8", "u16", "u32", "u64", "i8", "i64", "usize", "u128"])
        n = 1 + rng.below(9)
        cap = {"u8": 255, "u16": 65535, "u32": 2**32 - 1, "u64": 2**64 - 1, "i8": 127, "i64": 2**63 - 1, "usize": 2**64 - 1, "u128": 2**128 - 1}[ty] // n
        ws = [rng.choice([0, 0, 1, 2, cap, cap - 1, rng.below(cap + 1)]) if cap > 1 else rng.below(cap + 1) for _ in range(n)]
        words = " ".join("S:%x,%x" % (rng.choice(lattice), rng.choice(lattice)) for _ in range(6))
        ilines.append("alias %s 0 %s %s" % (ty, ",".join(str(w) for w in ws), words)); imeta.append(("alias", ty, ws))
        ilines.append("tree %s 0 N:%s %s" % (ty, ",".join(str(w) for w in ws), " ".join("S:%x,%x" % (rng.choice(lattice), rng.choice(lattice)) for _ in range(6))))
        imeta.append(("tree", ty, ws))
    wouts = run_harness_parallel(ctx["binary"], flines + tlines + ilines)
    fo, to, io = wouts[:len(flines)], wouts[len(flines):len(flines) + len(tlines)], wouts[len(flines) + len(tlines):]
    def wrec(cls, ty, line, what):
        oracle_failures.append({"property": PID, "family": "weighted", "type": ty, "params": [], "build": "debug", "class": cls,
                                "harness_line": line[:400], "what": what})
    for line, (ty, hx), o in zip(flines, fmeta, fo):
        if not o.startswith("ok|"): continue
        vals = [c08.fval(ty, h) for h in hx]
        smp = o.split("|")[4]
        for sm in (smp.split(";") if smp else []):
            if sm == "panic":
                wrec("weighted-panic", ty, line, "WeightedAliasIndex<%s>::sample panicked for weights %s" % (ty, vals)); wfail["alias"] += 1
            else:
                i = int(sm.split(":")[1])
                tiny = 1.1754943508222875e-38 if ty == "f32" else 2.2250738585072014e-308
                if i >= len(vals):
                    cls = "float-alias-sentinel" if (i == 4294967295 and sum(vals) < tiny) else "weighted-index-range"
                    wrec(cls, ty, line, "WeightedAliasIndex<%s>::sample returned %d for %d weights %s" % (ty, i, len(vals), vals)); wfail["alias"] += 1
                elif vals[i] == 0:
                    wrec("weighted-zero-weight", ty, line, "WeightedAliasIndex<%s>::sample returned zero-weight index %d of %s" % (ty, i, vals)); wfail["alias"] += 1
    for line, (ty, ws, words), o in zip(tlines, tmeta, to):
        recs = o.split(";")
        st = recs[1].split("|")
        if st[0] == "panic" and st[1].split(",")[2] == "1":
            wrec("float-tree-assert", ty, line, "WeightedTreeIndex<%s>::try_sample panicked although is_valid() (weights %s, words %s)" % (ty, ws, words)); wfail["tree"] += 1
        elif st[0].startswith("idx:") and int(st[0].split(":")[1]) >= len(ws):
            wrec("weighted-index-range", ty, line, "WeightedTreeIndex<%s>::try_sample returned index %s for %d weights" % (ty, st[0], len(ws))); wfail["tree"] += 1
    for line, (kind, ty, ws), o in zip(ilines, imeta, io):
        if kind == "alias":
            if not o.startswith("ok|"):
                if o == "panic": wrec("weighted-panic", ty, line, "WeightedAliasIndex<%s>::new panicked for %s" % (ty, ws))
                continue
            idxs = [sm for sm in o.split("|")[4].split(";") if sm]
        else:
            idxs = [r.split("|")[0] for r in o.split(";")[1:]]
            if o.split(";")[0].split("|")[0].startswith("E:"): continue
        for sm in idxs:
            if sm == "panic":
                wrec("weighted-panic", ty, line, "%s<%s>: sampling panicked for integer weights %s" % (kind, ty, ws)); wfail[kind] += 1
            elif sm.startswith("idx:"):
                i = int(sm.split(":")[1])
                if i >= len(ws) or ws[i] == 0:
                    wrec("weighted-index-range" if i >= len(ws) else "weighted-zero-weight", ty, line,
                         "%s<%s>: sampled index %d for integer weights %s" % (kind, ty, i, ws)); wfail[kind] += 1
    evals += len(wouts)
    tfails, tjobs, tbranch = triangular_oracle(ctx)
    oracle_failures += tfails[:20]
    evals += tjobs
    return {
        "evaluations": evals, "distinct_nontrivial": len(lines) + len(wouts),
        "rule": "weighted index distributions: float/integer alias tables and trees with the largest threshold/target draws and lattice words "
                "(index < len, non-zero weight, no panic); for every sampler (20 continuous x {f32,f64}, 7 discrete) and parameter points of envelope E (incl. integer extremes): "
                "the lattice of %d boundary words at each of %d positions of otherwise seeded streams (n=%d each), seeded random streams, and "
                "for every f32 sampler all 2^24 high-bit patterns of one word; checked on the real crate: no panic, finite, inside the documented "
                "support; debug and release builds. distinct_nontrivial counts distinct (sampler, type, parameters, build, mode) exploration jobs"
                % (len(lattice), npos, n_per),
        "samples": [lines[0][:200], lines[1][:200], lines[-1][:200]],
        "mismatches": [], "oracle_failures": oracle_failures,
        "exhaustive": False,
        "extra": {"lattice_words": len(lattice), "sweeps_2p24": sum(1 for m in meta if m[0] == "sweep"),
                  "failure_records": fails_seen, "failure_classes": classes, "weighted_index_cases": len(wouts), "weighted_index_failures": wfail, "watchdog_hangs": hangs, "parameter_points": len(pts),
                  "triangular_ieee_oracle": {"cases": tjobs, "branches": tbranch, "failures": len(tfails)}},
    }


def match_known(f, kf):
    for k in kf:
        if k.get("class") == f.get("class"):
            return k
    return None


def replay_known(ctx, k):
    w = k.get("witness", {})
    if "harness_line" not in w:
        return None
    out = run_harness_guarded(ctx["binary_release"], [w["harness_line"]], line_timeout=10)[0]
    if w.get("expect") and w["expect"] in out:
        return {"what": k["what"], "harness_line": w["harness_line"], "out": out}
    return None


def replay(ctx, obj):
    print("rust :", run_harness_guarded(ctx["binary"], [obj["harness_line"]], line_timeout=20)[0])
