"""C06 — ziggurat primitives are exact: tables and algorithm define N(0,1) and Exp(1)."""
import re, decimal
from common import *
import samplib as S
import c01

PID = "C06"
LEVEL = "proof"
COQ_TARGETS = ["Props/C06.vo", "Props/C06_identity.vo", "Props/C06_fp.vo", "Props/C06_model.vo"]
PROPS_FILES = ["C06", "C06_identity", "C06_fp", "C06_model"]
THEOREMS = ["C06_model_zig_returns_accepted", "C06_fingerprints", "C06_norm_strict_mono", "C06_exp_strict_mono", "C06_norm_f_is_pdf", "C06_exp_f_is_pdf", "C06_norm_layer_areas",
            "C06_exp_layer_areas", "C06_exp_base_area", "C06_norm_base_area", "C06_norm_base_consts", "C06_norm_ends", "C06_exp_ends", "C06_fingerprints",
            "C06_zig_bits_independent", "C06_zig_u_range", "C06_zig_density_identity", "C06_zig_density_identity_sym",
            "C06_zig_tail_identity", "C06_exp_tail_event", "C06_normal_tail_accept", "C06_normal_tail_density"]
TRUSTED_BASE = [
    "Coq 8.16.1 kernel + vm_compute; table theorems by reflection through Base/Expr.v (evalI_sound over Coq-Interval's "
    "operations; axioms: stdlib reals, classic, functional extensionality, Uint63 primitive-integer specs)",
    "tools/rs2coq.py regenerates coq/Gen/ZigTables.v from src/ziggurat_tables.rs on every run (decimal literal -> exact "
    "rational and its correctly rounded binary64); the bits the compiled crate holds are read through the cfg-guarded hook and "
    "compared entry by entry",
    "hand model of utils.rs:62-96 / normal.rs:62-90 / exponential.rs:65-85 in coq/Model/Continuous.v (zig, norm_zero, exp_zero), "
    "tied by pathwise correspondence incl. crafted words per layer and branch, and by regenerated fingerprints",
    "normal base strip: X_1 F_1 + int_r^40 exp(-x^2/2) dx = X_0 F_1 to 1e-8 is proved by Coq-Interval's `integral` tactic on the regenerated "
    "constants (Gen/ZigNormTail.v); the remainder beyond 40 (< 1e-340) is not formalised; the density identity is proved for exact tables, the "
    "perturbation bound for the 1e-8 table tolerance is not formalised",
]
ASSUMPTIONS = ["B1-B4 of DESIGN.md §3", "libm exp/ln within the per-operation budgets of Base/Expr.v"]


def tables(ctx):
    out = run_harness(ctx["binary"], ["zig"])[0]
    res = []
    for part in out.split(";"):
        xs, fs, r = part.split("|")
        res.append((xs.split(","), fs.split(","), r))
    return res


def gen_dyadics():
    src = open(os.path.join(COQ, "Gen", "ZigTables.v")).read()
    d = {}
    for name in ("ZIG_NORM_X", "ZIG_NORM_F", "ZIG_EXP_X", "ZIG_EXP_F"):
        m = re.search(r"Definition %s : list \(Z \* Z\) := \[(.*?)\]\." % name, src, re.S)
        d[name] = [tuple(int(x.strip("() \n")) for x in e.split(",")) for e in m.group(1).split(";")]
    for name in ("ZIG_NORM_R", "ZIG_EXP_R"):
        m = re.search(r"Definition %s : Z \* Z := \((.*?)\)\." % name, src)
        a, b = m.group(1).split(",")
        d[name] = [(int(a.strip("() ")), int(b.strip("() ")))]
    return d


def table_oracle(tabs):
    """the defining equations, evaluated in 50-digit decimal arithmetic on the bits the compiled crate holds"""
    decimal.getcontext().prec = 50
    D = decimal.Decimal
    fails = []
    for which, (xs, fs, r) in enumerate(tabs):
        name = "NORM" if which == 0 else "EXP"
        X = [D(S.bits_val("f64", h)) for h in xs]
        Fv = [D(S.bits_val("f64", h)) for h in fs]
        R = D(S.bits_val("f64", r))
        pdf = (lambda x: (-(x * x) / 2).exp()) if which == 0 else (lambda x: (-x).exp())
        if len(X) != 257 or len(Fv) != 257:
            fails.append("ZIG_%s: table length" % name); continue
        for i in range(256):
            if not (X[i + 1] < X[i]): fails.append("ZIG_%s_X not strictly decreasing at %d" % (name, i))
            if not (Fv[i] < Fv[i + 1]): fails.append("ZIG_%s_F not strictly increasing at %d" % (name, i))
        for i in range(257):
            if abs(pdf(X[i]) - Fv[i]) > D("1e-14"): fails.append("ZIG_%s_F[%d] != f(ZIG_%s_X[%d]) (diff %s)" % (name, i, name, i, abs(pdf(X[i]) - Fv[i])))
        v = X[0] * Fv[1]
        for i in range(1, 256):
            if abs(X[i] * (Fv[i + 1] - Fv[i]) / v - 1) > D("1e-8"): fails.append("ZIG_%s layer %d area deviates from the base strip area" % (name, i))
        if X[256] != 0 or Fv[256] != 1 or X[1] != R: fails.append("ZIG_%s end points (X[256]=0, F[256]=1, X[1]=R)" % name)
        if which == 1:
            T = (-R).exp()
        else:
            # integral_r^inf exp(-x^2/2) dx by the continued-fraction-free series for the Mills ratio is slow; use the
            # convergent series of erfc through direct summation of the Taylor series of the integral from 0
            s, term, n = D(0), R, 0
            while abs(term) > D("1e-45"):
                s += term / (2 * n + 1)
                n += 1
                term = -term * R * R / (2 * n)
            sqrt_half_pi = (D(2).sqrt() * D("1.7724538509055160272981674833411451827975494561224")) / 2
            T = sqrt_half_pi - s
        if abs((X[1] * Fv[1] + T) / v - 1) > D("1e-8"): fails.append("ZIG_%s base strip + tail area deviates from the layer area" % name)
    return fails


def crafted_words(ctx, tabs):
    """for both samplers and every layer byte: mantissas around the rectangle/wedge boundary, both signs, plus the tail layer"""
    rng = ctx["rng"]
    res = []
    for which, fam in ((0, "stdnormal"), (1, "exp1")):
        xs = [S.bits_val("f64", h) for h in tabs[which][0]]
        layers = range(256) if ctx["tier"] == "thorough" else list(range(0, 256, 9)) + [0, 1, 2, 254, 255]
        for i in layers:
            ratio = xs[i + 1] / xs[i]
            ks = []
            if which == 0:
                for sgn in (1, -1):
                    base = (1 << 51) + sgn * int(ratio * (1 << 51))
                    ks += [base - 2 * sgn, base + 2 * sgn, (1 << 51) + sgn * int(((1 + ratio) / 2) * (1 << 51))]
            else:
                base = int(ratio * (1 << 52))
                ks += [base - 3, base + 3, int(((1 + ratio) / 2) * (1 << 52))]
            for k in ks:
                k = max(0, min((1 << 52) - 1, k))
                w = (k << 12) | i
                for ty in ("f64", "f32"):
                    res.append((fam, ty, (), [w] + S.random_words(rng, 40)))
        # the tail branch (layer 0, |u| X_0 >= X_1): many streams, both signs, random and extreme tail uniforms
        ratio0 = xs[1] / xs[0]
        ntail = 150 if ctx["tier"] == "quick" else 3000
        for j in range(ntail):
            frac = ratio0 + (1 - ratio0) * (rng.below(1 << 20) + 1) / float((1 << 20) + 2)
            if which == 0:
                k = (1 << 51) + (1 if j % 2 else -1) * int(frac * (1 << 51))
            else:
                k = int(frac * (1 << 52))
            k = max(0, min((1 << 52) - 1, k))
            tailw = S.random_words(rng, 40)
            if j % 10 == 0: tailw[rng.below(4)] = rng.choice([0, 2**64 - 1, 1 << 12, (1 << 63)])
            res.append((fam, "f64" if j % 3 else "f32", (), [(k << 12) | 0] + tailw))
    return res


def correspond(ctx):
    tabs = tables(ctx)
    gd = gen_dyadics()
    oracle_failures, mismatches = [], []
    # bits from the source literal (Gen) vs bits the compiled crate holds (hook)
    names = [("ZIG_NORM_X", 0, 0), ("ZIG_NORM_F", 0, 1), ("ZIG_EXP_X", 1, 0), ("ZIG_EXP_F", 1, 1)]
    nbits = 0
    for nm, w, c in names:
        for i, h in enumerate(tabs[w][c]):
            nbits += 1
            if S.dyadic("f64", h) != gd[nm][i] and not (gd[nm][i] == (0, 0) and S.bits_val("f64", h) == 0.0):
                mismatches.append({"what": "%s[%d]: compiled bits %s differ from the regenerated literal %s" % (nm, i, h, gd[nm][i])})
    for nm, w in (("ZIG_NORM_R", 0), ("ZIG_EXP_R", 1)):
        if S.dyadic("f64", tabs[w][2]) != gd[nm][0]:
            mismatches.append({"what": "%s: compiled bits differ from the regenerated literal" % nm})
    for f in table_oracle(tabs):
        oracle_failures.append({"property": PID, "class": "zig-table", "what": f})
    # sampler correspondence
    cases = c01.gen_cases(dict(ctx, tier=ctx["tier"]), fams=["stdnormal", "exp1"])
    if ctx["tier"] == "quick":
        cases = cases[:400]
    cases += crafted_words(ctx, tabs)
    lines, outs, idx, codes, stats = c01.run_cases(ctx, cases, "C06")
    per = {"match": 0, "mismatch": 0, "unjudged": 0}
    branch = {"first_word_return": 0, "more_words": 0}
    for n, code in zip(idx, codes):
        per["match" if code == 0 else "mismatch" if code == 1 else "unjudged"] += 1
        cnt = int(outs[n].split(";")[0].split(":")[1])
        branch["first_word_return" if cnt == 1 else "more_words"] += 1
        if code == 1:
            mismatches.append({"family": cases[n][0], "type": cases[n][1], "harness_line": lines[n][:400], "rust": outs[n]})
    return {
        "evaluations": len(cases) + nbits, "distinct_nontrivial": len({(c[0], c[1], c[3][0]) for c in cases}),
        "rule": "all 4x257+2 table entries: regenerated literal vs compiled bits (hook) and the defining equations in 50-digit decimal "
                "arithmetic; StandardNormal/Exp1 (f32,f64) pathwise against the Coq model on random streams and on crafted first words: "
                "per layer byte, mantissas just inside / just outside the rectangle and in the middle of the wedge, both signs. "
                "distinct by (sampler, type, first word)",
        "samples": [lines[0][:200], lines[-1][:200]],
        "mismatches": mismatches, "oracle_failures": oracle_failures,
        "extra": {"table_entries_checked": nbits, "sampler_cases": per, "branch_counts": branch, "case_stats": stats, "distinct_model_paths": ctx.get("model_paths", {})},
    }


def replay(ctx, obj):
    if "harness_line" in obj:
        print("rust :", run_harness(ctx["binary"], [obj["harness_line"]])[0])
    else:
        print(obj)
