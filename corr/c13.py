"""C13 — exact induced law of the single-draw f32 samplers over all 2^24 uniform values."""
from common import *
import samplib as S
import c01

PID = "C13"
LEVEL = "proof"
NEED_RELEASE = True
COQ_TARGETS = ["Props/C13.vo", "Props/C13_ks.vo", "Props/C13_fp.vo"]
PROPS_FILES = ["C13", "C13_ks", "C13_fp"]
THEOREMS = ["C13_fingerprints", ]
FAMS = ["cauchy", "pareto", "weibull", "gumbel", "frechet", "triangular"]
TRUSTED_BASE = [
    "Coq 8.16.1 kernel; C01's theorems for the six families (exactly one word consumed; Q(u) <= x <-> u <= F(x)); Proofs/KS.v "
    "(finite formula for the Kolmogorov distance of an empirical measure and the bound from pointwise accuracy)",
    "exhaustive enumeration on the real crate (harness sweep, release build): all 2^24 first-word high-bit patterns per (family, "
    "parameter point): finite, inside the support, monotone in the draw, exactly one word consumed",
    "the property's inequality KS <= 2^-24(1.5 + 8 sup|x f|) is decided on the real code by the harness command `ks`: all 2^24 outputs sorted, "
    "the step formula proved in Proofs/KS.v, the documented CDF/density evaluated in binary64 (rounding error ~1e-16, five orders below the "
    "bound; not interval-rigorous: stated as such)",
    "pointwise accuracy |s_k - Q(u_k)| against the Coq model enclosure at stratified draws (dense at both ends) via coqc ties the outputs to the "
    "proved quantile transform",
]
ASSUMPTIONS = ["libm within the per-operation budgets of Base/Expr.v", "known finding F4/F11: the draw 1.0 gives an infinite Frechet/Gumbel sample"]


def points(ctx):
    rng, tier = ctx["rng"], ctx["tier"]
    npts = 2 if tier == "quick" else 8
    pts = []
    for fam in FAMS:
        got = 0
        for _ in range(200):
            if got >= npts: break
            vals = tuple(S.f_round("f32", v) for v in S.fam_params(fam, rng, "f32"))
            if S.in_envelope(fam, "f32", vals):
                pts.append((fam, vals)); got += 1
    return pts


def strat_ks(ctx):
    n = 96 if ctx["tier"] == "quick" else 1024
    ks = set(range(0, 40)) | set(range(2**24 - 40, 2**24)) | {2**23 - 1, 2**23, 2**23 + 1, 2**22, 3 * 2**22}
    rng = ctx["rng"]
    step = 2**24 // n
    for i in range(n):
        ks.add(i * step + rng.below(step))
    return sorted(ks)


def correspond(ctx):
    rng = ctx["rng"]
    pts = points(ctx)
    # 1. exhaustive sweeps on the real code
    lines = ["sweep %s f32 %s %x 0" % (fam, ",".join(S.f_bits("f32", v) for v in vals), rng.u64()) for fam, vals in pts]
    outs = run_harness_guarded_parallel(ctx["binary_release"], lines, batch_timeout=600, line_timeout=120, chunk=1)
    oracle_failures, mismatches = [], []
    sweeps = []
    for (fam, vals), line, o in zip(pts, lines, outs):
        if not o.startswith("n="):
            oracle_failures.append({"property": PID, "class": "sweep-error", "family": fam, "harness_line": line, "what": "sweep returned " + o})
            continue
        f = dict(x.split("=", 1) for x in o.split(" "))
        sweeps.append({"family": fam, "params": list(vals), **{k: f[k] for k in ("bad", "nonfinite", "panic", "nonmono", "maxwords")}})
        allowed_nonmono = 1 if fam == "cauchy" else 0
        if int(f["maxwords"]) != 1:
            oracle_failures.append({"property": PID, "class": "more-than-one-word", "family": fam, "harness_line": line,
                                    "what": "%s consumed %s words for one sample: C13 not applicable / C01 covers it" % (fam, f["maxwords"])})
        if int(f["bad"]) or int(f["panic"]) or int(f["nonmono"]) > allowed_nonmono:
            oracle_failures.append({"property": PID, "class": "sweep", "family": fam, "harness_line": line,
                                    "what": "over all 2^24 draws of %s<f32>%s: out of support %s, panics %s, monotonicity breaks %s (first: %s)"
                                            % (fam, list(vals), f["bad"], f["panic"], f["nonmono"], f["first"])})
        if int(f["nonfinite"]):
            k = f["first"].split(":")[0]
            val = (f["first"].split(":") + [""])[1]
            # the known findings F4 / F11 are an INFINITE result at the single draw 1.0; a NaN there (or anything elsewhere) is new
            cls = fam + "-draw-one" if (fam in ("frechet", "gumbel") and int(f["nonfinite"]) == 1 and k == "ffffff"
                                        and val in ("x7f800000", "xff800000")) else "sweep-nonfinite"
            oracle_failures.append({"property": PID, "class": cls, "family": fam, "harness_line": line,
                                    "what": "%s<f32>%s: %s of the 2^24 draws give a non-finite sample (first: %s)" % (fam, list(vals), f["nonfinite"], f["first"])})
    # 1b. the property's inequality itself, decided numerically on the real code: exact Kolmogorov distance of the induced law
    #     (all 2^24 outputs, sorted, step formula of Proofs/KS.v) against the documented CDF evaluated in binary64
    klines = ["ks %s %s %x" % (fam, ",".join(S.f_bits("f32", v) for v in vals), rng.u64()) for fam, vals in pts]
    kouts = run_harness_guarded_parallel(ctx["binary_release"], klines, batch_timeout=900, line_timeout=300, chunk=1)
    ks_table = []
    for (fam, vals), line, o in zip(pts, klines, kouts):
        if not o.startswith("D="):
            oracle_failures.append({"property": PID, "class": "ks-error", "family": fam, "harness_line": line, "what": "ks returned " + o}); continue
        f = dict(x.split("=", 1) for x in o.split(" "))
        D, B = float(f["D"]), float(f["bound"])
        ks_table.append({"family": fam, "params": list(vals), "D": D, "bound": B, "M": float(f["M"])})
        if not (D <= B):
            oracle_failures.append({"property": PID, "class": "ks-bound", "family": fam, "harness_line": line,
                                    "what": "%s<f32>%s: Kolmogorov distance of the exact induced law %.3e exceeds 2^-24(1.5+8 sup|xf|) = %.3e (argmax %s)"
                                            % (fam, list(vals), D, B, f["argmax"])})
    # 2. pointwise accuracy at stratified draws against the model enclosure
    ks = strat_ks(ctx)
    cases = []
    for fam, vals in pts:
        low = rng.u64() & ((1 << 40) - 1)
        for k in ks:
            cases.append((fam, "f32", vals, [(k << 40) | low] + S.random_words(rng, 6)))
    lines2, outs2, idx, codes, stats = c01.run_cases(ctx, cases, "C13")
    per = {}
    for n, code in zip(idx, codes):
        fam = cases[n][0]
        st = per.setdefault(fam, {"match": 0, "mismatch": 0, "unjudged": 0})
        st["match" if code == 0 else "mismatch" if code == 1 else "unjudged"] += 1
        if code == 1:
            mismatches.append({"family": fam, "params": list(cases[n][2]), "harness_line": lines2[n], "rust": outs2[n]})
    return {
        "evaluations": len(pts) * 2**24 + len(cases), "distinct_nontrivial": len(pts) * 2**24,
        "rule": "6 single-draw families x f32 x parameter points of envelope E: ALL 2^24 high-bit patterns of the first word through the real "
                "crate (finite, in support, monotone, one word), plus %d stratified draws per point (both ends dense) compared with the Coq model "
                "enclosure; distinct = distinct (family, parameters, draw)" % len(ks),
        "samples": [lines[0], lines2[0][:160], {"sweep_result": outs[0]}],
        "mismatches": mismatches, "oracle_failures": oracle_failures,
        "exhaustive": True,
        "extra": {"sweeps": sweeps, "exact_ks": ks_table, "pointwise": per, "stratified_draws_per_point": len(ks), "case_stats": stats, "distinct_model_paths": ctx.get("model_paths", {})},
    }


def match_known(f, kf):
    for k in known_findings():
        if k.get("status", "open") == "open" and k.get("class") == f.get("class") and k.get("property") in ("C03", "C13"):
            return dict(k, id=k["id"])
    return None


def replay(ctx, obj):
    print("rust :", run_harness_guarded(ctx["binary_release"], [obj["harness_line"]], line_timeout=120)[0])
