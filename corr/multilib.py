"""vector-valued samplers (unit geometry, Dirichlet): harness / Coq encodings shared by C11 and C12"""
import math
from common import *
import samplib as S
import c01

HEADER = ("From Coq Require Import ZArith List.\nFrom RD Require Import Base.Expr Base.Run Model.Sampler Model.Continuous Model.ContIO Model.Multi.\n"
          "Import ListNotations.\nOpen Scope Z_scope.\n")
COQ_NAME = {"unitcircle": "unit_circle", "unitdisc": "unit_disc", "unitsphere": "unit_sphere", "unitball": "unit_ball"}


def parse_vec(ty, field):
    """'x..,x..:count' -> ([floats], [dyadic or None], count)"""
    vals, cnt = field.rsplit(":", 1)
    hs = vals.split(",") if vals else []
    return [S.bits_val(ty, h) for h in hs], [S.dyadic(ty, h) for h in hs], int(cnt)


def run(ctx, jobs, tag):
    """jobs: (family, ty, [alpha values], words). Returns per job dict(out, vals, dy, count, code, slice_equal)"""
    lines = ["multi %s %s %s 0 %s" % (fam, ty, ",".join(S.f_bits(ty, v) for v in ps) or "-", ",".join("%x" % w for w in words))
             for fam, ty, ps, words in jobs]
    outs = run_harness_parallel(ctx["binary"], lines)
    res, coq_cases, idx = [], [], []
    for n, ((fam, ty, ps, words), o) in enumerate(zip(jobs, outs)):
        r = {"line": lines[n], "out": o, "code": None, "vals": None, "slice_equal": None}
        if o.startswith("E:") or "panic" in o:
            res.append(r); continue
        fields = o.split("|")
        vals, dy, cnt = parse_vec(ty, fields[0])
        r.update(vals=vals, count=cnt)
        if len(fields) > 1:
            r["slice_equal"] = (fields[1] == fields[0])
        if cnt <= len(words) and all(d is not None for d in dy):
            if fam == "dirichlet":
                model = "(dirichlet %s [%s])" % (S.coq_ty(ty), "; ".join("(%s, %s)" % (zlit(m), zlit(e)) for m, e in
                                                                      [S.dyadic(ty, S.f_bits(ty, v)) for v in ps]))
            else:
                model = "(%s %s)" % (COQ_NAME[fam], S.coq_ty(ty))
            # Dirichlet components far below the smallest normal number (Beta's w = a*exp(v) overflows for tiny alpha, giving exactly 0):
            # judged with an absolute tolerance of one min-normal per operation instead of one min-subnormal
            fn = "mcase_eta %s (fsub %s)" % (S.coq_ty(ty), S.coq_ty(ty)) if fam == "dirichlet" else "mcase %s" % S.coq_ty(ty)
            coq_cases.append("%s %s %s [%s] %d" % (fn, model, zlist(words[:max(cnt + 8, 12)]),
                                                     "; ".join("(%s, %s)" % (zlit(m), zlit(e)) for m, e in dy), cnt))
            idx.append(n)
        res.append(r)
    codes = c01.coq_eval_codes(tag, HEADER, coq_cases, shard=60 if ctx["tier"] == "quick" else 200)
    for n, c in zip(idx, codes):
        res[n]["code"] = c
    return res
