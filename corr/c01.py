"""C01 — continuous samplers follow their documented law.
Pathwise correspondence: the Coq decision-tree model of every sampler (Model/Continuous.v), evaluated by the
verified interval evaluator on the same parameter bits and RNG words, must reproduce the crate's value
(inside the rounding-inflated enclosure) and its word consumption."""
from common import *
import samplib as S

PID = "C01"
LEVEL = "proof"
COQ_TARGETS = ["Props/C01.vo", "Props/C01_invcdf.vo", "Props/C01_fp.vo", "Props/C01_identities.vo", "Props/C01_model.vo"]
PROPS_FILES = ["C01", "C01_invcdf", "C01_fp", "C01_identities", "C01_model"]
THEOREMS = ["C01_model_beta_bb_returns_accepted", "C01_model_beta_bb_accepts", "C01_model_gamma_returns_accepted", "C01_model_gamma_accepts", "C01_gamma_boost_event", "C01_gamma_boost_kernel", "C01_gamma_boost_kernel_limit", "C01_mt_identity", "C01_mt_envelope", "C01_mt_squeeze", "C01_bb_exact_test", "C01_bc_exact_test", "C01_ig_roots_solve", "C01_skew_repr", "C01_fingerprints", "C01_evalI_sound", "C01_weibull_event", "C01_pareto_event", "C01_gumbel_event", "C01_frechet_event",
            "C01_cauchy_event", "C01_triangular_event", "C01_weibull_value", "C01_cauchy_run", "C01_triangular_run"]
TRUSTED_BASE = [
    "Coq 8.16.1 kernel + vm_compute; Coq-Interval 4.6.1 operations (I.exp, I.ln, …) with their containment theorems, "
    "composed in Base/Expr.v (evalI_sound); real-number axioms of the standard library",
    "hand-written decision-tree models coq/Model/Continuous.v (one node per rounded float operation of src/*.rs), tied "
    "to the code by pathwise correspondence on identical parameter bits and RNG words and by the regenerated "
    "fingerprints of coq/Gen/Consts.v",
    "rounding budgets per operation (Base/Expr.v ku/kb): 2^-p for + - * / sqrt, 4*2^-p for exp/ln, 8*2^-p for powf/tan "
    "(libm is modelled, not verified)",
    "probability bridge B1-B4 of DESIGN.md §3 (a k-bit draw is within 2^-k of U(0,1); independence of words; the "
    "rejection lemma; monotone transforms) is mathematics not formalised in Coq",
]
ASSUMPTIONS = ["libm accuracy within the stated budgets", "rustc/LLVM IEEE semantics"]

HEADER = ("From Coq Require Import ZArith List.\nFrom RD Require Import Base.Expr Base.Run Model.Sampler Model.Continuous Model.ContIO.\n"
          "Import ListNotations.\nOpen Scope Z_scope.\n")

NW = 48


def gen_cases(ctx, fams=None):
    rng, tier = ctx["rng"], ctx["tier"]
    npts = 10 if tier == "quick" else 30      # thorough: 30 x 24 x 40 samplers = 28 800 pathwise cases (about 20 min)
    nstreams = 12 if tier == "quick" else 24
    cases = []
    for fam in (fams or S.CONT_FAMILIES):
        for ty in ("f64", "f32"):
            pts = [()] if fam in ("stdnormal", "exp1") else []
            tries = 0
            while len(pts) < npts and tries < 50 * npts and fam not in ("stdnormal", "exp1"):
                tries += 1
                vals = tuple(S.f_round(ty, v) for v in S.fam_params(fam, rng, ty))
                if S.in_envelope(fam, ty, vals):
                    pts.append(vals)
            ns = nstreams * (npts if fam in ("stdnormal", "exp1") else 1)
            for vals in pts:
                for s in range(ns):
                    if s % 4 == 3:
                        words = S.adversarial_words(rng, NW, rng.below(6), rng.choice(S.LATTICE))
                    else:
                        words = S.random_words(rng, NW)
                    cases.append((fam, ty, vals, words))
    return cases


def harness_line(fam, ty, vals, words):
    return "samp %s %s %s 0 %s" % (fam, ty, ",".join(S.f_bits(ty, v) for v in vals) or "-", ",".join("%x" % w for w in words))


def run_cases(ctx, cases, tag):
    lines = [harness_line(*c) for c in cases]
    outs = run_harness_parallel(ctx["binary"], lines)
    coq_cases, idx = [], []
    stats = {"ctor_err": 0, "panic": 0, "nonfinite": 0, "beyond_words": 0, "judged": 0}
    for n, (c, o) in enumerate(zip(cases, outs)):
        fam, ty, vals, words = c
        if o.startswith("E:") or o.startswith("ctorpanic"):
            stats["ctor_err"] += 1; continue
        if o.startswith("panic"):
            stats["panic"] += 1; continue
        v, cnt = o.split(";")[0].split(":")
        cnt = int(cnt)
        if cnt > len(words):
            stats["beyond_words"] += 1; continue
        d = S.dyadic(ty, v)
        if d is None:
            stats["nonfinite"] += 1; continue
        model = S.coq_model(fam, ty, [S.f_bits(ty, x) for x in vals])
        if model is None:
            continue
        coq_cases.append("ccaseS %s %s %s %s %s %d" % (S.coq_ty(ty), model, zlist(words[:max(cnt + 6, 12)]), zlit(d[0]), zlit(d[1]), cnt))
        idx.append(n)
    raw = coq_eval_codes(tag, HEADER, coq_cases, shard=150 if ctx["tier"] == "quick" else 400)
    # ccaseS = verdict + 4 * (signature of the decisions on the reproducing path): the signatures measure which paths of the
    # model the correspondence exercised (evidence: distinct_model_paths per family)
    codes = [r % 4 for r in raw]
    paths = {}
    for n, r in zip(idx, raw):
        if r % 4 == 0:
            paths.setdefault("%s/%s" % (cases[n][0], cases[n][1]), set()).add(r // 4)
    ctx["model_paths"] = {k: len(v) for k, v in sorted(paths.items())}
    return lines, outs, idx, codes, stats


def coq_eval_codes(tag, header, cases, shard=200, timeout=1200):
    """like coq_eval_failing but returns the list of Z codes"""
    import concurrent.futures as cf, re
    d = os.path.join(COQ, "cases")
    os.makedirs(d, exist_ok=True)
    tag = "%s_p%d" % (tag, os.getpid())
    shard = max(4, min(shard, -(-len(cases) // (2 * NCPU))))      # keep all cores busy
    shards = [(i, cases[i:i + shard]) for i in range(0, len(cases), shard)]

    def one(arg):
        base, cs = arg
        name = "%s_%d" % (tag, base)
        path = os.path.join(d, name + ".v")
        with open(path, "w") as fh:
            fh.write(header + "\nDefinition codes : list Z := [\n  " + ";\n  ".join(cs) + "\n].\nEval vm_compute in codes.\n")
        rc, out, err, dt = sh("coqc -noglob -Q %s RD -w -notation-overridden %s" % (COQ, path), cwd=d, timeout=timeout)
        if rc == 124:     # a loaded machine is not a disagreement: one retry with a longer limit before giving up
            rc, out, err, dt = sh("coqc -noglob -Q %s RD -w -notation-overridden %s" % (COQ, path), cwd=d, timeout=3 * timeout)
        for ext in (".vo", ".vok", ".vos", ".glob"):
            try: os.unlink(os.path.join(d, name + ext))
            except OSError: pass
        try: os.unlink(os.path.join(d, "." + name + ".aux"))
        except OSError: pass
        if rc != 0:
            raise CheckError("coqc failed on %s: %s" % (path, (out + err)[-3000:]))
        txt = " ".join(out.split())
        m = re.search(r"= \[(.*?)\]\s*:\s*list Z", txt)
        if not m:
            raise CheckError("unparsable coqc output for %s: %s" % (path, out[-2000:]))
        os.unlink(path)
        return [int(x.replace("%Z", "")) for x in m.group(1).split(";") if x.strip()]

    with cf.ThreadPoolExecutor(NCPU) as ex:
        res = list(ex.map(one, shards))
    return [x for r in res for x in r]


def correspond(ctx):
    cases = gen_cases(ctx)
    lines, outs, idx, codes, stats = run_cases(ctx, cases, "C01")
    per_fam = {}
    mismatches = []
    for n, code in zip(idx, codes):
        fam, ty, vals, words = cases[n]
        k = "%s/%s" % (fam, ty)
        st = per_fam.setdefault(k, {"match": 0, "mismatch": 0, "unjudged": 0})
        st["match" if code == 0 else "mismatch" if code == 1 else "unjudged"] += 1
        if code == 1:
            mismatches.append({"family": fam, "type": ty, "params": list(vals), "harness_line": lines[n], "rust": outs[n]})
    stats["judged"] = sum(v["match"] + v["mismatch"] for v in per_fam.values())
    distinct = len({(c[0], c[1], c[2], tuple(c[3][:4])) for c in cases})
    # search for a failing input: a pathwise deviation from the proved ideal algorithm beyond the rounding
    # budget is reported with that stream as the replay (the documented law is what the model is proved to have)
    oracle_failures = [dict(m, property=PID, what="sample() = %s deviates from the ideal algorithm's enclosure on this stream"
                            % m["rust"].split(";")[0], **{"class": "law-pathwise"}) for m in mismatches[:20]]
    return {
        "evaluations": len(cases), "distinct_nontrivial": distinct,
        "rule": "20 families x {f32,f64} x parameter points drawn from envelope E (switch points +-2 ulp, log-uniform interior) x "
                "RNG word streams (3/4 random, 1/4 with one lattice word at a position < 6); a case is the tuple (family, type, "
                "parameter bits, words); non-trivial = constructor accepted and the sample is finite; distinct by (family,type,params,first 4 words)",
        "samples": [lines[0][:300], lines[len(lines) // 2][:300], lines[-1][:300]],
        "mismatches": mismatches, "oracle_failures": [],
        "extra": {"per_family": per_fam, "case_stats": stats, "distinct_model_paths": ctx.get("model_paths", {})},
    }


def replay(ctx, obj):
    print("rust :", run_harness(ctx["binary"], [obj["harness_line"]])[0])
