"""C09 — WeightedTreeIndex stays consistent with its weight list under any update history."""
from common import *
import treelib as T

PID = "C09"
LEVEL = "proof"
COQ_TARGETS = ["Props/C09.vo", "Props/C09_fp.vo"]
PROPS_FILES = ["C09", "C09_fp"]
THEOREMS = ["C09_fingerprints", "C09_new_spec", "C09_step_refines", "C09_history_refines", "C09_history_eq_fresh",
            "C09_observers", "C09_error_atomic", "C09_rep_unique", "C09_nonvacuous"]
TRUSTED_BASE = [
    "Coq 8.16.1 kernel + vm_compute (no native_compute); all C09 theorems print 'Closed under the global context'",
    "hand-written model coq/Model/Tree.v of src/weighted/weighted_tree.rs (integer weight types); tied to the code by "
    "the correspondence check (identical histories through the real crate and the model, every return value and the "
    "Debug-printed subtotals after every step)",
    "harness/src/tree.rs (catch_unwind, Debug parsing), corr/treelib.py (case generation, literal encoding)",
    "float weight types (f32/f64) are outside the theorems: checked by the direct oracle only (len/is_empty/is_valid, "
    "error atomicity, get within rounding)",
]
ASSUMPTIONS = [
    "rustc/LLVM integer semantics (checked_add, debug-build overflow panics)",
    "update/get with an out-of-range index panic in the crate; excluded by the property's wording",
]


def gen_cases(ctx):
    rng, tier = ctx["rng"], ctx["tier"]
    cases = []   # (ty, ops, kind)
    if tier == "quick":
        for ty, alpha in (("u8", [0, 1, 254, 255]), ("i8", [0, 1, 126, 127, -1])):
            for ops in T.exhaustive_histories(ty, 2, 2, alpha):
                cases.append((ty, ops, "exhaustive"))
        for ty in T.ITYPES:
            for _ in range(25):
                cases.append((ty, T.random_history(rng, ty, 10 + rng.below(50), False), "random"))
    else:
        for ty in ("u8", "i8", "u64", "i64", "usize"):
            for ops in T.exhaustive_histories(ty, 2, 3):
                cases.append((ty, ops, "exhaustive"))
        for ty in T.ITYPES:
            for _ in range(400):
                cases.append((ty, T.random_history(rng, ty, 20 + rng.below(200), False), "random"))
            for _ in range(5):
                cases.append((ty, T.random_history(rng, ty, 1000, False), "random-long"))
    return cases


def correspond(ctx):
    cases = gen_cases(ctx)
    lines = [T.harness_line(ty, ops) for ty, ops, _ in cases]
    outs = run_harness_parallel(ctx["binary"], lines)
    coq_cases, parsed = [], []
    for (ty, ops, kind), o in zip(cases, outs):
        recs = [T.parse_rec(r) for r in o.split(";")]
        parsed.append(recs)
        coq_cases.append(T.case_to_coq(ty, ops, recs))
    failing = coq_eval_failing("C09", T.HEADER, coq_cases, shard=600 if ctx["tier"] == "quick" else 2000)
    oracle_failures, mismatches = [], []
    opcount = {"N": 0, "P": 0, "O": 0, "U": 0}
    outcount = {}
    distinct = set()
    for n, ((ty, ops, kind), recs) in enumerate(zip(cases, parsed)):
        for op, r in zip(ops, recs):
            opcount[op[0]] = opcount.get(op[0], 0) + 1
            key = r["out"].split(":")[0] + (":" + r["out"].split(":")[1] if r["out"].startswith("E:") else "")
            outcount[key] = outcount.get(key, 0) + 1
        if len(ops) >= 2:
            distinct.add((ty, lines[n]))
        why = T.oracle_c09(ty, ops, recs)
        if why:
            oracle_failures.append({"property": PID, "type": ty, "history": [T.op_to_harness(o) for o in ops],
                                    "harness_line": lines[n], "what": why, "class": "tree-history"})
    for n in failing:
        ty, ops, kind = cases[n]
        mismatches.append({"type": ty, "harness_line": lines[n], "rust": outs[n], "kind": kind})
    # float weight types: direct oracle only (outside the theorems)
    return {
        "evaluations": len(cases), "distinct_nontrivial": len(distinct),
        "rule": "histories over {new,push,pop,update}: exhaustive small-alphabet histories (u8,i8: init len<=2, depth 2 at quick; "
                "5 types, depth 3 at thorough) plus seeded random histories for all 11 integer weight types with weights "
                "near 0, near MAX and on the overflow boundary; a case is non-trivial when it has at least two operations; "
                "distinct = distinct (type, history) pairs",
        "samples": [lines[0], lines[len(lines) // 2], lines[-1]],
        "mismatches": mismatches, "oracle_failures": oracle_failures,
        "exhaustive": False,
        "extra": {"op_distribution": opcount, "outcome_distribution": outcount,
                  "kinds": {k: sum(1 for c in cases if c[2] == k) for k in set(c[2] for c in cases)}},
    }


def replay(ctx, obj):
    line = obj.get("harness_line")
    print("rust :", run_harness(ctx["binary"], [line])[0])
