"""C09 — WeightedTreeIndex stays consistent with its weight list under any update history."""
from common import *
import treelib as T

PID = "C09"
LEVEL = "proof"
COQ_TARGETS = ["Props/C09.vo", "Props/C09_fp.vo"]
PROPS_FILES = ["C09", "C09_fp"]
THEOREMS = ["C09_fingerprints", "C09_new_spec", "C09_step_refines", "C09_history_refines", "C09_history_eq_fresh",
            "C09_observers", "C09_error_atomic", "C09_rep_unique", "C09_nonvacuous"]
TRUSTED_BASE = [
    "Coq 8.16.1 kernel + vm_compute (no native_compute); all C09 theorems print 'Closed under the global context'",
    "hand-written model coq/Model/Tree.v of src/weighted/weighted_tree.rs (integer weight types); tied to the code by "
    "the correspondence check (identical histories through the real crate and the model, every return value and the "
    "Debug-printed subtotals after every step)",
    "harness/src/tree.rs (catch_unwind, Debug parsing), corr/treelib.py (case generation, literal encoding)",
    "float weight types (f32/f64) are outside the theorems: checked by the direct oracle only (len/is_empty/is_valid, "
    "error atomicity, get within rounding)",
]
ASSUMPTIONS = [
    "rustc/LLVM integer semantics (checked_add, debug-build overflow panics)",
    "update/get with an out-of-range index panic in the crate; excluded by the property's wording",
]


def gen_cases(ctx):
    rng, tier = ctx["rng"], ctx["tier"]
    cases = []   # (ty, ops, kind)
    if tier == "quick":
        for ty, alpha in (("u8", [0, 1, 254, 255]), ("i8", [0, 1, 126, 127, -1])):
            for ops in T.exhaustive_histories(ty, 2, 2, alpha):
                cases.append((ty, ops, "exhaustive"))
        for ty in T.ITYPES:
            for _ in range(25):
                cases.append((ty, T.random_history(rng, ty, 10 + rng.below(50), False), "random"))
    else:
        for ty in ("u8", "i8", "u64", "i64", "usize"):
            for ops in T.exhaustive_histories(ty, 2, 3):
                cases.append((ty, ops, "exhaustive"))
        for ty in T.ITYPES:
            for _ in range(400):
                cases.append((ty, T.random_history(rng, ty, 20 + rng.below(200), False), "random"))
            for _ in range(5):
                cases.append((ty, T.random_history(rng, ty, 1000, False), "random-long"))
    return cases


def correspond(ctx):
    cases = gen_cases(ctx)
    lines = [T.harness_line(ty, ops) for ty, ops, _ in cases]
    outs = run_harness_parallel(ctx["binary"], lines)
    coq_cases, parsed = [], []
    for (ty, ops, kind), o in zip(cases, outs):
        recs = [T.parse_rec(r) for r in o.split(";")]
        parsed.append(recs)
        coq_cases.append(T.case_to_coq(ty, ops, recs))
    failing = coq_eval_failing("C09", T.HEADER, coq_cases, shard=600 if ctx["tier"] == "quick" else 1000)
    oracle_failures, mismatches = [], []
    opcount = {"N": 0, "P": 0, "O": 0, "U": 0}
    outcount = {}
    distinct = set()
    for n, ((ty, ops, kind), recs) in enumerate(zip(cases, parsed)):
        for op, r in zip(ops, recs):
            opcount[op[0]] = opcount.get(op[0], 0) + 1
            key = r["out"].split(":")[0] + (":" + r["out"].split(":")[1] if r["out"].startswith("E:") else "")
            outcount[key] = outcount.get(key, 0) + 1
        if len(ops) >= 2:
            distinct.add((ty, lines[n]))
        why = T.oracle_c09(ty, ops, recs)
        if why:
            oracle_failures.append({"property": PID, "type": ty, "history": [T.op_to_harness(o) for o in ops],
                                    "harness_line": lines[n], "what": why, "class": "tree-history"})
    for n in failing:
        ty, ops, kind = cases[n]
        mismatches.append({"type": ty, "harness_line": lines[n], "rust": outs[n], "kind": kind})
    # float weight types: direct oracle only (outside the theorems).  Weights are multiples of 1/8 below 2^10, so every sum is exact in
    # f32 and f64 and the integer weight-list spec applies to the values scaled by 8; NaN and negative weights must be refused by
    # new / push / update with InvalidWeight and leave the value unchanged
    fl_lines, fl_cases = float_histories(ctx)
    fl_outs = run_harness_parallel(ctx["binary"], fl_lines)
    for line, (ty, ops), o in zip(fl_lines, fl_cases, fl_outs):
        why = float_oracle(ty, ops, o)
        if why:
            oracle_failures.append({"property": PID, "type": ty, "harness_line": line, "what": why, "class": "tree-history-float"})
    return {
        "evaluations": len(cases), "distinct_nontrivial": len(distinct),
        "rule": "histories over {new,push,pop,update}: exhaustive small-alphabet histories (u8,i8: init len<=2, depth 2 at quick; "
                "5 types, depth 3 at thorough) plus seeded random histories for all 11 integer weight types with weights "
                "near 0, near MAX and on the overflow boundary; float trees (f32/f64) over exactly representable weights with NaN / negative "
                "pushes, updates and rebuilds through the direct oracle; a case is non-trivial when it has at least two operations; "
                "distinct = distinct (type, history) pairs",
        "samples": [lines[0], lines[len(lines) // 2], lines[-1]],
        "mismatches": mismatches, "oracle_failures": oracle_failures,
        "exhaustive": False,
        "extra": {"op_distribution": opcount, "outcome_distribution": outcount,
                  "kinds": {k: sum(1 for c in cases if c[2] == k) for k in set(c[2] for c in cases)}},
    }


FBAD = {"nan": {"f32": "x7fc00000", "f64": "x7ff8000000000000"}, "nnan": {"f32": "xffc00000", "f64": "xfff8000000000000"}}


def fhex(ty, v):
    import struct
    if isinstance(v, str): return FBAD[v][ty]
    return ("x%08x" % struct.unpack("<I", struct.pack("<f", v / 8.0))[0]) if ty == "f32" else ("x%016x" % struct.unpack("<Q", struct.pack("<d", v / 8.0))[0])


def float_histories(ctx):
    """histories over float trees; a weight is an int k (meaning k/8), a negative int, or 'nan'/'nnan'"""
    rng, tier = ctx["rng"], ctx["tier"]
    cases = []
    def rw():
        c = rng.below(100)
        if c < 12: return "nan" if c < 8 else "nnan"
        if c < 22: return -1 - rng.below(40)
        if c < 35: return 0
        return rng.below(8000)
    for k in range(300 if tier == "quick" else 6000):
        ty = "f32" if k % 2 else "f64"
        n0 = rng.below(6)
        ops = [("N", [rng.below(800) if rng.below(10) else 0 for _ in range(n0)])]
        ln = n0
        for _ in range(3 + rng.below(14)):
            c = rng.below(100)
            if c < 35:
                w = rw(); ops.append(("P", w))
                if not isinstance(w, str) and w >= 0: ln += 1
            elif c < 50:
                ops.append(("O",)); ln = max(0, ln - 1)
            elif c < 90 and ln > 0:
                ops.append(("U", rng.below(ln), rw()))
            else:
                ws = [rw() for _ in range(rng.below(5))]
                ops.append(("N", ws))
                if all(not isinstance(w, str) and w >= 0 for w in ws): ln = len(ws)
        cases.append((ty, ops))
    lines = []
    for ty, ops in cases:
        toks = []
        for op in ops:
            if op[0] == "N": toks.append("N:" + (",".join(fhex(ty, w) for w in op[1]) or "-"))
            elif op[0] == "P": toks.append("P:" + fhex(ty, op[1]))
            elif op[0] == "O": toks.append("O")
            else: toks.append("U:%d:%s" % (op[1], fhex(ty, op[2])))
        lines.append("tree %s 0 %s" % (ty, " ".join(toks)))
    return lines, cases


def float_oracle(ty, ops, out):
    import struct
    def val8(h):
        x = struct.unpack("<f", struct.pack("<I", int(h[1:], 16)))[0] if ty == "f32" else struct.unpack("<d", struct.pack("<Q", int(h[1:], 16)))[0]
        return None if x != x else x * 8.0
    cur = []
    for n, (op, rec) in enumerate(zip(ops, out.split(";"))):
        res, st, subs, gets, eqf = rec.split("|")
        bad = lambda w: isinstance(w, str) or w < 0
        if op[0] == "N":
            exp = "E:InvalidWeight" if any(bad(w) for w in op[1]) else "ok"
            if exp == "ok": cur = list(op[1])
        elif op[0] == "P":
            exp = "E:InvalidWeight" if bad(op[1]) else "ok"
            if exp == "ok": cur.append(op[1])
        elif op[0] == "O":
            exp = ("some:" + fhex(ty, cur[-1])) if cur else "none"
            if cur: cur.pop()
        else:
            exp = "E:InvalidWeight" if bad(op[2]) else "ok"
            if exp == "ok": cur[op[1]] = op[2]
        what = "step %d %s" % (n, op)
        if res != exp:
            return "%s on a float tree returned %s, the weight list says %s" % (what, res, exp)
        ln, em, va = st.split(",")
        if int(ln) != len(cur) or (em == "1") != (not cur) or (va == "1") != (sum(cur) > 0):
            return "%s: len/is_empty/is_valid = %s for the weight list %s (in eighths)" % (what, st, cur)
        if gets == "getPanic":
            return "%s: get(i) panicked for an in-range index" % what
        g = [] if gets == "[]" else [val8(h) for h in gets[1:-1].split(",")]
        if g != [float(w) for w in cur]:
            return "%s: get() list %s differs from the weight list %s (both in eighths; all sums are exact)" % (what, g, cur)
        if eqf != "eq":
            return "%s: value != WeightedTreeIndex::new(list) (%s)" % (what, eqf)
    return None


def replay(ctx, obj):
    line = obj.get("harness_line")
    print("rust :", run_harness(ctx["binary"], [line])[0])
