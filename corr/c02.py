"""C02 — discrete samplers follow their documented probability mass function."""
import math
from fractions import Fraction
from common import *
import samplib as S
import c01, c03

PID = "C02"
LEVEL = "proof"
COQ_TARGETS = ["Props/C02.vo", "Props/C02_identities.vo", "Props/C02_ratio.vo", "Props/C02_fp.vo", "Props/C02_model.vo"]
PROPS_FILES = ["C02", "C02_identities", "C02_ratio", "C02_fp", "C02_model"]
THEOREMS = ["C02_model_zipf_event", "C02_model_zeta_event", "C02_model_geo_d_event", "C02_model_geo_trivial_event", "C02_model_binv_event", "C02_model_binv_cell_pmf", "C02_model_knuth_event", "C02_model_hin_event", "C02_fingerprints", "C02_binv_recurrence", "C02_binv_sampler_event", "C02_binomial_flip", "C02_geometric_split", "C02_std_geometric_form",
            "C02_hyper_reflect_bijection", "C02_hyper_reflect_pmf", "C02_hin_recurrence", "C02_zeta_identity", "C02_zeta_accept_le_1",
            "C02_zipf_accept_mass", "C02_knuth_form", "C02_fingerprints",
            "C02_btpe_exact_ratio", "C02_btpe_accept_iff", "C02_btpe_f51_exact_ratio", "C02_h2pe_exact_ratio", "C02_h2pe_accept_iff",
            "C02_h2pe_f41_exact_ratio"]
TRUSTED_BASE = [
    "Coq 8.16.1 kernel, stdlib real axioms (+ Coquelicot for two Zipf integrals): Props/C02_identities.v proves for ALL parameters the identities "
    "that make the ideal algorithms correct: BINV recurrence = binomial pmf and its inversion event, the p>0.5 flip, the geometric block "
    "decomposition and leading-zero counts, both hypergeometric symmetries and the bijection of the affine reflection onto the support incl. the "
    "integer tie rule, HIN recurrence and start values, Zeta proposal mass x acceptance = C x^-s with acceptance <= 1, Zipf hat/inverse/acceptance "
    "mass, Knuth's product form; BTPE step 5.1 and H2PE step 4.1 compute the exact pmf ratio pmf(y)/pmf(m) and their acceptance tests are "
    "v*pmf(m) <= pmf(y) (Props/C02_ratio.v, both for the real-number loops and for the terms btpe_f51 / h2pe_f41 of the executable model)",
    "Props/C02_model.v (Proofs/PmfModelEvents.v): the inversion events are proved ON THE EXECUTABLE MODELS themselves (the trees run against the "
    "crate), not only for the abstract real-number loops: BINV returns Some x exactly when u0 lies in the x-th cell of the binomial cdf (None = "
    "restart only beyond 111 cells), HIN returns z exactly on the z-th cell of the hypergeometric cdf, Knuth returns k after exactly k+1 words with "
    "the first k partial products above exp(-lambda) and the next one not; the two counting loops of Geometric; Zeta returns x only for a proposal "
    "floor(u^(-1/(s-1))) accepted with v <= zeta_accept (s-1) x",
    "NOT proved: that the BTPE / H2PE / PD hats dominate their targets and their Stirling squeezes (the papers' lemmas); for those parts the "
    "samplers are tied to the code pathwise only",
    "hand models coq/Model/Discrete.v of all seven samplers incl. constructors (BINV, BTPE regions 1-4 and 5.0-5.3, Knuth, Ahrens-Dieter PD, "
    "geometric split, HIN, H2PE, Zipf, Zeta), tied to the code by pathwise correspondence: same integer and same number of words on identical "
    "parameters and RNG words, on exhaustive small parameter sets and grids on both sides of every method switch; regenerated fingerprints",
    "known finding F10 (Zeta s = 1.05 loses precision for proposals above 2^53) is a property of the float program, visible as not-judged cases",
]
ASSUMPTIONS = ["B1-B4 of DESIGN.md §3", "libm within the per-operation budgets"]

HEADER = ("From Coq Require Import ZArith List.\nFrom RD Require Import Base.Expr Base.Run Model.Sampler Model.Continuous Model.Discrete Model.ContIO.\n"
          "Import ListNotations.\nOpen Scope Z_scope.\n")
NW = 40


def dy(ty, v):
    m, e = S.dyadic(ty, S.f_bits(ty, v))
    return "(%s, %s)" % (zlit(m), zlit(e))


def gen_points(ctx):
    rng, tier = ctx["rng"], ctx["tier"]
    L = S.logu
    pts = []   # (family, ty, harness params, coq model)
    def binom(n, p):
        pts.append(("binomial", "u64", [str(n), S.f_bits("f64", p)], "(binomial %d %s)" % (n, dy("f64", p))))
    def hyper(N, K, n):
        pts.append(("hypergeometric", "u64", [str(N), str(K), str(n)], "(hypergeometric %d %d %d)" % (N, K, n)))
    # exhaustive small sets
    nmax = 8 if tier == "quick" else 30
    for n in range(0, nmax + 1):
        for p in ([0.0, 0.1, 0.5, 0.9, 1.0] if tier == "quick" else [0.0, 1e-3, 0.05, 0.1, 0.25, 0.4, 0.5, 0.6, 0.75, 0.9, 0.999, 1.0]):
            binom(n, p)
    Nmax = 9 if tier == "quick" else 14
    for N in range(0, Nmax + 1):
        for K in range(0, N + 1):
            for n in range(0, N + 1):
                if tier == "quick" and (N + K + n) % 3: continue
                hyper(N, K, n)
    # grids on both sides of the switches
    k = 30 if tier == "quick" else 120
    for _ in range(k):
        n = rng.choice([rng.below(200), rng.below(10**5), rng.below(10**9), 2**40 + rng.below(1000)])
        p = rng.choice([L(rng, 1e-6, 1.0), 0.5, S.nextafter("f64", 0.5, True), min(1.0, 10.0 / max(n, 1) * rng.choice([0.9, 0.999, 1.001, 1.1])), 1e-20])
        binom(n, min(max(p, 0.0), 1.0))
        N = rng.choice([50 + rng.below(200), 1000 + rng.below(10**5)])
        hyper(N, rng.below(N + 1), rng.below(N + 1))
        for ty in ("f64", "f32"):
            lam = S.f_round(ty, rng.choice([L(rng, 1e-3, 12), S.nextafter(ty, 12.0, False), 12.0, S.nextafter(ty, 12.0, True), L(rng, 12, 1e4),
                                            L(rng, 1e4, 1e15 if ty == "f64" else 1e6)]))
            pts.append(("poisson", ty, [S.f_bits(ty, lam)], "(poisson %s %s)" % (S.coq_ty(ty), dy(ty, lam))))
            s = S.f_round(ty, rng.choice([L(rng, 1.05, 30.0), 2.0, 1.5]))
            pts.append(("zeta", ty, [S.f_bits(ty, s)], "(zeta %s %s)" % (S.coq_ty(ty), dy(ty, s))))
            nz = S.f_round(ty, float(rng.choice([1, 2, 10, 1000, int(L(rng, 1, 1e6))])))
            sz = S.f_round(ty, rng.choice([0.0, 0.5, 1.0, 2.0, L(rng, 0.01, 10.0)]))
            pts.append(("zipf", ty, [S.f_bits(ty, nz), S.f_bits(ty, sz)], "(zipf %s %s %s)" % (S.coq_ty(ty), dy(ty, nz), dy(ty, sz))))
        pg = rng.choice([L(rng, 1e-9, 1.0), 2.0 / 3.0, S.nextafter("f64", 2.0 / 3.0, False), 0.5, 1.0, 0.0, 2.0 ** -53, 2.0 ** -54])
        pts.append(("geometric", "u64", [S.f_bits("f64", pg)], "(geometric %s)" % dy("f64", pg)))
    # tiny p: the power-of-two split has k >= 32 and the low part m no longer fits an i32
    for pg in [1e-10, 2e-10, 3e-10, 5e-11, 1e-11, 1e-12, 4e-10] + ([L(rng, 1e-12, 4e-10) for _ in range(40)] if tier != "quick" else []):
        for _ in range(4):
            pts.append(("geometric", "u64", [S.f_bits("f64", pg)], "(geometric %s)" % dy("f64", pg)))
    pts.append(("stdgeometric", "u64", [], "std_geometric"))
    return pts


def correspond(ctx):
    rng, tier = ctx["rng"], ctx["tier"]
    pts = gen_points(ctx)
    nstreams = 3 if tier == "quick" else 6
    cases = []
    for fam, ty, hp, model in pts:
        for s in range(nstreams if fam != "stdgeometric" else 200):
            words = S.adversarial_words(rng, NW, rng.below(4), rng.choice(S.LATTICE)) if s % 3 == 2 else S.random_words(rng, NW)
            cases.append((fam, ty, hp, model, words))
    lines = ["samp %s %s %s 0 %s" % (fam, ty, ",".join(hp) or "-", ",".join("%x" % w for w in words)) for fam, ty, hp, model, words in cases]
    outs = run_harness_guarded_parallel(ctx["binary"], lines, batch_timeout=300, line_timeout=8, chunk=400)
    coq_cases, idx = [], []
    stats = {"ctor_err": 0, "beyond_words": 0, "nonfinite": 0, "hang": 0}
    for n, ((fam, ty, hp, model, words), o) in enumerate(zip(cases, outs)):
        if o.startswith("E:") or o.startswith("ctorpanic"):
            stats["ctor_err"] += 1; continue
        if o == "HANG" or o.startswith("CRASH") or o.startswith("panic"):
            stats["hang"] += 1; continue
        v, cnt = o.split(";")[0].split(":")
        cnt = int(cnt)
        if cnt > len(words):
            stats["beyond_words"] += 1; continue
        if v.startswith("x"):
            x = S.bits_val(ty, v)
            if not math.isfinite(x):
                stats["nonfinite"] += 1; continue
            v = int(x)
        else:
            v = int(v)
        coq_cases.append("icaseS %s %s %s %d %d" % (S.coq_ty(ty) if ty != "u64" else "F64", model, zlist(words[:max(cnt + 6, 10)]), v, cnt))
        idx.append(n)
    raw = c01.coq_eval_codes("C02", HEADER, coq_cases, shard=120)
    codes = [r % 4 for r in raw]        # icaseS = verdict + 4 * signature of the decisions on the reproducing path
    paths = {}
    for n, r in zip(idx, raw):
        if r % 4 == 0:
            paths.setdefault("%s/%s" % (cases[n][0], cases[n][1]), set()).add(r // 4)
    model_paths = {k: len(v) for k, v in sorted(paths.items())}
    per, mismatches = {}, []
    for n, code in zip(idx, codes):
        fam, ty = cases[n][0], cases[n][1]
        st = per.setdefault("%s/%s" % (fam, ty), {"match": 0, "mismatch": 0, "unjudged": 0})
        st["match" if code == 0 else "mismatch" if code == 1 else "unjudged"] += 1
        if code == 1:
            mismatches.append({"family": fam, "type": ty, "params": cases[n][2], "harness_line": lines[n][:500], "rust": outs[n]})
    # direct oracle, exact and independent of the model: support of the exhaustive small sets
    oracle_failures = []
    for (fam, ty, hp, model, words), o, line in zip(cases, outs, lines):
        if ":" not in o or o.startswith("E:"): continue
        v = o.split(";")[0].split(":")[0]
        if fam == "binomial" and int(v) > int(hp[0]):
            oracle_failures.append({"property": PID, "class": "support", "harness_line": line[:300], "what": "Binomial(%s,…) returned %s" % (hp[0], v)})
        if fam == "hypergeometric":
            N, K, nn = map(int, hp)
            if not (max(0, nn + K - N) <= int(v) <= min(nn, K)):
                oracle_failures.append({"property": PID, "class": "support", "harness_line": line[:300],
                                        "what": "Hypergeometric(%d,%d,%d) returned %s outside [%d,%d]" % (N, K, nn, v, max(0, nn + K - N), min(nn, K))})
    return {
        "evaluations": len(cases), "distinct_nontrivial": len({(c[0], c[1], tuple(c[2]), tuple(c[4][:3])) for c in cases}),
        "rule": "exhaustive small parameter sets (Binomial n <= %d x p-grid; Hypergeometric all (N,K,n) with N <= %d%s) plus seeded grids on both "
                "sides of every method switch (np around 10, p around 1/2, lambda around 12, p around 2/3 and tiny p, HIN/H2PE with all four reflections, "
                "Zipf s = 1, < 1, > 1, n = 1) x word streams (random and single-word adversarial): same integer and same word count as the Coq model"
                % (8 if tier == "quick" else 30, 9 if tier == "quick" else 14, " (one third at quick tier)" if tier == "quick" else ""),
        "samples": [lines[0][:200], lines[len(lines) // 2][:200], lines[-1][:200]],
        "mismatches": mismatches, "oracle_failures": oracle_failures,
        "extra": {"per_family": per, "case_stats": stats, "parameter_points": len(pts), "distinct_model_paths": model_paths},
    }


def replay(ctx, obj):
    print("rust :", run_harness_guarded(ctx["binary"], [obj["harness_line"]], line_timeout=20)[0])
