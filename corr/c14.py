"""C14 — sampling is a pure function of distribution value and RNG stream."""
from common import *
import samplib as S
import c03

PID = "C14"
LEVEL = "proof"
COQ_TARGETS = ["Props/C14.vo", "Props/C14_gen.vo", "Props/C14_fp.vo"]
PROPS_FILES = ["C14", "C14_gen", "C14_fp"]
THEOREMS = ["C14_fingerprints", "C14_sample_deterministic", "C14_sample_leaves_dist", "C14_clone_same_sequence", "C14_rebuild_same_sequence",
            "C14_interleaving_independent", "C14_iter_eq_repeat", "C14_stream_position", "C14_purity_ok", "C14_samplers_listed"]
TRUSTED_BASE = [
    "Coq 8.16.1 kernel; Model/Pure.v theorems (closed under the global context) hold for EVERY program of type "
    "D -> list word -> option (O * list word): determinism, clone/rebuild give the same sequence, interleaving independence, "
    "sample_iter = repeated sample, stream position; what matters is whether the Rust code is such a program — that is the tie:",
    "(a) tools/rs2coq.py regenerates coq/Gen/Sigs.v on every run: every sample/try_sample/sample_to_slice takes &self, "
    "#![forbid(unsafe_code)] is present, no token naming interior mutability or global state (Cell, RefCell, Atomic*, Mutex, OnceCell, "
    "LazyLock, thread_local, static mut, Rc/Arc, unsafe) occurs in src/; C14_purity_ok is re-proved by vm_compute on the regenerated file; "
    "under Rust's aliasing rules (trusted) a safe function over &self and &mut R without such types cannot retain state",
    "(b) differential histories on the real crate: random interleavings of sample / sample_iter / clone / rebuild over several objects and "
    "several streams; the outputs must equal those of the projected history per stream, those of freshly constructed objects, and Debug "
    "before = after",
]
ASSUMPTIONS = ["Rust's aliasing guarantee for safe code", "the token list of interior-mutability types is complete for this crate's dependencies"]

DISC = {"binomial": "u64", "geometric": "u64", "stdgeometric": "u64", "hypergeometric": "u64"}


def weighted_spec(rng):
    """a weighted index distribution (they implement Distribution<usize> too): alias table or tree over integer / float weights"""
    import struct
    fam = rng.choice(["walias", "wtree"])
    ty = rng.choice(["f32", "f64", "f64", "f32", "u8", "u32", "u64", "i32"])
    n = 1 + rng.below(9)
    if ty == "f64":
        ws = ["x%016x" % struct.unpack("<Q", struct.pack("<d", (rng.below(1 << 53) + 1) / float(1 << 53) * (1 + rng.below(7))))[0] for _ in range(n)]
    elif ty == "f32":
        ws = ["x%08x" % struct.unpack("<I", struct.pack("<f", (rng.below(1 << 24) + 1) / float(1 << 24) * (1 + rng.below(7))))[0] for _ in range(n)]
    else:
        cap = {"u8": 255, "u32": 2**32 - 1, "u64": 2**64 - 1, "i32": 2**31 - 1}[ty] // n
        ws = [str(rng.below(min(cap, 1000) + 1)) for _ in range(n)]
        if all(w == "0" for w in ws): ws[0] = "1"
    return "%s:%s:%s" % (fam, ty, ",".join(ws))


def rand_spec(rng):
    if rng.chance(1, 6):
        return weighted_spec(rng)
    fam = rng.choice(S.CONT_FAMILIES + c03.DISC)
    if fam in S.CONT_FAMILIES:
        ty = rng.choice(["f64", "f32"])
        for _ in range(100):
            vals = tuple(S.f_round(ty, v) for v in S.fam_params(fam, rng, ty))
            if S.in_envelope(fam, ty, vals):
                return "%s:%s:%s" % (fam, ty, ",".join(S.f_bits(ty, v) for v in vals) or "-")
    ty = rng.choice(["f64", "f32"])
    t, ps = c03.disc_params(fam, rng, ty, 0)
    if fam == "binomial" and int(ps[0]) > 2**40: ps[0] = str(int(ps[0]) % 2**40)
    return "%s:%s:%s" % (fam, t, ",".join(ps) or "-")


def gen_history(rng, nobj, nops):
    ops = []
    n = nobj
    for k in range(n):
        ops.append("D%d" % k)
    for _ in range(nops):
        c = rng.below(100)
        if c < 60: ops.append("S%d:%d" % (rng.below(n), rng.below(3)))
        elif c < 75: ops.append("I%d:%d:%d" % (rng.below(n), rng.below(3), 1 + rng.below(5)))
        elif c < 83 and n < 9: ops.append("C%d" % rng.below(n)); n += 1
        elif c < 91 and n < 9: ops.append("B%d" % rng.below(n)); n += 1
        elif c < 95 and n < 9: ops.append("F%d:%d" % (rng.below(n), rng.below(n))); n += 1     # clone_from (plain clone if the types differ)
        else: ops.append("D%d" % rng.below(n))
    for k in range(n):
        ops.append("D%d" % k)      # every object, clones and rebuilds included
    # PartialEq: every object still equals itself after sampling, and every clone / rebuild / clone_from equals its source
    nxt, src = nobj, {}
    for op in list(ops):
        if op[0] in "CB": src[nxt] = int(op[1:]); nxt += 1
        elif op[0] == "F": src[nxt] = int(op[1:].split(":")[1]); nxt += 1
    for k in range(n):
        ops.append("E%d:%d" % (k, k))
    for k, k0 in src.items():
        ops.append("E%d:%d" % (k, k0))
    return ops


def stream_of(op):
    if op[0] in "SI": return int(op[1:].split(":")[1])
    return None


def expand_iter(ops):
    out = []
    for op in ops:
        if op[0] == "I":
            k, r, n = op[1:].split(":")
            out += ["S%s:%s" % (k, r)] * int(n)
        else:
            out.append(op)
    return out


def correspond(ctx):
    rng, tier = ctx["rng"], ctx["tier"]
    nh = 150 if tier == "quick" else 3000
    hist = []
    for _ in range(nh):
        nobj = 1 + rng.below(4)
        specs = ";".join(rand_spec(rng) for _ in range(nobj))
        hist.append((rng.u64(), specs, nobj, gen_history(rng, nobj, 10 + rng.below(40))))
    # long single-object runs: state hidden behind a counter / cache needs many calls to show
    for fam in S.CONT_FAMILIES + c03.DISC:
        for _ in range(1 if tier == "quick" else 4):
            for attempt in range(50):
                sp = rand_spec(rng)
                if sp.startswith(fam + ":"): break
            else:
                continue
            hist.append((rng.u64(), sp, 1, ["D0", "E0:0", "I0:0:1300", "S0:1", "C0", "I1:1:700", "I0:1:700", "D0", "D1", "E0:0", "E1:0"]))
    for _ in range(40 if tier == "quick" else 600):
        hist.append((rng.u64(), weighted_spec(rng), 1, ["D0", "I0:0:50", "C0", "B0", "S1:1", "S0:2", "S2:2", "I1:0:40", "I2:1:40", "D0", "D1", "D2", "E0:0", "E1:0", "E2:0"]))
    # clone_from between two values of the SAME type with different parameters (for the weighted indices: the same number of
    # weights, different sums): the overwritten value must behave and print exactly as its source
    for _ in range(60 if tier == "quick" else 800):
        for attempt in range(200):
            a, b = (weighted_spec(rng), weighted_spec(rng)) if rng.chance(1, 2) else (rand_spec(rng), rand_spec(rng))
            fa, fb = a.split(":"), b.split(":")
            if fa[:2] == fb[:2] and a != b and (fa[0] not in ("walias", "wtree") or len(fa[2].split(",")) == len(fb[2].split(","))):
                break
        else:
            continue
        hist.append((rng.u64(), a + ";" + b, 2, ["D0", "D1", "F0:1", "F1:0", "I2:0:30", "I1:0:30", "I3:1:30", "I0:1:30", "S2:2", "S1:2", "D0", "D1", "D2", "D3", "E2:1", "E3:0", "E0:0", "E1:1"]))
    lines = []
    for seed, specs, nobj, ops in hist:
        lines.append("pure %x 0 %s %s" % (seed, specs, " ".join(ops)))                 # the history itself
        lines.append("pure %x 1 %s %s" % (seed, specs, " ".join(ops)))                 # fresh objects for every sample
        lines.append("pure %x 0 %s %s" % (seed, specs, " ".join(expand_iter(ops))))    # sample_iter as repeated sample
        for r in range(3):                                                              # projection onto one stream
            lines.append("pure %x 0 %s %s" % (seed, specs, " ".join(o for o in ops if stream_of(o) in (None, r))))
        lines.append("pure %x 0 %s %s" % (seed, specs, " ".join(ops)))                 # determinism: run twice
    outs = run_harness_guarded_parallel(ctx["binary"], lines, batch_timeout=120, line_timeout=30, chunk=14)
    oracle_failures = []
    nsamples = 0
    for h, (seed, specs, nobj, ops) in enumerate(hist):
        base = 7 * h
        o = [x.split(" ") for x in outs[base:base + 7]]
        if any(x == ["HANG"] for x in o):
            continue
        main = o[0]
        def fail(what):
            oracle_failures.append({"property": PID, "class": "purity", "harness_line": lines[base][:600], "what": what})
        if main != o[6]:
            fail("the same history on the same seeds produced different outputs on a second run"); continue
        if main != o[1]:
            d = next(i for i, (a, b) in enumerate(zip(main, o[1])) if a != b)
            fail("op %s: output %s differs from that of a freshly constructed object %s" % (ops[d], main[d], o[1][d])); continue
        # sample_iter = repeated sample
        flat = []
        for op, res in zip(ops, main):
            if op[0] == "I":
                vals, cnt = res.rsplit(":", 1)
                flat += [(v, None) for v in vals.split(",")[:-1]] + [(vals.split(",")[-1], cnt)]
            elif op[0] == "S":
                v, cnt = res.rsplit(":", 1); flat.append((v, cnt))
            else:
                flat.append((res, "x"))
        exp_ops = expand_iter(ops)
        for (v, cnt), res, op in zip(flat, o[2], exp_ops):
            if op[0] == "S":
                v2, c2 = res.rsplit(":", 1)
                if v != v2 or (cnt is not None and cnt != c2):
                    fail("sample_iter and repeated sample disagree at %s: %s vs %s" % (op, (v, cnt), res)); break
        # projection per stream
        for r in range(3):
            sub = [x for x, op in zip(main, ops) if stream_of(op) in (None, r)]
            if sub != o[3 + r]:
                fail("outputs on stream %d change when the operations on other streams are removed" % r); break
        # a clone and a value rebuilt from equal parameters print the same as their source (they are the same value)
        src, nxt, last = {}, nobj, {}
        for op in ops:
            if op[0] in "CB": src[str(nxt)] = op[1:]; nxt += 1
            elif op[0] == "F": src[str(nxt)] = op[1:].split(":")[1]; nxt += 1
        for op, res in zip(ops, main):
            if op[0] == "D": last[op[1:]] = res
        for k, k0 in src.items():
            if k in last and k0 in last and last[k] != last[k0]:
                fail("object %s (a clone / rebuild of object %s) prints differently from its source: %s vs %s" % (k, k0, last[k][:160], last[k0][:160])); break
        # PartialEq: "ne" between a value and itself / its clone / rebuild / clone_from source ("na": no PartialEq on the type)
        for op, res in zip(ops, main):
            if op[0] == "E" and res == "ne":
                a, b = op[1:].split(":")
                fail("object %s %s under PartialEq" % (a, "no longer compares equal to itself" if a == b else "does not compare equal to its source object " + b)); break
        # Debug before = after
        dbg = {}
        for op, res in zip(ops, main):
            if op[0] == "D":
                k = op[1:]
                if k in dbg and dbg[k] != res:
                    fail("Debug of object %s changed after sampling: %s -> %s" % (k, dbg[k][:100], res[:100])); break
                dbg[k] = res
            if op[0] in "SI": nsamples += 1
    # vector samplers: the result must not depend on what the output buffer held before (sample_to_slice into a REUSED buffer
    # vs sample() on the same stream), and repeated identical calls must agree
    import c11
    vlines = []
    for ty in ("f64", "f32"):
        for k in range(60 if tier == "quick" else 2000):
            a = c11.alpha_vec(rng, ty)
            if k % 3 == 0: a = tuple(S.f_round(ty, x) for x in [1e-3 if ty == "f64" else 1e-2] * len(a))   # tiny alphas: Beta draws round to 1
            w = ",".join("%x" % x for x in S.random_words(rng, 8))
            vlines.append("multi dirichlet %s %s %x %s" % (ty, ",".join(S.f_bits(ty, v) for v in a), rng.u64(), w))
    for fam in ("unitcircle", "unitdisc", "unitsphere", "unitball"):
        for ty in ("f64", "f32"):
            for k in range(5):
                vlines.append("multi %s %s - %x -" % (fam, ty, rng.u64()))
    vouts = run_harness_guarded_parallel(ctx["binary"], vlines + vlines, batch_timeout=300, line_timeout=30, chunk=50)
    half = len(vlines)
    for i, line in enumerate(vlines):
        a, b = vouts[i], vouts[half + i]
        if a != b:
            oracle_failures.append({"property": PID, "class": "purity", "harness_line": line[:400], "what": "two identical calls returned different results: %s vs %s" % (a[:150], b[:150])})
        elif "|" in a and not a.startswith("E:"):
            f = a.split("|")
            if f[0] != f[1]:
                oracle_failures.append({"property": PID, "class": "purity", "harness_line": line[:400],
                                        "what": "sample() and sample_to_slice() into a reused buffer differ on the same stream: %s vs %s" % (f[0][:200], f[1][:200])})
    return {
        "evaluations": len(hist) + len(vlines), "distinct_nontrivial": len({(h[1], tuple(h[3])) for h in hist}),
        "rule": "random histories over 1-4 distribution objects of random families/parameters (all 27 samplers and the two weighted index types over float and integer weights) and 3 seeded streams: "
                "sample, sample_iter.take(n), clone, clone_from (incl. between two values of one type with different parameters), rebuild-from-parameters, Debug, PartialEq (self, clone, rebuild); each history is run 7 ways on the real crate (twice, with fresh "
                "objects for every sample, with sample_iter expanded, projected onto each stream) and all outputs (value bits and stream position) "
                "must agree; distinct = distinct (objects, history)",
        "samples": [lines[0][:300], outs[0][:300]],
        "mismatches": [], "oracle_failures": oracle_failures,
        "extra": {"sampling_ops": nsamples, "harness_runs": len(lines)},
    }


def replay(ctx, obj):
    print("rust :", run_harness(ctx["binary"], [obj["harness_line"]])[0])
