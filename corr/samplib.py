"""Sampler families: parameter envelopes (DESIGN.md §4), bit conversions, Coq/harness encodings."""
import math, struct
from common import *

F32_MAX = 3.4028234663852886e38


def f_round(ty, x):
    return struct.unpack("<f", struct.pack("<f", x))[0] if ty == "f32" else float(x)


def f_bits(ty, x):
    if ty == "f32":
        return "%08x" % struct.unpack("<I", struct.pack("<f", x))[0]
    return "%016x" % struct.unpack("<Q", struct.pack("<d", x))[0]


def bits_val(ty, h):
    h = h.lstrip("x")
    if ty == "f32":
        return struct.unpack("<f", struct.pack("<I", int(h, 16)))[0]
    return struct.unpack("<d", struct.pack("<Q", int(h, 16)))[0]


def dyadic(ty, h):
    """hex bit pattern -> (m, e) exact, or None for inf/nan"""
    h = h.lstrip("x")
    bits = int(h, 16)
    if ty == "f32":
        s = -1 if bits >> 31 else 1
        ex = (bits >> 23) & 0xFF; fr = bits & ((1 << 23) - 1)
        if ex == 0xFF: return None
        m, e = (fr, -149) if ex == 0 else (fr | (1 << 23), ex - 150)
    else:
        s = -1 if bits >> 63 else 1
        ex = (bits >> 52) & 0x7FF; fr = bits & ((1 << 52) - 1)
        if ex == 0x7FF: return None
        m, e = (fr, -1074) if ex == 0 else (fr | (1 << 52), ex - 1075)
    while m and m % 2 == 0:
        m //= 2; e += 1
    return (s * m, e)


def nextafter(ty, x, up):
    if ty == "f64":
        return math.nextafter(x, math.inf if up else -math.inf)
    b = struct.unpack("<I", struct.pack("<f", x))[0]
    if x == 0.0:
        return struct.unpack("<f", struct.pack("<I", 1 if up else 0x80000001))[0]
    if (x > 0) == up: b += 1
    else: b -= 1
    return struct.unpack("<f", struct.pack("<I", b))[0]


def around(ty, t):
    """pred pred t, pred t, t, succ t, succ succ t"""
    t = f_round(ty, t)
    a = nextafter(ty, t, False); b = nextafter(ty, t, True)
    return [nextafter(ty, a, False), a, t, b, nextafter(ty, b, True)]


def logu(rng, lo, hi):
    u = rng.below(1 << 30) / float(1 << 30)
    return math.exp(math.log(lo) + u * (math.log(hi) - math.log(lo)))


def sgn(rng):
    return -1.0 if rng.chance(1, 2) else 1.0


# ---- parameter envelopes: family -> function(rng, ty, k) returning a parameter tuple -------------
def scale_box(ty):
    return (1e-100, 1e100) if ty == "f64" else (1e-15, 1e15)


def loc_for(rng, ty, scale):
    lim = min(1e100 if ty == "f64" else 1e15, scale * (1e12 if ty == "f64" else 1e4))
    c = rng.below(5)
    if c == 0: return 0.0
    if c == 1: return sgn(rng) * scale
    return sgn(rng) * logu(rng, max(lim * 1e-12, 1e-300), lim)


def shape_gamma(rng, ty):
    lo, hi = (0.05, 1e6) if ty == "f64" else (0.2, 1e4)
    c = rng.below(10)
    if c < 3: return rng.choice(around(ty, 1.0))
    if c < 5: return logu(rng, lo, 1.0)
    if c < 8: return logu(rng, 1.0, 100.0)
    return logu(rng, lo, hi)


def shape_beta(rng, ty):
    lo, hi = (0.05, 1e4) if ty == "f64" else (0.2, 1e3)
    c = rng.below(10)
    if c < 3: return rng.choice(around(ty, 1.0))
    if c < 6: return logu(rng, lo, 1.0)
    if c < 9: return logu(rng, 1.0, 50.0)
    return logu(rng, lo, hi)


def shape_w(rng, ty):
    lo, hi = (0.1, 1e3) if ty == "f64" else (0.25, 100.0)
    return rng.choice([0.5, 1.0, 2.0, 3.0]) if rng.chance(1, 3) else logu(rng, lo, hi)


def p_scale(rng, ty):
    lo, hi = scale_box(ty)
    c = rng.below(6)
    if c == 0: return 1.0
    if c < 4: return logu(rng, 1e-3, 1e3)
    return logu(rng, lo, hi)


def dof(rng, ty):
    c = rng.below(10)
    if c < 3: return rng.choice(around(ty, 1.0))
    if c < 5: return rng.choice(around(ty, 2.0))
    return 2.0 * shape_gamma(rng, ty)


def tri(rng, ty):
    a = loc_for(rng, ty, p_scale(rng, ty))
    w = abs(a) * logu(rng, 1e-9 if ty == "f64" else 1e-4, 1e3) if a != 0 and rng.chance(1, 2) else p_scale(rng, ty)
    b = a + w
    c = rng.below(6)
    mode = a if c == 0 else b if c == 1 else a + w * (rng.below(1 << 20) / float(1 << 20))
    a, b, mode = f_round(ty, a), f_round(ty, b), f_round(ty, mode)
    if not (b > a): b = nextafter(ty, a, True)
    mode = min(max(mode, a), b)
    return a, b, mode


def skew_shape(rng, ty):
    c = rng.below(8)
    if c == 0: return 0.0
    if c == 1: return 1.0
    if c == 2: return -1.0
    if c == 3: return rng.choice(around(ty, 1.0) + [-x for x in around(ty, 1.0)])
    return sgn(rng) * logu(rng, 1e-3, 1e3)


def fam_params(fam, rng, ty):
    if fam in ("stdnormal", "exp1"): return ()
    if fam == "normal":
        s = p_scale(rng, ty); return (loc_for(rng, ty, s), s * (sgn(rng) if rng.chance(1, 4) else 1.0))
    if fam == "lognormal":
        return (sgn(rng) * logu(rng, 1e-3, 700 if ty == "f64" else 80), logu(rng, 1e-3, 30 if ty == "f64" else 8))
    if fam == "exp": return (1.0 / p_scale(rng, ty),)
    if fam == "gamma": return (shape_gamma(rng, ty), p_scale(rng, ty))
    if fam in ("chisq", "studentt"): return (dof(rng, ty),)
    if fam == "fisherf": return (dof(rng, ty), dof(rng, ty))
    if fam == "beta":
        a = shape_beta(rng, ty)
        return (a, a if rng.chance(1, 6) else shape_beta(rng, ty))
    if fam == "pert":
        a, b, m = tri(rng, ty)
        return (a, b, m, rng.choice([0.0, 1.0, 4.0, 4.0, 100.0, logu(rng, 0.01, 100.0)]))
    if fam == "triangular": return tri(rng, ty)
    if fam == "cauchy":
        s = p_scale(rng, ty); return (loc_for(rng, ty, s), s)
    if fam in ("pareto", "weibull"): return (p_scale(rng, ty), shape_w(rng, ty))
    if fam == "gumbel":
        s = p_scale(rng, ty); return (loc_for(rng, ty, s), s)
    if fam == "frechet":
        s = p_scale(rng, ty); return (loc_for(rng, ty, s), s, shape_w(rng, ty))
    if fam == "skewnormal":
        s = p_scale(rng, ty); return (loc_for(rng, ty, s), s, skew_shape(rng, ty))
    if fam == "invgauss":
        mu = p_scale(rng, ty)
        return (mu, mu * logu(rng, 1e-3 if ty == "f64" else 1e-2, 1e6 if ty == "f64" else 1e4))
    if fam == "nig":
        a = logu(rng, 0.1, 100.0); return (a, a * 0.99 * (2 * (rng.below(1 << 20) / float(1 << 20)) - 1))
    raise ValueError(fam)


CONT_FAMILIES = ["stdnormal", "exp1", "normal", "lognormal", "exp", "gamma", "chisq", "studentt", "fisherf", "beta", "pert",
                 "triangular", "cauchy", "pareto", "weibull", "gumbel", "frechet", "skewnormal", "invgauss", "nig"]

COQ_NAME = {"stdnormal": "std_normal", "exp1": "exp1", "normal": "normal", "lognormal": "lognormal", "exp": "exp_lambda",
            "gamma": "gamma", "chisq": "chi_squared", "studentt": "student_t", "fisherf": "fisher_f", "beta": "beta",
            "pert": "pert", "triangular": "triangular", "cauchy": "cauchy", "pareto": "pareto", "weibull": "weibull",
            "gumbel": "gumbel", "frechet": "frechet", "skewnormal": "skew_normal", "invgauss": "inverse_gaussian", "nig": "nig"}


def coq_ty(ty):
    return "F32" if ty == "f32" else "F64"


def coq_model(fam, ty, pbits):
    """Coq term of type `sampler expr` for the family at the given parameter bit patterns"""
    dy = [dyadic(ty, b) for b in pbits]
    if any(d is None for d in dy):
        return None
    args = " ".join("(%s, %s)" % (zlit(m), zlit(e)) for m, e in dy)
    if fam == "pert":
        # harness order: min max mode shape ; model order: min max mode shape
        pass
    return "(%s %s %s)" % (COQ_NAME[fam], coq_ty(ty), args)


def in_envelope(fam, ty, vals):
    """finite, accepted, inside the box (coarse guard so that rounding to f32 did not leave the box)"""
    lim = 1e300 if ty == "f64" else 1e37
    return all(math.isfinite(v) and abs(v) < lim for v in vals)


# ---- word streams ----------------------------------------------------------------------------------
def lattice_words():
    ws = [0, 2**64 - 1, 2**63, 2**63 - 2**11, 2**63 + 2**11, 2**63 - 2**12, 2**63 + 2**12, 2**63 - 2**40, 2**63 + 2**40]
    for k in range(64):
        ws.append(1 << k); ws.append((2**64 - 1) ^ (1 << k))
    # top 53/52/24/23 bits all-zero / all-one / 10…0 / 01…1 with low bits all-zero and all-one
    for top in (53, 52, 24, 23):
        low = 64 - top
        for hi in (0, (1 << top) - 1, 1 << (top - 1), (1 << (top - 1)) - 1):
            ws.append(hi << low); ws.append((hi << low) | ((1 << low) - 1))
    # ziggurat: layer bytes with extreme mantissas
    for byte in (0, 1, 2, 127, 128, 254, 255):
        for man in (0, 1, 1 << 51, (1 << 52) - 1):
            ws.append((man << 12) | byte); ws.append((man << 12) | 0xF00 | byte)
    return sorted(set(ws))


LATTICE = lattice_words()


def random_words(rng, n):
    return [rng.u64() for _ in range(n)]


def adversarial_words(rng, n, pos, w):
    ws = random_words(rng, n)
    ws[pos] = w
    return ws
