"""WeightedTreeIndex: history generation, harness/Coq encodings, python reference (abstract list spec)."""
from common import *

ITYPES = {
    "u8": (0, 2**8 - 1, "SK32"), "u16": (0, 2**16 - 1, "SK32"), "u32": (0, 2**32 - 1, "SK32"),
    "u64": (0, 2**64 - 1, "SK64"), "u128": (0, 2**128 - 1, "SK128"), "usize": (0, 2**64 - 1, "SKusize"),
    "i8": (-2**7, 2**7 - 1, "SK32"), "i16": (-2**15, 2**15 - 1, "SK32"), "i32": (-2**31, 2**31 - 1, "SK32"),
    "i64": (-2**63, 2**63 - 1, "SK64"), "i128": (-2**127, 2**127 - 1, "SK128"),
}

HEADER = ("From Coq Require Import ZArith List Bool.\nFrom RD Require Import Model.Tree Model.Uniform Model.TreeIO.\n"
          "Import ListNotations.\nOpen Scope Z_scope.\n")


def nwords(ty, total=None):
    return 4 if ITYPES[ty][2] == "SK128" else 2


# ---- ops are tuples: ("N", [ws]) ("P", w) ("O",) ("U", i, w) ("S", [words])
def op_to_harness(op):
    k = op[0]
    if k == "N":
        return "N:" + (",".join(str(w) for w in op[1]) if op[1] else "-")
    if k == "P":
        return "P:%d" % op[1]
    if k == "O":
        return "O"
    if k == "U":
        return "U:%d:%d" % (op[1], op[2])
    if k == "S":
        return "S:" + ",".join("%x" % w for w in op[1])
    raise ValueError(op)


def op_to_coq(op):
    k = op[0]
    if k == "N":
        return "HNew " + zlist(op[1])
    if k == "P":
        return "HPush " + zlit(op[1])
    if k == "O":
        return "HPop"
    if k == "U":
        return "HUpdate %d %s" % (op[1], zlit(op[2]))
    if k == "S":
        return "HSample " + zlist(op[1])
    raise ValueError(op)


def parse_rec(s):
    """one harness record -> dict"""
    out, st, subs, gets, eqf = s.split("|")
    ln, em, va = st.split(",")
    pl = lambda x: [] if x == "[]" else [int(v) for v in x[1:-1].split(",")]
    return {"out": out, "len": int(ln), "empty": em == "1", "valid": va == "1",
            "subs": pl(subs), "gets": None if gets == "getPanic" else pl(gets), "eqfresh": eqf}


def out_to_coq(o):
    p = o.split(":")
    if o == "ok": return "HOk"
    if o == "none": return "HNone"
    if o == "panic": return "HPanic"
    if p[0] == "some": return "HSome " + zlit(int(p[1]))
    if p[0] == "idx": return "HIdx %s %s" % (p[1], p[2])
    if p[0] == "E" and len(p) == 2: return "HErr " + p[1]
    if p[0] == "E" and len(p) == 3: return "HErrN %s %s" % (p[1], p[2])
    raise ValueError(o)


def rec_to_coq(r):
    gets = r["gets"] if r["gets"] is not None else [-999999]
    return "{| r_out := %s; r_len := %d; r_empty := %s; r_valid := %s; r_subs := %s; r_gets := %s |}" % (
        out_to_coq(r["out"]), r["len"], blit(r["empty"]), blit(r["valid"]), zlist(r["subs"]), zlist(gets))


def case_to_coq(ty, ops, recs):
    lo, hi, sk = ITYPES[ty]
    return "tcase (mk %s %s) %s [%s] [%s]" % (zlit(lo), zlit(hi), sk,
                                              "; ".join(op_to_coq(o) for o in ops),
                                              "; ".join(rec_to_coq(r) for r in recs))


def harness_line(ty, ops, seed=0):
    return "tree %s %x %s" % (ty, seed, " ".join(op_to_harness(o) for o in ops))


# ---- python reference: the abstract weight list (independent of the Coq model) -------------
def spec_run(ty, ops):
    """returns list of (expected_out or None when not judged, weights_after)"""
    lo, hi, _ = ITYPES[ty]
    ws, res = [], []
    for op in ops:
        k = op[0]
        exp = None
        if k == "N":
            w = op[1]
            if any(x < 0 for x in w): exp = "E:InvalidWeight"
            elif sum(w) > hi: exp = "E:Overflow"
            else: exp = "ok"; ws = list(w)
        elif k == "P":
            if op[1] < 0: exp = "E:InvalidWeight"
            elif ws and sum(ws) + op[1] > hi: exp = "E:Overflow"
            else: exp = "ok"; ws = ws + [op[1]]
        elif k == "O":
            if ws: exp = "some:%d" % ws[-1]; ws = ws[:-1]
            else: exp = "none"
        elif k == "U":
            i, x = op[1], op[2]
            if i >= len(ws): exp = None      # out-of-range index: outside the property
            elif x < 0: exp = "E:InvalidWeight"
            elif sum(ws) - ws[i] + x > hi: exp = "E:Overflow"
            else: exp = "ok"; ws = ws[:i] + [x] + ws[i + 1:]
        elif k == "S":
            exp = "S"
        res.append((exp, list(ws), k == "U" and op[1] >= len(ws)))
    return res


def oracle_c09(ty, ops, recs):
    """direct oracle of C09 on the real crate's outputs. Returns None or a description."""
    sp = spec_run(ty, ops)
    for n, (op, r, (exp, ws, oob)) in enumerate(zip(ops, recs, sp)):
        if oob:
            continue
        if op[0] == "S":
            continue
        if r["out"] != exp:
            return "step %d %s: returned %s, weight-list spec says %s" % (n, op_to_harness(op), r["out"], exp)
        if r["gets"] is None:
            return "step %d %s: get(i) panicked for an in-range index" % (n, op_to_harness(op))
        if r["gets"] != ws:
            return "step %d %s: get() list %s differs from weight list %s" % (n, op_to_harness(op), r["gets"], ws)
        if r["len"] != len(ws) or r["empty"] != (len(ws) == 0) or r["valid"] != (sum(ws) > 0):
            return "step %d %s: len/is_empty/is_valid = %s/%s/%s for weight list %s" % (
                n, op_to_harness(op), r["len"], r["empty"], r["valid"], ws)
        if r["eqfresh"] != "eq":
            return "step %d %s: value != WeightedTreeIndex::new(%s) (%s)" % (n, op_to_harness(op), ws, r["eqfresh"])
    return None


def oracle_c10_sample(ty, ops, recs):
    """single-sample checks: index in range, weight non-zero, no panic when valid, error when total is 0."""
    sp = spec_run(ty, ops)
    for n, (op, r, (exp, ws, oob)) in enumerate(zip(ops, recs, sp)):
        if op[0] != "S":
            continue
        o = r["out"]
        if sum(ws) == 0:
            if not o.startswith("E:InsufficientNonZero"):
                return "step %d: try_sample on total 0 returned %s" % (n, o)
            if not o.endswith(":0"):
                return "step %d: try_sample on total 0 consumed RNG words (%s)" % (n, o)
            continue
        if o == "panic":
            return "step %d: try_sample panicked although is_valid() (weights %s, words %s)" % (n, ws, op[1])
        if not o.startswith("idx:"):
            return "step %d: try_sample returned %s on weights %s" % (n, o, ws)
        i = int(o.split(":")[1])
        if i >= len(ws) or ws[i] == 0:
            return "step %d: try_sample returned index %d for weights %s" % (n, i, ws)
    return None


# ---- generators ------------------------------------------------------------------------------
def alphabet(ty):
    lo, hi, _ = ITYPES[ty]
    a = [0, 1, 2, hi - 1, hi]
    if lo < 0:
        a.append(-1)
    return a


def rand_weight(rng, ty, total_now=0):
    lo, hi, _ = ITYPES[ty]
    c = rng.below(100)
    if c < 15: return 0
    if c < 45: return rng.below(8)
    if c < 60: return rng.below(1000) % (hi + 1)
    if c < 70: return hi - rng.below(3)
    if c < 80: return max(0, hi - total_now - rng.below(3) + 1) % (hi + 1)   # lands on the overflow boundary
    if c < 85 and lo < 0: return -1 - rng.below(3)
    if c < 88 and lo < 0: return lo
    if c < 95: return rng.below(hi // 2 + 1)
    return rng.below(hi + 1)


WORD_LATTICE = [0, 2**64 - 1, 2**63, 2**63 - 1, 1, 2**32, 2**32 - 1, 2**64 - 2**32, 2**63 + 2**31, 0xFFFFFFFF00000000,
                2**64 - 2, 2**62, 2**33]


def rand_words(rng, ty):
    n = nwords(ty)
    c = rng.below(4)
    if c == 0:
        return [rng.choice(WORD_LATTICE) for _ in range(n)]
    if c == 1:
        return [rng.choice(WORD_LATTICE)] + [rng.u64() for _ in range(n - 1)]
    return [rng.u64() for _ in range(n)]


def random_history(rng, ty, length, with_samples):
    ops, ws = [], []
    lo, hi, _ = ITYPES[ty]
    n0 = rng.choice([0, 1, 2, 3, 4, 7, 8, 9, 15, 16, 17, 33])
    init = []
    for _ in range(n0):
        init.append(rand_weight(rng, ty, sum(x for x in init if x > 0)))
    ops.append(("N", init))
    if all(x >= 0 for x in init) and sum(init) <= hi:
        ws = list(init)
    for _ in range(length):
        c = rng.below(100)
        if with_samples and c < 25:
            ops.append(("S", rand_words(rng, ty)))
            continue
        if c < 50 or not ws:
            w = rand_weight(rng, ty, sum(ws))
            ops.append(("P", w))
            if w >= 0 and (not ws or sum(ws) + w <= hi): ws.append(w)
        elif c < 70:
            ops.append(("O",))
            ws = ws[:-1]
        elif c < 97:
            i = rng.below(len(ws))
            w = rand_weight(rng, ty, sum(ws) - ws[i])
            ops.append(("U", i, w))
            if w >= 0 and sum(ws) - ws[i] + w <= hi: ws[i] = w
        else:
            init = [rand_weight(rng, ty) for _ in range(rng.below(6))]
            ops.append(("N", init))
            if all(x >= 0 for x in init) and sum(init) <= hi: ws = list(init)
    return ops


def exhaustive_histories(ty, init_max_len, depth, alpha=None):
    """all histories new(ws) ; op_1 ; … ; op_depth over the alphabet (indices restricted to the current length)."""
    lo, hi, _ = ITYPES[ty]
    alpha = alpha or alphabet(ty)
    import itertools
    inits = []
    for n in range(init_max_len + 1):
        inits += [list(t) for t in itertools.product(alpha, repeat=n)]
    res = []

    def ext(ops, ws, d):
        if d == 0:
            res.append(ops)
            return
        for w in alpha:
            nws = ws + [w] if (w >= 0 and (not ws or sum(ws) + w <= hi)) else ws
            ext(ops + [("P", w)], nws, d - 1)
        ext(ops + [("O",)], ws[:-1], d - 1)
        for i in range(len(ws)):
            for w in alpha:
                nws = ws[:i] + [w] + ws[i + 1:] if (w >= 0 and sum(ws) - ws[i] + w <= hi) else ws
                ext(ops + [("U", i, w)], nws, d - 1)

    for init in inits:
        ok = all(x >= 0 for x in init) and sum(init) <= hi
        ext([("N", init)], list(init) if ok else [], depth)
    return res
