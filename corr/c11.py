"""C11 — Dirichlet samples lie on the simplex and have the Dirichlet law."""
import math
from common import *
import samplib as S
import multilib as M

PID = "C11"
LEVEL = "proof"
NEED_RELEASE = True
COQ_TARGETS = ["Props/C11.vo", "Props/C11_fp.vo", "Props/C11_fl.vo"]
PROPS_FILES = ["C11", "C11_fp", "C11_fl"]
THEOREMS = ["C11_dirichlet_sticks_fl", "C11_dirichlet_sum_fl", "C11_stick_step", "C11_sumR_def", "C11_fl_source", "C11_fingerprints", "C11_rev_csum_spec", "C11_rev_csum_length", "C11_beta_chain_params", "C11_stick_simplex", "C11_gamma_simplex",
            "C11_dirichlet_simplex", "C11_method_switch"]
TRUSTED_BASE = [
    "Coq 8.16.1 kernel; stdlib real axioms; Proofs/MultiDirichlet.v: the reverse cumulative sum has entry i = sum_{j>i} alpha_j (so component i "
    "of the stick-breaking chain is Beta(alpha_i, sum_{j>i} alpha_j)), stick-breaking outputs lie in [0,1] and sum to exactly 1, normalised gammas "
    "lie in (0,1] and sum to 1, lifted to every result of the model coq/Model/Multi.v (both methods), method switch iff all alpha_i <= fl(0.1)",
    "the model (incl. the float rev_csum loop, beta_e with computed parameters, gamma chain) is tied to the code by pathwise correspondence on "
    "identical alpha bits and RNG words; sample() vs sample_to_slice() compared bit for bit on cloned streams",
    "marginal Beta(alpha_i, sum - alpha_i) and ratio laws follow from the Beta/Gamma component laws by the classical stick-breaking and "
    "gamma-normalisation theorems (B-class, not formalised)",
]
ASSUMPTIONS = ["NaN arises only if every Gamma draw underflows to 0; outside envelope E"]


def alpha_vec(rng, ty):
    n = rng.choice([2, 3, 8, 16, 33, 64]) if rng.chance(1, 25) else 2 + rng.below(6)
    lo, hi = (1e-3, 1e4) if ty == "f64" else (1e-2, 1e3)
    mode = rng.below(5)
    out = []
    for i in range(n):
        if mode == 0: a = S.logu(rng, lo, 0.1)                      # all <= 0.1 : Beta method
        elif mode == 1: a = S.logu(rng, 0.1000001, hi)              # all > 0.1 : Gamma method
        elif mode == 2: a = S.logu(rng, lo, hi)                     # mixed -> Gamma
        elif mode == 3: a = rng.choice(S.around(ty, 0.1) + [0.05, 0.5, 1.0])
        else: a = rng.choice([0.1, 0.1, 0.01, S.nextafter(ty, S.f_round(ty, 0.1), False)])
        out.append(S.f_round(ty, a))
    return tuple(out)


F19_CLASS = "dirichlet-gamma-f32-underflow"


def f19_class(ty, alpha, values):
    """known finding F19: DirichletFromGamma<f32> (some alpha > fl(0.1)) with an entry below 0.19 - a Gamma(alpha) draw
    Gamma(alpha+1) * u^(1/alpha) can then fall below the binary32 normal range (u >= 2^-24, 24/alpha > 126), the sum of the draws is
    subnormal, 1/sum overflows to +inf and every component becomes g*inf = inf (g > 0) or 0*inf = NaN.  Decidable from the record:
    binary32, gamma path, an alpha < 0.19, and EVERY component of the failing sample is inf or NaN."""
    thr = S.f_round("f32", 0.1)
    return (ty == "f32" and any(x > thr for x in alpha) and min(alpha) < 0.19 and len(values) == len(alpha)
            and all((x != x) or x == math.inf for x in values) and any(x != x for x in values))


def match_known(f, kf):
    for k in kf:
        if k.get("class") == f.get("class"):
            return k
    return None


def replay_known(ctx, k):
    w = k.get("witness", {})
    if "harness_line" not in w:
        return None
    out = run_harness_parallel(ctx["binary"], [w["harness_line"]])[0]
    if w.get("expect") and w["expect"] in out:
        return {"what": k["what"], "harness_line": w["harness_line"], "out": out}
    return None


def correspond(ctx):
    rng, tier = ctx["rng"], ctx["tier"]
    n = 110 if tier == "quick" else 5000
    jobs = []
    for ty in ("f64", "f32"):
        for k in range(n):
            a = alpha_vec(rng, ty)
            nw = 60 + 12 * len(a)
            words = S.adversarial_words(rng, nw, rng.below(6), rng.choice(S.LATTICE)) if k % 5 == 4 else S.random_words(rng, nw)
            jobs.append(("dirichlet", ty, a, words))
    res = M.run(ctx, jobs, "C11")
    oracle_failures, mismatches = [], []
    stats = {"match": 0, "mismatch": 0, "unjudged": 0, "beyond_words": 0}
    meth = {"beta": 0, "gamma": 0}
    maxsum = 0.0
    for (fam, ty, a, words), r in zip(jobs, res):
        thr = S.f_round(ty, 0.1)
        meth["beta" if all(x <= thr for x in a) else "gamma"] += 1
        if r["vals"] is None:
            oracle_failures.append({"property": PID, "class": "dirichlet-panic", "harness_line": r["line"][:400],
                                    "what": "Dirichlet<%s>(%s) returned %s" % (ty, list(a), r["out"])})
            continue
        v = r["vals"]
        eps = 2.0 ** -23 if ty == "f32" else 2.0 ** -52
        bad = None
        if len(v) != len(a): bad = "%d components for %d alphas" % (len(v), len(a))
        elif any(x != x for x in v): bad = "NaN component: %s" % v
        elif any(x < 0 or x > 1 for x in v): bad = "component outside [0,1]: %s" % v
        else:
            dev = abs(math.fsum(v) - 1.0) / eps
            maxsum = max(maxsum, dev)
            if dev > 4 * len(a): bad = "components sum to %.17g (%.1f ulp from 1)" % (math.fsum(v), dev)
        if r["slice_equal"] is False:
            bad = bad or "sample() and sample_to_slice() differ on the same stream"
        if bad:
            oracle_failures.append({"property": PID, "class": F19_CLASS if f19_class(ty, a, v) else "dirichlet", "harness_line": r["line"][:400],
                                    "what": "Dirichlet<%s>(%s): %s" % (ty, list(a), bad)})
        c = r["code"]
        if c is None:
            stats["beyond_words"] += 1
        else:
            stats["match" if c == 0 else "mismatch" if c == 1 else "unjudged"] += 1
            if c == 1:
                mismatches.append({"type": ty, "alpha": list(a), "harness_line": r["line"][:400], "rust": r["out"][:300]})
    # bulk simplex oracle on the real crate (NaN rates of 1e-5 are visible at 2e5 samples per alpha)
    blines, bulk = [], 0
    for ty in ("f64", "f32"):
        for k in range(12 if tier == "quick" else 200):
            a = alpha_vec(rng, ty)
            blines.append("manyv dirichlet %s %s %x %d" % (ty, ",".join(S.f_bits(ty, v) for v in a), rng.u64(), 100000 if tier == "quick" else 1000000))
    bouts = run_harness_guarded_parallel(ctx["binary_release"], blines, batch_timeout=900, line_timeout=300, chunk=2)
    for line, o in zip(blines, bouts):
        if not o.startswith("n="):
            if not o.startswith("E:"):
                oracle_failures.append({"property": PID, "class": "dirichlet-bulk", "harness_line": line[:300], "what": "bulk run returned " + o})
            continue
        f = dict(x.split("=", 1) for x in o.split(" "))
        bulk += int(f["n"])
        if int(f["bad"]) or int(f["nan"]):
            cls = "dirichlet"
            try:      # classify by the first failing sample when no sample left the simplex otherwise
                bty = line.split()[2]
                balpha = [S.bits_val(bty, h) for h in line.split()[3].split(",")]
                bvals = [float(x) for x in f["first"].split(":", 1)[1].strip("[]").split(",")]
                if int(f["bad"]) == 0 and f19_class(bty, balpha, bvals):
                    cls = F19_CLASS
            except Exception:
                pass
            oracle_failures.append({"property": PID, "class": cls, "harness_line": line[:300],
                                    "what": "%s of %s seeded Dirichlet samples leave the simplex, %s contain NaN (first: %s)" % (f["bad"], f["n"], f["nan"], f["first"][:200])})
    return {
        "evaluations": len(jobs) + bulk, "distinct_nontrivial": len({(j[1], j[2], tuple(j[3][:3])) for j in jobs}),
        "rule": "alpha vectors of length 2..64 with entries in E (all <= 0.1, all > 0.1, mixed, at and around the 0.1 switch) x {f32,f64} x word "
                "streams (random and single-word adversarial): real crate vs Coq model (words consumed, component enclosures), simplex predicate on the "
                "real output, sample() vs sample_to_slice()",
        "samples": [res[0]["line"][:300], res[0]["out"][:200]],
        "mismatches": mismatches, "oracle_failures": oracle_failures,
        "extra": {"model_vs_crate": stats, "method_counts": meth, "max_sum_deviation_ulp": maxsum, "bulk_simplex_samples": bulk},
    }


def replay(ctx, obj):
    print("rust :", run_harness(ctx["binary"], [obj["harness_line"]])[0])
