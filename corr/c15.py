"""C15 — serialised distributions round-trip to equal, identically sampling values."""
import json, math, struct
from common import *
import samplib as S
import c03

PID = "C15"
LEVEL = "proof"
COQ_TARGETS = ["Props/C15.vo", "Props/C15_gen.vo"]
PROPS_FILES = ["C15", "C15_gen"]
THEOREMS = ["C15_roundtrip", "C15_roundtrip_table", "C15_encode_injective", "C15_tydescs_wf", "C15_all_described",
            "C15_generated_types_roundtrip"]
TRUSTED_BASE = [
    "Coq 8.16.1 kernel; all C15 theorems closed under the global context: decode d (encode d v) = Some v for every well-formed type "
    "description d and every well-typed value with finite floats (Model/Serde.v follows serde's externally-tagged derive conventions)",
    "tools/rs2coq.py regenerates coq/Gen/TyDesc.v from the struct/enum definitions that derive Serialize/Deserialize under "
    "cfg_attr(feature=\"serde\"), failing (undescribed <> []) on any serde attribute outside the modelled universe (skip, default, rename, "
    "with, flatten, tag, ...); C15_tydescs_wf and C15_all_described are re-proved on every run",
    "that the derive macro produces what Model/Serde.v's encode says is checked, not proved: for every serde-enabled type and internal "
    "variant the JSON tree written by the real crate must decode at the regenerated description and re-encode to the identical tree; "
    "PartialEq after the round trip and 100 samples on cloned streams are checked on the real crate",
    "serde_json number printing/parsing is trusted to round-trip finite f32/f64",
]
ASSUMPTIONS = ["non-finite stored floats (Exp::new(0.0) stores 1/0 = inf) cannot be represented in JSON: listed as 'format cannot represent', not judged",
               "types without the derive (Zipf, Zeta, Dirichlet) are reported as not serde-enabled"]

HEADER = ("From Coq Require Import String ZArith List Bool.\nFrom RD Require Import Model.Serde Model.SerdeIO Gen.TyDesc.\n"
          "Import ListNotations.\nOpen Scope string_scope.\nOpen Scope Z_scope.\n")

TYPE_OF = {"stdnormal": "StandardNormal", "exp1": "Exp1", "normal": "Normal", "lognormal": "LogNormal", "exp": "Exp", "gamma": "Gamma",
           "chisq": "ChiSquared", "studentt": "StudentT", "fisherf": "FisherF", "beta": "Beta", "pert": "Pert", "triangular": "Triangular",
           "cauchy": "Cauchy", "pareto": "Pareto", "weibull": "Weibull", "gumbel": "Gumbel", "frechet": "Frechet", "skewnormal": "SkewNormal",
           "invgauss": "InverseGaussian", "nig": "NormalInverseGaussian", "poisson": "Poisson", "binomial": "Binomial", "geometric": "Geometric",
           "stdgeometric": "StandardGeometric", "hypergeometric": "Hypergeometric", "unitcircle": "UnitCircle", "unitdisc": "UnitDisc",
           "unitsphere": "UnitSphere", "unitball": "UnitBall", "alias": "WeightedAliasIndex", "tree": "WeightedTreeIndex", "treeh": "WeightedTreeIndex"}
GENERIC = {"Normal", "LogNormal", "Exp", "Gamma", "ChiSquared", "StudentT", "FisherF", "Beta", "Pert", "Triangular", "Cauchy", "Pareto",
           "Weibull", "Gumbel", "Frechet", "SkewNormal", "InverseGaussian", "NormalInverseGaussian", "Poisson"}


def to_doc(x, f32):
    if x is None: return "DNull"
    if isinstance(x, bool): return "DBool %s" % blit(x)
    if isinstance(x, int): return "DInt %s" % zlit(x)
    if isinstance(x, float):
        if f32: return "DFloat %d" % struct.unpack("<I", struct.pack("<f", x))[0]
        return "DFloat %d" % struct.unpack("<Q", struct.pack("<d", x))[0]
    if isinstance(x, str): return 'DStr "%s"' % x
    if isinstance(x, list): return "DArr [%s]" % "; ".join(to_doc(v, f32) for v in x)
    if isinstance(x, dict): return "DMap [%s]" % "; ".join('("%s", %s)' % (k, to_doc(v, f32)) for k, v in x.items())
    raise ValueError(x)


def has_null(x):
    if x is None: return True
    if isinstance(x, list): return any(has_null(v) for v in x)
    if isinstance(x, dict): return any(has_null(v) for v in x.values())
    return False


def variant_key(j):
    """which internal enum variants a JSON tree exercises (for coverage accounting)"""
    keys = []
    def walk(x):
        if isinstance(x, dict):
            for k, v in x.items():
                if k and k[0].isupper(): keys.append(k)
                walk(v)
        elif isinstance(x, list):
            for v in x: walk(v)
        elif isinstance(x, str) and x and x[0].isupper(): keys.append(x)
    walk(j)
    return tuple(keys)


def gen_jobs(ctx):
    rng, tier = ctx["rng"], ctx["tier"]
    n = 6 if tier == "quick" else 60
    jobs = []
    fixed = [   # parameter sets that reach every internal representation variant
        ("gamma", "f64", (0.5, 2.0)), ("gamma", "f64", (1.0, 2.0)), ("gamma", "f64", (3.5, 2.0)), ("gamma", "f32", (0.5, 2.0)),
        ("beta", "f64", (2.0, 3.0)), ("beta", "f64", (3.0, 2.0)), ("beta", "f64", (0.5, 0.7)), ("beta", "f64", (0.7, 0.5)), ("beta", "f64", (0.5, 3.0)),
        ("chisq", "f64", (1.0,)), ("chisq", "f64", (3.0,)), ("poisson", "f64", (3.0,)), ("poisson", "f64", (30.0,)), ("poisson", "f32", (30.0,)),
        ("exp", "f64", (0.0,)),
    ]
    for fam, ty, vals in fixed:
        jobs.append((fam, ty, [S.f_bits(ty, v) for v in vals]))
    for fam in S.CONT_FAMILIES:
        for ty in ("f64", "f32"):
            for _ in range(1 if fam in ("stdnormal", "exp1") else n):
                vals = tuple(S.f_round(ty, v) for v in S.fam_params(fam, rng, ty))
                if S.in_envelope(fam, ty, vals):
                    jobs.append((fam, ty, [S.f_bits(ty, v) for v in vals]))
    for fam in ("unitcircle", "unitdisc", "unitsphere", "unitball"):
        for ty in ("f64", "f32"):
            jobs.append((fam, ty, []))
    for nb, p in ((0, 0.5), (5, 0.3), (5, 0.9), (1000, 0.3), (1000, 0.8), (10**6, 1e-20), (100, 0.0), (100, 1.0), (2**40, 0.5)):
        jobs.append(("binomial", "u64", [str(nb), S.f_bits("f64", p)]))
    for p in (0.0, 1.0, 0.7, 0.5, 0.01, 1e-9):
        jobs.append(("geometric", "u64", [S.f_bits("f64", p)]))
    jobs.append(("stdgeometric", "u64", []))
    for t in ((10, 3, 4), (10, 7, 8), (1000, 400, 300), (1000, 600, 700), (10**6, 10, 10**5), (40, 20, 20)):
        jobs.append(("hypergeometric", "u64", [str(x) for x in t]))
    for ln in (1, 2, 7, 100):
        jobs.append(("alias", "u32", [str(rng.below(1000)) for _ in range(ln - 1)] + ["5"]))
        jobs.append(("alias", "i64", [str(rng.below(10**12)) for _ in range(ln - 1)] + ["5"]))
        jobs.append(("alias", "f64", [S.f_bits("f64", rng.below(1000) / 8.0) for _ in range(ln - 1)] + [S.f_bits("f64", 1.0)]))
        jobs.append(("tree", "u32", [str(rng.below(1000)) for _ in range(ln - 1)] + ["5"]))
        jobs.append(("tree", "i64", [str(rng.below(10**12)) for _ in range(ln - 1)] + ["5"]))
        jobs.append(("tree", "f64", [S.f_bits("f64", rng.below(1000) / 8.0) for _ in range(ln - 1)] + [S.f_bits("f64", 1.0)]))
    # trees reached by an update / push / pop history (float subtotals are then no longer the exact sums of a fresh build)
    for _ in range(60):
        ln = 2 + rng.below(7)
        jobs.append(("treeh", "f64", [S.f_bits("f64", rng.below(100) / 10.0) for _ in range(ln - 1)] + [S.f_bits("f64", 1.5)]))
        jobs.append(("treeh", "u32", [str(rng.below(1000)) for _ in range(ln - 1)] + ["5"]))
    return jobs


def correspond(ctx):
    rng = ctx["rng"]
    jobs = gen_jobs(ctx)
    lines = ["serde %s %s %s %x" % (fam, ty, ",".join(ps) or "-", rng.u64()) for fam, ty, ps in jobs]
    outs = run_harness_guarded_parallel(ctx["binary"], lines, batch_timeout=120, line_timeout=30, chunk=8)
    coq_cases, idx = [], []
    oracle_failures, mismatches = [], []
    stats = {"roundtrip_ok": 0, "format_cannot_represent": 0, "ctor_err": 0}
    variants = {}
    for n, ((fam, ty, ps), line, o) in enumerate(zip(jobs, lines, outs)):
        if o.startswith("E:") or o.startswith("ctorpanic") or o.startswith("bad"):
            stats["ctor_err"] += 1; continue
        if o.startswith("serfail") or o in ("HANG",) or o.startswith("CRASH"):
            oracle_failures.append({"property": PID, "class": "serialize-failed", "harness_line": line, "what": "%s: %s" % (fam, o)}); continue
        j, eq, same = o.rsplit("|", 2)
        tree = json.loads(j)
        tname = TYPE_OF[fam]
        key = tname + ("<%s>" % ty if tname in GENERIC or fam in ("alias", "tree", "treeh") else "")
        variants.setdefault(key, set()).add(variant_key(tree))
        if has_null(tree) and tree is not None:
            stats["format_cannot_represent"] += 1
            continue
        if eq != "eq" or same != "same":
            oracle_failures.append({"property": PID, "class": "roundtrip", "harness_line": line,
                                    "what": "%s: after serde_json round trip: PartialEq=%s, samples=%s; json=%s" % (key, eq, same, j[:300])})
            continue
        stats["roundtrip_ok"] += 1
        f32 = (ty == "f32")
        coq_cases.append('sercase tydescs "%s" (%s)' % (key, to_doc(tree, f32)))
        idx.append(n)
    import c01
    codes = c01.coq_eval_codes("C15", HEADER, coq_cases, shard=60)
    for n, code in zip(idx, codes):
        if code != 0:
            mismatches.append({"harness_line": lines[n], "rust": outs[n][:400], "code": code,
                               "what": "the JSON tree does not decode/re-encode at the regenerated description (code %d)" % code})
    return {
        "evaluations": len(jobs), "distinct_nontrivial": len({(j[0], j[1], tuple(j[2])) for j in jobs}),
        "rule": "every serde-enabled distribution type x float/weight type x parameter points reaching every internal representation variant "
                "(Gamma Large/One/Small, Beta BB/BC x switched, Binomial Binv/Btpe/Poisson/Constant x flipped, Poisson Knuth/Rejection, "
                "Hypergeometric both methods, ChiSquared both, weighted indices of lengths 1,2,7,100, unit structs): serde_json round trip on the "
                "real crate (PartialEq, 100 samples on cloned streams) and the JSON tree checked against the Coq encode/decode at the regenerated description",
        "samples": [lines[0], outs[0][:300], lines[-1][:200]],
        "mismatches": mismatches, "oracle_failures": oracle_failures,
        "extra": {"stats": stats, "variants_seen": {k: sorted("/".join(v) for v in vs)[:12] for k, vs in variants.items()},
                  "model_checked_trees": len(coq_cases)},
    }


def replay(ctx, obj):
    print("rust :", run_harness(ctx["binary"], [obj["harness_line"]])[0])
