"""C04 — constructors accept exactly the documented parameter domain and never panic."""
import itertools, math, struct
from common import *
import samplib as S
import c01

PID = "C04"
LEVEL = "proof"
COQ_TARGETS = ["Props/C04.vo", "Props/C04_fp.vo", "Props/C04_fl.vo"]
PROPS_FILES = ["C04", "C04_fp", "C04_fl"]
THEOREMS = ["C04_fingerprints", "C04_from_mean_cv_source", "C04_from_mean_cv_std_dev", "C04_from_mean_cv_sign", "C04_Gamma_new_sound", "C04_Normal_new_sound", "C04_Beta_new_sound", "C04_Dirichlet_new_sound",
            "C04_LogNormal_from_mean_cv_sound_except", "C04_Hypergeometric_new_sound_except"]
TRUSTED_BASE = [
    "Coq 8.16.1 kernel; Flocq 4.1 BinarySingleNaN (IEEE binary32/binary64 with Bcompare, Bplus, Bmult, Bdiv, Bsqrt) and its classical "
    "real-number axioms; per constructor a theorem `forall args (all floats of the format / all u64), agrees (model args) (spec args)` "
    "(Props/C04.v: 44 theorems; LogNormal::from_mean_cv and Hypergeometric::new as sound_except + refuted with decidable known classes)",
    "hand-written models coq/Model/Guards.v of the validation code of 28 constructor entry points, tied to the code by (a) the regenerated "
    "fingerprints of every constructor function (Gen/Consts.v vs GenBase) and (b) correspondence on the special-value lattice cross product "
    "(model result = real result, debug build)",
    "documented domain coq/Model/GuardSpec.v written from the doc comments (DESIGN.md App. B); Unspecified regions listed there are not judged; "
    "the direct oracle evaluates this spec on every tuple against the REAL constructor result/panic, independently of the model",
    "libm functions feeding a decision (ln in LogNormal::from_mean_cv, powf/ln in Zipf::new) enter the theorems through explicit contracts; the "
    "executable model uses crude stand-ins for them (tuples where the stand-in matters are judged by the spec oracle only)",
]
ASSUMPTIONS = ["rustc/LLVM IEEE semantics", "constructors whose factorial loop would run > 16384 iterations (Hypergeometric HIN with huge N) are skipped"]

HEADER = ("From Coq Require Import String ZArith List Bool.\nFrom RD Require Import Model.Guards Model.GuardSpec Model.GuardIO.\n"
          "Import ListNotations.\nOpen Scope string_scope.\nOpen Scope Z_scope.\n")

CTORS = {  # name -> number of float args (None = special)
    "Normal::new": 2, "Normal::from_mean_cv": 2, "LogNormal::new": 2, "LogNormal::from_mean_cv": 2, "Exp::new": 1, "Gamma::new": 2,
    "ChiSquared::new": 1, "StudentT::new": 1, "FisherF::new": 2, "Beta::new": 2, "Pert::with_mode": 4, "Pert::with_mean": 4,
    "Triangular::new": 3, "Cauchy::new": 2, "Pareto::new": 2, "Weibull::new": 2, "InverseGaussian::new": 2, "Gumbel::new": 2,
    "Frechet::new": 3, "SkewNormal::new": 3, "NormalInverseGaussian::new": 2, "Poisson::new": 1, "Zeta::new": 1, "Zipf::new": 2,
}


def lattice(ty, rng, nrand):
    if ty == "f64":
        bits = lambda x: struct.unpack("<Q", struct.pack("<d", x))[0]
        sp = [0x7ff8000000000000, 0x7ff0000000000000, 0xfff0000000000000, 0, 0x8000000000000000, 1, 0x8000000000000001,
              0x000fffffffffffff, 0x0010000000000000, 0x7fefffffffffffff, 0xffefffffffffffff]
        big = [1e154, 2e154, 1e200, 1e300, 1.844e19, 1.8e19]
    else:
        bits = lambda x: struct.unpack("<I", struct.pack("<f", x))[0]
        sp = [0x7fc00000, 0x7f800000, 0xff800000, 0, 0x80000000, 1, 0x80000001, 0x007fffff, 0x00800000, 0x7f7fffff, 0xff7fffff]
        big = [1e19, 2e19, 1e30, 1.844e19, 3e38]
    vals = [1.0, -1.0, 0.5, 2.0, 0.1, 2.0 / 3.0, 12.0, 0.25, 4.0, 1e-3, 100.0, 3.0] + big
    out = list(sp)
    for v in vals:
        v = S.f_round(ty, v)
        out += [bits(v), bits(S.nextafter(ty, v, True)), bits(S.nextafter(ty, v, False))]
    out += [bits(S.f_round(ty, -x)) for x in (0.5, 2.0, 1e-3)]
    for _ in range(nrand):
        out.append(rng.u64() & (0xFFFFFFFF if ty == "f32" else 0xFFFFFFFFFFFFFFFF))
        out.append(bits(S.f_round(ty, S.sgn(rng) * S.logu(rng, 1e-6, 1e6))))
    seen, res = set(), []
    for b in out:
        if b not in seen:
            seen.add(b); res.append(b)
    return res


def exact_core(ty):
    """special values and the exact boundary constants of the documented domains (no neighbours)"""
    if ty == "f64":
        bits = lambda x: struct.unpack("<Q", struct.pack("<d", x))[0]
        sp = [0x7ff8000000000000, 0x7ff0000000000000, 0xfff0000000000000, 0, 0x8000000000000000, 1, 0x0010000000000000, 0x7fefffffffffffff]
    else:
        bits = lambda x: struct.unpack("<I", struct.pack("<f", x))[0]
        sp = [0x7fc00000, 0x7f800000, 0xff800000, 0, 0x80000000, 1, 0x00800000, 0x7f7fffff]
    return sp + [bits(S.f_round(ty, v)) for v in (1.0, -1.0, 0.5, 2.0, 0.1, 2.0 / 3.0, 12.0, 3.0, 1e-3, 100.0)]


def gen_tuples(ctx):
    rng, tier = ctx["rng"], ctx["tier"]
    cap = 1500 if tier == "quick" else 40000
    jobs = []   # (name, ty, [args as ints], [args as harness strings])
    for ty in ("f64", "f32"):
        lat = lattice(ty, rng, 4 if tier == "quick" else 40)
        core = lat[:24] if tier == "quick" else lat
        hexf = (lambda b: "%016x" % b) if ty == "f64" else (lambda b: "%08x" % b)
        for name, k in CTORS.items():
            pool = lat if k <= 2 else core
            total = len(pool) ** k
            if total <= cap:
                tuples = itertools.product(pool, repeat=k)
            else:
                tuples = [tuple(rng.choice(pool) for _ in range(k)) for _ in range(cap)]
                if k == 2:
                    # two-argument constructors: ALWAYS the full cross product of the special values with the exact
                    # documented boundary constants (so that pairs like (inf, 1.0) for Zipf do not depend on the draw)
                    tuples += list(itertools.product(exact_core(ty), repeat=2))
            for t in tuples:
                jobs.append((name, ty, list(t), [hexf(b) for b in t]))
        # Dirichlet: lengths 0..4 over a small pool
        dpool = core[:12]
        for n in range(0, 5):
            tl = list(itertools.product(dpool, repeat=n))
            if len(tl) > cap // 2: tl = [tuple(rng.choice(dpool) for _ in range(n)) for _ in range(cap // 2)]
            for t in tl:
                jobs.append(("Dirichlet::new", ty, list(t), [hexf(b) for b in t]))
    # integer constructors (f64 only)
    lat = lattice("f64", rng, 4)
    ints = [0, 1, 2, 3, 10, 1000, 2**32 - 1, 2**32 + 1, 2**53 - 1, 2**53 + 1, 2**62, 2**63 - 1, 2**63, 2**63 + 1, 2**64 - 2, 2**64 - 1]
    for n in ints:
        for p in lat:
            jobs.append(("Binomial::new", "f64", [n, p], [str(n), "%016x" % p]))
    for p in lat:
        jobs.append(("Geometric::new", "f64", [p], ["%016x" % p]))
    small = [0, 1, 2, 3, 5, 10, 40, 1000, 2**64 - 1, 2**64 - 2, 2**63, 2**63 - 1]
    for N in small:
        for K in small:
            for n in small:
                if max(N, K, n) > 2000 and not (K > N or n > N):
                    # valid triple with a huge population: the factorial loop of HIN would run ~N iterations; only the known-class
                    # panics (which happen before any loop) and H2PE cases are cheap - skip unless invalid
                    if not (N >= 2**63 and (K in (0, N) or K >= N - 1)):
                        continue
                jobs.append(("Hypergeometric::new", "f64", [N, K, n], [str(N), str(K), str(n)]))
    # valid triples with a large population whose mode is >= 10 after the reductions: the H2PE set-up (O(1), no factorial loop),
    # on both sides of 2^32 and 2^53 where products of population sizes leave the exactly representable integers
    for N in (2**20, 2**31 + 7, 2**32 - 1, 2**32 + 1, 2**33, 5 * 10**9, 2**40 + 3, 2**52 + 1, 2**53 + 2, 2**60 + 5):
        for K in (N // 2, N // 3, N - N // 3, N // 2 + 1):
            for n in (1000, 2**20 - 1, N // 2, N // 2 + 1, N - 1000):
                if K <= N and n <= N:
                    jobs.append(("Hypergeometric::new", "f64", [N, K, n], [str(N), str(K), str(n)]))
    return jobs


def weighted_ctor_oracle(ctx):
    """WeightedAliasIndex::new and WeightedTreeIndex::{new,push,update} are constructors of C04 too: their documented error
    conditions are checked on the real crate here (the full models and proofs are C08 / C09)."""
    import c08, treelib as T
    rng = ctx["rng"]
    fails, n = [], 0
    lines, meta = [], []
    for ty, (lo, hi, sk) in T.ITYPES.items():
        lens = [0, 1, 2, 3, 7]
        if hi < 2**16:                       # the length does not fit the weight type
            lens += [hi - 1, hi, hi + 1, hi + 2, 2 * hi + 3]
        for ln in lens:
            for fill in ("zero", "one_nonzero", "max", "over", "neg", "rand"):
                mw = hi // ln if ln and ln <= hi else 0
                if fill == "zero": ws = [0] * ln
                elif fill == "one_nonzero": ws = [0] * ln; ws[ln // 2:ln // 2 + 1] = [min(1, hi)] if ln else []
                elif fill == "max": ws = [mw] * ln
                elif fill == "over": ws = [0] * ln; ws[-1:] = [min(hi, mw + 1)] if ln else []
                elif fill == "neg":
                    if lo >= 0: continue
                    ws = [1] * ln; ws[:1] = [-1] if ln else []
                else: ws = [rng.below(mw + 1) for _ in range(ln)]
                lines.append("alias %s 0 %s" % (ty, ",".join(str(w) for w in ws) if ws else "-")); meta.append(("alias", ty, ws))
    for ty in T.ITYPES:
        for ops in T.exhaustive_histories(ty, 2, 1):
            lines.append(T.harness_line(ty, ops)); meta.append(("tree", ty, ops))
    outs = run_harness_guarded_parallel(ctx["binary"], lines, batch_timeout=300, line_timeout=20, chunk=200)
    for (kind, ty, x), line, o in zip(meta, lines, outs):
        n += 1
        if kind == "alias":
            exp = c08.spec_new(ty, x)
            got = o.split("|")[0]
            if got != exp:
                fails.append({"property": PID, "class": "weighted-ctor", "ctor": "WeightedAliasIndex::new", "type": ty, "harness_line": line[:300],
                              "what": "WeightedAliasIndex::<%s>::new(%d weights: %s…) returned %s, documented %s" % (ty, len(x), x[:6], got, exp)})
        else:
            if o in ("HANG",) or o.startswith("CRASH"):
                continue
            recs = [T.parse_rec(r) for r in o.split(";")]
            why = T.oracle_c09(ty, x, recs)
            if why:
                fails.append({"property": PID, "class": "weighted-ctor", "ctor": "WeightedTreeIndex", "type": ty, "harness_line": line[:300], "what": why})
    # float trees: NaN / negative weights must be refused by new, push and update (documented InvalidWeight); same oracle as C09
    import c09
    fl_lines, fl_cases = c09.float_histories(dict(ctx, tier="quick"))
    fl_lines, fl_cases = fl_lines[:120], fl_cases[:120]
    for line, (ty, ops), o in zip(fl_lines, fl_cases, run_harness_parallel(ctx["binary"], fl_lines)):
        n += 1
        why = c09.float_oracle(ty, ops, o)
        if why:
            fails.append({"property": PID, "class": "weighted-ctor", "ctor": "WeightedTreeIndex", "type": ty, "harness_line": line[:300], "what": why})
    return n, fails


def correspond(ctx):
    jobs = gen_tuples(ctx)
    lines = ["ctor %s %s %s" % (name, ty if name not in ("Binomial::new", "Geometric::new", "Hypergeometric::new") else "u64",
                                ",".join(hs) or "-") for name, ty, ints, hs in jobs]
    outs = run_harness_guarded_parallel(ctx["binary"], lines, batch_timeout=300, line_timeout=5, chunk=4000)
    coq_cases, idx = [], []
    hangs = 0
    outcome = {}
    for n, ((name, ty, ints, hs), o) in enumerate(zip(jobs, outs)):
        if o == "HANG" or o.startswith("CRASH"):
            hangs += 1; continue
        key = o.split(":")[0] + (":" + o.split(":")[1] if o.startswith("E:") else "")
        outcome[key] = outcome.get(key, 0) + 1
        if o.startswith("Ok"): code, var = 0, ""
        elif o.startswith("E:"): code, var = 1, o[2:]
        else: code, var = 2, ""
        coq_cases.append('gcase %s "%s" %s %d "%s"' % (blit(ty == "f64"), name, zlist(ints), code, var))
        idx.append(n)
    codes = c01.coq_eval_codes("C04", HEADER, coq_cases, shard=1200 if ctx["tier"] == "quick" else 3000)
    mismatches, oracle_failures = [], []
    # accessors of a successfully built value report the arguments it was built from (bit for bit, NaN payloads and signed zeros
    # included): Normal::{mean,std_dev}, SkewNormal::{location,scale,shape}, Dirichlet::sample_len; the weighted indices' len/get are
    # part of weighted_ctor_oracle below
    naccessor = 0
    for (name, ty, ints, hs), o, line in zip(jobs, outs, lines):
        if not o.startswith("Ok:"): continue
        got = o[3:].split(",")
        exp = None
        if name in ("Normal::new", "SkewNormal::new"):
            exp = ["x" + h for h in hs]
        elif name == "Normal::from_mean_cv":
            m, cv = S.bits_val(ty, hs[0]), S.bits_val(ty, hs[1])
            sd = cv * m                                # exact in binary64 for f32 operands; one rounding to the format
            try:
                sdr = S.f_round(ty, sd)
            except OverflowError:
                sdr = math.copysign(math.inf, sd)
            exp = ["x" + hs[0], "x" + S.f_bits(ty, sdr)]
            if sd != sd: exp[1] = got[1] if S.bits_val(ty, got[1][1:]) != S.bits_val(ty, got[1][1:]) else exp[1]   # any NaN
        elif name == "Dirichlet::new":
            exp = [str(len(hs))]
        if exp is None: continue
        naccessor += 1
        if got != exp:
            oracle_failures.append({"property": PID, "class": "accessor", "ctor": name, "type": ty, "args": hs, "harness_line": line,
                                    "what": "%s<%s>(%s): the accessors report %s, the value was built from %s" % (name, ty, hs, got, exp)})
    per = {}
    skipped_model = 0
    for n, code in zip(idx, codes):
        name, ty, ints, hs = jobs[n]
        m, s = code // 10, code % 10
        st = per.setdefault(name, {"tuples": 0, "model_mismatch": 0, "spec_violation": 0})
        st["tuples"] += 1
        if m == 3: skipped_model += 1
        libm_dependent = name in ("LogNormal::from_mean_cv", "Zipf::new")
        if m == 1 and not libm_dependent:
            st["model_mismatch"] += 1
            mismatches.append({"ctor": name, "type": ty, "args": hs, "harness_line": lines[n], "rust": outs[n]})
        if s == 1:
            st["spec_violation"] += 1
            vals = [S.bits_val(ty, h) if len(h) in (8, 16) and name not in ("Hypergeometric::new",) and not h.isdigit() else h for h in hs]
            cls = "ctor-domain"
            if name == "LogNormal::from_mean_cv" and outs[n] == "E:BadVariance":
                cv = S.bits_val(ty, hs[1])
                lim = 1.3407807929942596e154 if ty == "f64" else 1.8446743e19       # sqrt(MAX): cv*cv overflows above
                if math.isfinite(cv) and cv > lim: cls = "lognormal-cv-overflow"
            if name == "Hypergeometric::new" and outs[n] == "panic":
                N, K, nn = ints
                M = 2**64 - 1
                known1 = K <= N and nn <= N and K > N - K and nn > N // 2 and nn >= 2**63 and nn - (N - K) < 2**63
                known2 = N == M and K in (0, N) and nn in (0, N)
                if known1 or known2: cls = "hypergeometric-new-overflow"
            oracle_failures.append({"property": PID, "class": cls, "ctor": name, "type": ty, "args": hs, "harness_line": lines[n],
                                    "what": "%s<%s>(%s) returned %s, which the documented domain does not allow" % (name, ty, vals, outs[n])})
    nw, wfails = weighted_ctor_oracle(ctx)
    oracle_failures += wfails
    return {
        "evaluations": len(jobs) + nw, "distinct_nontrivial": len({(j[0], j[1], tuple(j[2])) for j in jobs}),
        "rule": "28 constructor entry points x {f32,f64}: cross product of the special-value lattice (NaN, +-inf, +-0, min/max subnormal and normal, "
                "1, +-1, 0.5, 2, 0.1, 2/3, 12, MAX_LAMBDA, overflow thresholds, each +-1 ulp, random bit patterns) per argument (sampled beyond the "
                "tier's cap per constructor), Dirichlet vectors of length 0-4, Binomial n and Hypergeometric N,K,n at the u64 extremes; for every "
                "tuple: real result vs Coq model (debug build) and real result vs documented spec (direct oracle)",
        "samples": [lines[0], lines[len(lines) // 2], lines[-1]],
        "mismatches": mismatches, "oracle_failures": oracle_failures,
        "extra": {"per_constructor": per, "outcomes": outcome, "watchdog_hangs": hangs, "tuples_without_model": skipped_model,
                  "weighted_constructor_cases": nw},
    }


def match_known(f, kf):
    for k in kf:
        if k.get("class") == f.get("class"):
            return k
    return None


def replay_known(ctx, k):
    w = k.get("witness", {})
    if "harness_line" not in w:
        return None
    out = run_harness_guarded(ctx["binary"], [w["harness_line"]], line_timeout=6)[0]
    if w.get("expect") and out.startswith(w["expect"]):
        return {"what": k["what"], "harness_line": w["harness_line"], "out": out}
    return None


def replay(ctx, obj):
    print("rust :", run_harness_guarded(ctx["binary"], [obj["harness_line"]], line_timeout=20)[0])
