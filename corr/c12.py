"""C12 — unit-geometry samplers are uniform on circle, disc, sphere and ball."""
import math
from common import *
import samplib as S
import multilib as M

PID = "C12"
LEVEL = "proof"
NEED_RELEASE = True
COQ_TARGETS = ["Props/C12.vo", "Props/C12_fp.vo"]
PROPS_FILES = ["C12", "C12_fp"]
THEOREMS = ["C12_fingerprints", "C12_circle_norm", "C12_sphere_norm", "C12_disc_ball_norm", "C12_circle_angle_doubling", "C12_sphere_z_linear",
            "C12_u_pm1_range", "C12_unit_circle_norm", "C12_unit_sphere_norm", "C12_unit_disc_norm", "C12_unit_ball_norm"]
TRUSTED_BASE = [
    "Coq 8.16.1 kernel; stdlib real axioms; Proofs/MultiProofs.v: norm identities of von Neumann's circle and Marsaglia's sphere transforms, "
    "angle doubling, z = 1 - 2s, lifted by induction over the rejection loop to every result of the models coq/Model/Multi.v; the uniform draw "
    "on [-1,1) is exact (k*2^-51 - 1)",
    "models tied to the code by pathwise correspondence on identical RNG words (rejection decisions, word counts, component enclosures)",
    "uniformity itself (uniform in the square restricted to the disc is uniform there; r^2 uniform => z uniform; doubling a uniform angle) is "
    "classical geometry not formalised here (B-class, DESIGN.md §8)",
    "direct oracle: |norm - 1| <= 4 ulp (circle, sphere), norm <= 1 + 2 ulp (disc, ball), no NaN, on random and single-word-adversarial streams",
]
ASSUMPTIONS = ["s = 0 (both draws exactly 0) needs two coincident words and is outside the quantifier (UnitCircle then returns NaN: noted in DESIGN.md)"]
FAMS = ["unitcircle", "unitdisc", "unitsphere", "unitball"]


def correspond(ctx):
    rng, tier = ctx["rng"], ctx["tier"]
    n = 150 if tier == "quick" else 4000
    jobs = []
    for fam in FAMS:
        for ty in ("f64", "f32"):
            for k in range(n):
                if k % 4 == 3:
                    words = S.adversarial_words(rng, 40, rng.below(4), rng.choice(S.LATTICE))
                else:
                    words = S.random_words(rng, 40)
                jobs.append((fam, ty, (), words))
    res = M.run(ctx, jobs, "C12")
    oracle_failures, mismatches = [], []
    stats = {"match": 0, "mismatch": 0, "unjudged": 0}
    maxdev = {}
    for (fam, ty, ps, words), r in zip(jobs, res):
        if r["vals"] is None:
            oracle_failures.append({"property": PID, "class": "unit-panic", "harness_line": r["line"][:300], "what": "%s<%s> returned %s" % (fam, ty, r["out"])})
            continue
        v = r["vals"]
        eps = 2.0 ** -23 if ty == "f32" else 2.0 ** -52
        if any(x != x for x in v):
            oracle_failures.append({"property": PID, "class": "unit-nan", "harness_line": r["line"][:300], "what": "%s<%s> returned NaN: %s" % (fam, ty, v)})
            continue
        nrm = math.sqrt(sum(x * x for x in v))
        dev = abs(nrm - 1.0) / eps
        if fam in ("unitcircle", "unitsphere"):
            maxdev[fam + "/" + ty] = max(maxdev.get(fam + "/" + ty, 0.0), dev)
            if dev > 4.0:
                oracle_failures.append({"property": PID, "class": "unit-norm", "harness_line": r["line"][:300],
                                        "what": "%s<%s>: norm %.17g deviates from 1 by %.1f ulp" % (fam, ty, nrm, dev)})
        elif nrm > 1.0 + 2 * eps:
            oracle_failures.append({"property": PID, "class": "unit-norm", "harness_line": r["line"][:300],
                                    "what": "%s<%s>: norm %.17g > 1" % (fam, ty, nrm)})
        c = r["code"]
        if c is not None:
            stats["match" if c == 0 else "mismatch" if c == 1 else "unjudged"] += 1
            if c == 1:
                mismatches.append({"family": fam, "type": ty, "harness_line": r["line"][:300], "rust": r["out"]})
    # bulk norm oracle on the real crate: events of probability ~1e-7 per f32 sample (both coordinates tiny) are reached
    nb = 10_000_000 if tier == "quick" else 100_000_000
    blines = []
    for fam in FAMS:
        for ty, k in (("f32", 10), ("f64", 2)):
            for j in range(k):
                blines.append("manyv %s %s - %x %d" % (fam, ty, rng.u64(), nb))
    bouts = run_harness_guarded_parallel(ctx["binary_release"], blines, batch_timeout=900, line_timeout=600, chunk=3)
    bulk = 0
    for line, o in zip(blines, bouts):
        if not o.startswith("n="):
            oracle_failures.append({"property": PID, "class": "unit-bulk", "harness_line": line, "what": "bulk run returned " + o}); continue
        f = dict(x.split("=", 1) for x in o.split(" "))
        bulk += int(f["n"])
        if int(f["bad"]) or int(f["nan"]):
            oracle_failures.append({"property": PID, "class": "unit-norm", "harness_line": line,
                                    "what": "%s: %s of %s seeded samples violate the norm constraint, %s NaN (first: %s)" % (line.split()[1] + "<" + line.split()[2] + ">", f["bad"], f["n"], f["nan"], f["first"])})
    return {
        "evaluations": len(jobs) + bulk, "distinct_nontrivial": len({(j[0], j[1], tuple(j[3][:4])) for j in jobs}),
        "rule": "4 samplers x {f32,f64} x word streams (3/4 random, 1/4 with one lattice word at a position < 4): real crate output vs Coq model "
                "(same words consumed, every component inside its enclosure) and the norm predicate on the real output; distinct by first 4 words",
        "samples": [res[0]["line"][:200], res[0]["out"]],
        "mismatches": mismatches, "oracle_failures": oracle_failures,
        "extra": {"model_vs_crate": stats, "max_norm_deviation_ulp": maxdev, "bulk_norm_samples": bulk},
    }


def replay(ctx, obj):
    print("rust :", run_harness(ctx["binary"], [obj["harness_line"]])[0])
