"""C12 — unit-geometry samplers are uniform on circle, disc, sphere and ball."""
import math
from common import *
import samplib as S
import multilib as M

PID = "C12"
LEVEL = "proof"
NEED_RELEASE = True
COQ_TARGETS = ["Props/C12.vo", "Props/C12_fp.vo", "Props/C12_events.vo", "Props/C12_fl.vo"]
PROPS_FILES = ["C12", "C12_fp", "C12_events", "C12_fl"]
THEOREMS = ["C12_unit_disc_accepts", "C12_unit_disc_rejects", "C12_unit_ball_accepts", "C12_unit_ball_rejects", "C12_unit_sphere_accepts", "C12_unit_sphere_rejects", "C12_unit_circle_accepts", "C12_unit_circle_rejects", "C12_fingerprints", "C12_circle_norm", "C12_sphere_norm", "C12_disc_ball_norm", "C12_circle_angle_doubling", "C12_sphere_z_linear",
            "C12_u_pm1_range", "C12_unit_circle_real", "C12_circle_origin_rejected", "C12_unit_circle_norm", "C12_unit_sphere_norm", "C12_unit_disc_norm", "C12_unit_ball_norm",
            "C12_accept_fl_def", "C12_disc_accept_fl_norm", "C12_ball_accept_fl_norm", "C12_disc_sum_fl_value", "C12_disc_accept_fl_complete", "C12_ball_accept_fl_complete", "C12_fl_source", "C12_sphere_fl_source", "C12_Btwo_correct", "C12_sphere_fl_finite", "C12_circle_fl_source", "C12_circle_c0_fl_unit"]
TRUSTED_BASE = [
    "Coq 8.16.1 kernel; stdlib real axioms; Proofs/MultiProofs.v: norm identities of von Neumann's circle and Marsaglia's sphere transforms, "
    "angle doubling, z = 1 - 2s, lifted by induction over the rejection loop to every result of the models coq/Model/Multi.v; the uniform draw "
    "on [-1,1) is exact (k*2^-51 - 1)",
    "Props/C12_fl.v (Flocq BinarySingleNaN; Proofs/UnitNormFl.v): the IEEE acceptance tests x1*x1 + x2*x2 [+ x3*x3] <= 1 of UnitDisc / UnitBall are "
    "overflow-free on [-1,1] coordinates and an accepted candidate has real squared norm <= 1 + 4u resp. 1 + 6u (u = 2^-prec), any binary format "
    "with prec >= 3, emax >= prec + 3; Flocq's model of IEEE-754 arithmetic is trusted to describe the hardware + and *",
    "models tied to the code by pathwise correspondence on identical RNG words (rejection decisions, word counts, component enclosures)",
    "uniformity itself (uniform in the square restricted to the disc is uniform there; r^2 uniform => z uniform; doubling a uniform angle) is "
    "classical geometry not formalised here (B-class, DESIGN.md §8)",
    "direct oracle: |norm - 1| <= 4 ulp (circle, sphere), norm <= 1 + 2 ulp (disc, ball), no NaN, on random and single-word-adversarial streams",
]
ASSUMPTIONS = ["UnitCircle returned [NaN, NaN] for the candidate (0,0) on the pinned tree: repaired by fix 4622ae6 (the origin is rejected); "
               "Props/C12.v now proves that every result of the model consists of real numbers (C12_unit_circle_real)"]
FAMS = ["unitcircle", "unitdisc", "unitsphere", "unitball"]


def r32(x):
    import struct
    return struct.unpack("<f", struct.pack("<f", x))[0]


def correspond(ctx):
    rng, tier = ctx["rng"], ctx["tier"]
    n = 150 if tier == "quick" else 4000
    jobs = []
    for fam in FAMS:
        for ty in ("f64", "f32"):
            for k in range(n):
                if k % 4 == 3:
                    words = S.adversarial_words(rng, 40, rng.below(4), rng.choice(S.LATTICE))
                else:
                    words = S.random_words(rng, 40)
                jobs.append((fam, ty, (), words))
    # crafted candidates: the first two (three) draws are chosen so that the candidate point lies next to the acceptance boundary
    # x1^2+x2^2(+x3^2) = 1 on both sides, at a grid of directions that contains the axes and the diagonals, or has a coordinate that is
    # exactly 0 / -1 / the largest draw (events of probability <= 2^-23 per draw that no seeded stream reaches)
    def word_for(ty, x):
        if ty == "f64":
            k = max(0, min(2 ** 52 - 1, int(round((x + 1.0) * 2.0 ** 51)))); return (k << 12) | rng.below(1 << 12)
        k = max(0, min(2 ** 23 - 1, int(round((x + 1.0) * 2.0 ** 22)))); return (k << 41) | rng.below(1 << 41)
    nang = 16 if tier == "quick" else 128
    deltas = [0.0, 2.0 ** -50, 2.0 ** -40, 1e-9, 2.0 ** -23, 2.0 ** -22, 1e-6, 2e-6, 3e-6, 1e-5, 1e-4, 1e-3]
    dirs2 = [(math.cos(2 * math.pi * j / nang), math.sin(2 * math.pi * j / nang)) for j in range(nang)]
    r2, r3 = math.sqrt(0.5), math.sqrt(1.0 / 3.0)
    dirs3 = [(a, b, 0.0) for a, b in dirs2[::2]] + [(a * r2 * math.sqrt(2) * r2, b * r2, r2) for a, b in dirs2[::2]] + \
            [(sx * r3, sy * r3, sz * r3) for sx in (1, -1) for sy in (1, -1) for sz in (1, -1)] + \
            [(sx * r2, 0.0, sz * r2) for sx in (1, -1) for sz in (1, -1)] + [(0.0, sy * r2, sz * r2) for sy in (1, -1) for sz in (1, -1)]
    specials = [0.0, -1.0, 1.0, 0.5, -0.5, 2.0 ** -22, -2.0 ** -22, 2.0 ** -51, 0.999999, -0.999999, 0.70710678, -0.70710678]
    crafted = 0
    for fam in FAMS:
        dim = 3 if fam == "unitball" else 2
        for ty in ("f64", "f32"):
            cands = []
            for d in (dirs3 if dim == 3 else dirs2):
                for dl in deltas:
                    for sg in (1.0, -1.0):
                        cands.append(tuple(c * (1.0 + sg * dl) for c in d))
            for a in specials:
                for b in specials:
                    cands.append((a, b) if dim == 2 else (a, b, specials[(len(cands)) % len(specials)]))
            for cand in cands:
                words = [word_for(ty, c) for c in cand] + S.random_words(rng, 40 - dim)
                jobs.append((fam, ty, (), words)); crafted += 1
    res = M.run(ctx, jobs, "C12")
    oracle_failures, mismatches = [], []
    stats = {"match": 0, "mismatch": 0, "unjudged": 0}
    accept_stats = {}
    maxdev = {}
    for (fam, ty, ps, words), r in zip(jobs, res):
        if r["vals"] is None:
            oracle_failures.append({"property": PID, "class": "unit-panic", "harness_line": r["line"][:300], "what": "%s<%s> returned %s" % (fam, ty, r["out"])})
            continue
        v = r["vals"]
        eps = 2.0 ** -23 if ty == "f32" else 2.0 ** -52
        if any(x != x for x in v):
            oracle_failures.append({"property": PID, "class": "unit-nan", "harness_line": r["line"][:300], "what": "%s<%s> returned NaN: %s" % (fam, ty, v)})
            continue
        nrm = math.sqrt(sum(x * x for x in v))
        dev = abs(nrm - 1.0) / eps
        if fam in ("unitcircle", "unitsphere"):
            maxdev[fam + "/" + ty] = max(maxdev.get(fam + "/" + ty, 0.0), dev)
            if dev > 4.0:
                oracle_failures.append({"property": PID, "class": "unit-norm", "harness_line": r["line"][:300],
                                        "what": "%s<%s>: norm %.17g deviates from 1 by %.1f ulp" % (fam, ty, nrm, dev)})
        elif nrm > 1.0 + 2 * eps:
            oracle_failures.append({"property": PID, "class": "unit-norm", "harness_line": r["line"][:300],
                                    "what": "%s<%s>: norm %.17g > 1" % (fam, ty, nrm)})
        # IEEE acceptance oracle (UnitDisc / UnitBall): the first candidate is x_i = k_i * 2^-51 - 1 (2^-22 in binary32), exact; the float test
        # fl(fl(x1*x1) + fl(x2*x2)) [+ fl(x3*x3)] <= 1 of Props/C12_fl.v (disc_accept_fl / ball_accept_fl) is recomputed here in IEEE arithmetic
        # (binary32 through binary64 with one rounding per operation: exact products, innocuous double rounding for +) and decides, boundary
        # cases included, whether the crate must return exactly that candidate
        if fam in ("unitdisc", "unitball"):
            dim = 3 if fam == "unitball" else 2
            rr = (lambda z: z) if ty == "f64" else r32
            xs = [((w >> 12) * 2.0 ** -51 - 1.0) if ty == "f64" else ((w >> 41) * 2.0 ** -22 - 1.0) for w in words[:dim]]
            ssum = rr(rr(xs[0] * xs[0]) + rr(xs[1] * xs[1]))
            if dim == 3:
                ssum = rr(ssum + rr(xs[2] * xs[2]))
            accept = ssum <= 1.0
            accept_stats[(fam, ty, accept, ssum == 1.0)] = accept_stats.get((fam, ty, accept, ssum == 1.0), 0) + 1
            same = [float(a) for a in v] == xs
            if accept != same:
                oracle_failures.append({"property": PID, "class": "unit-accept", "harness_line": r["line"][:300],
                                        "what": "%s<%s>: first candidate %s has float squared norm %.17g (%s 1): the IEEE test %s it, the crate returned %s"
                                                % (fam, ty, xs, ssum, "<=" if accept else ">", "accepts" if accept else "rejects", v)})
        c = r["code"]
        if c is not None:
            stats["match" if c == 0 else "mismatch" if c == 1 else "unjudged"] += 1
            if c == 1:
                mismatches.append({"family": fam, "type": ty, "harness_line": r["line"][:300], "rust": r["out"]})
    # bulk norm oracle on the real crate: events of probability ~1e-7 per f32 sample (both coordinates tiny) are reached
    nb = 10_000_000 if tier == "quick" else 100_000_000
    blines = []
    for fam in FAMS:
        for ty, k in (("f32", 10), ("f64", 2)):
            for j in range(k):
                blines.append("manyv %s %s - %x %d" % (fam, ty, rng.u64(), nb))
    bouts = run_harness_guarded_parallel(ctx["binary_release"], blines, batch_timeout=900, line_timeout=600, chunk=3)
    bulk = 0
    for line, o in zip(blines, bouts):
        if not o.startswith("n="):
            oracle_failures.append({"property": PID, "class": "unit-bulk", "harness_line": line, "what": "bulk run returned " + o}); continue
        f = dict(x.split("=", 1) for x in o.split(" "))
        bulk += int(f["n"])
        if int(f["bad"]) or int(f["nan"]):
            oracle_failures.append({"property": PID, "class": "unit-norm", "harness_line": line,
                                    "what": "%s: %s of %s seeded samples violate the norm constraint, %s NaN (first: %s)" % (line.split()[1] + "<" + line.split()[2] + ">", f["bad"], f["n"], f["nan"], f["first"])})
    return {
        "evaluations": len(jobs) + bulk, "distinct_nontrivial": len({(j[0], j[1], tuple(j[3][:4])) for j in jobs}),
        "rule": "4 samplers x {f32,f64} x word streams (3/4 random, 1/4 with one lattice word at a position < 4) plus crafted first candidates next to "
                "the acceptance boundary (direction grid incl. axes and diagonals x radii 1 +- {0, 2^-50 .. 1e-3}) and with coordinates exactly 0, -1, "
                "largest draw: real crate output vs Coq model "
                "(same words consumed, every component inside its enclosure) and the norm predicate on the real output; distinct by first 4 words",
        "samples": [res[0]["line"][:200], res[0]["out"]],
        "mismatches": mismatches, "oracle_failures": oracle_failures,
        "extra": {"crafted_boundary_candidates": crafted, "model_vs_crate": stats, "max_norm_deviation_ulp": maxdev, "bulk_norm_samples": bulk,
                  "ieee_accept_oracle": {"%s/%s/%s/%s" % (f, t, "accept" if a else "reject", "on-boundary" if b else "off-boundary"): n for (f, t, a, b), n in sorted(accept_stats.items())}},
    }


def replay(ctx, obj):
    print("rust :", run_harness(ctx["binary"], [obj["harness_line"]])[0])
