#!/bin/bash
# final confirmation of the round-5 seeded changes: every seeded/<id>-r3<x> patch applied to /repo itself, the registered quick
# checks named in its meta.json run from /verif, the patch undone; results written to seeded/<name>/result.txt and meta.json
cd /verif
for d in seeded/*-r5*; do
  name=$(basename $d)
  pf=/verif/$d/patch.diff
  checks=$(python3 -c "import json; print(' '.join(json.load(open('$d/meta.json'))['checks_run']))")
  git -C /repo status --short | grep -q . && { echo "/repo not clean"; exit 1; }
  git -C /repo apply $pf || { echo "$name: patch does not apply" | tee $d/result.txt; continue; }
  : > $d/result.txt
  for p in $checks; do
    rm -rf replays
    out=$(./check $p 2>&1 | grep -v "^KNOWN-FINDING" | tail -1)
    what=""
    if ls replays/$p-*.json >/dev/null 2>&1; then
      what=$(python3 -c "
import json,glob
r=json.load(open(sorted(glob.glob('/verif/replays/$p-*.json'))[0]))
print((r.get('what') or '; '.join('%s broken%s' % (b.get('kind'), (' (%s cases, first: %s)' % (b.get('count'), str((b.get('first') or [{}])[0].get('harness_line',''))[:100])) if b.get('count') else '') for b in r.get('broken',[])))[:400])")
    fi
    echo "$p: $out | $what" | tee -a $d/result.txt
  done
  rm -rf replays
  git -C /repo checkout -- .
  python3 - "$d" <<'PY'
import json,sys
d=sys.argv[1]
m=json.load(open(d+'/meta.json'))
m['caught_by']=[l.strip() for l in open(d+'/result.txt') if l.strip()]
m['checked']="tools/seed5_final.sh: patch applied to /repo itself, ./check <id> (quick tier) from /verif, patch undone"
json.dump(m,open(d+'/meta.json','w'),indent=1)
PY
done
./sync_gen
