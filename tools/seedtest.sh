#!/bin/bash
# run every claimed check under several seeds; report any non-OK
cd /verif
for s in "$@"; do
  for p in $(python3 -c "import json; print(' '.join(c['property_id'] for c in json.load(open('MANIFEST.json'))['checks']))"); do
    out=$(VERIF_SEED=$s ./check $p 2>&1 | grep -v KNOWN-FINDING | tail -2 | tr '\n' ' ')
    echo "seed=$s $p: $out"
  done
done
