#!/bin/bash
# usage: seed_run.sh <name> <check ids...> — apply seeded/<name>/patch.diff to /repo, run the checks, undo
name=$1; shift
cd /verif
git -C /repo apply /verif/seeded/$name/patch.diff || { echo "patch does not apply"; exit 1; }
for p in "$@"; do
  out=$(./check $p 2>&1 | grep -v "^KNOWN-FINDING" | tail -3 | tr '\n' ' ')
  echo "[$name] $p: $out"
  ls replays/$p-0.json >/dev/null 2>&1 && python3 -c "
import json; r=json.load(open('/verif/replays/$p-0.json')); print('   replay:', (r.get('what') or str([ (b.get('kind'), b.get('count'), (b.get('first') or [{}])[0].get('harness_line','')[:120]) for b in r.get('broken',[])]))[:400])"
  rm -rf replays
done
git -C /repo checkout -- .
