#!/bin/bash
# usage: seed_verify.sh <id> [name]  — confirm a candidate breaking change living in /tmp/mut/<id>:
#   suite passes with the change, demo fails with it, demo passes without it; then store it under /verif/seeded/<name>
id=$1; name=${2:-$1}; wt=/tmp/mut/$id
cd $wt || exit 1
export CARGO_NET_OFFLINE=true
git diff -- src > /tmp/mut/$id.patch
[ -s /tmp/mut/$id.patch ] || { echo "no source change"; exit 1; }
suite=$(cargo test --workspace --no-fail-fast --offline --lib --tests --exclude-from-test nothing 2>/dev/null | grep -E "^test result" | tr '\n' ' ')
suite=$(cargo test --workspace --no-fail-fast --offline 2>&1 | grep -E "^test result|FAILED" | grep -v demo_ | tr '\n' ' ')
with=$(cargo test --offline --test demo_$id 2>&1 | grep -E "^test result" | tr '\n' ' ')
git stash push -q -- src
without=$(cargo test --offline --test demo_$id 2>&1 | grep -E "^test result" | tr '\n' ' ')
git stash pop -q
echo "SUITE(with change, incl. demo file): $suite"
echo "DEMO with change   : $with"
echo "DEMO without change: $without"
mkdir -p /verif/seeded/$name
cp /tmp/mut/$id.patch /verif/seeded/$name/patch.diff
cp tests/demo_$id.rs /verif/seeded/$name/ 2>/dev/null
cp MUTATION.md /verif/seeded/$name/ 2>/dev/null
