#!/bin/bash
# usage: seed2_run.sh <patch file> <check ids...> — apply a patch to /repo, run the quick checks, undo
pf=$1; shift
cd /verif
git -C /repo status --short | grep -q . && { echo "/repo not clean"; exit 1; }
git -C /repo apply $pf || { echo "patch does not apply"; exit 1; }
for p in "$@"; do
  rm -rf replays
  out=$(./check $p 2>&1 | grep -v "^KNOWN-FINDING" | tail -3 | tr '\n' ' ')
  echo "[$pf] $p: $out"
  ls replays/$p-0.json >/dev/null 2>&1 && python3 -c "
import json; r=json.load(open('/verif/replays/$p-0.json')); print('   replay:', (r.get('what') or str([ (b.get('kind'), b.get('count'), str((b.get('first') or [{}])[0])[:200], str(b.get('log',''))[-300:]) for b in r.get('broken',[])]) or str(r))[:700])"
  rm -rf replays
done
git -C /repo checkout -- .
