#!/bin/bash
# usage: snap_run.sh <n> <patch file> <check ids...> — triage a patch in snapshot n
n=$1; pf=$2; shift 2
d=/root/snap/$n
git -C $d/repo checkout -q -- . ; git -C $d/repo apply $pf || { echo "[$pf] patch does not apply"; exit 1; }
cd $d/verif
for p in "$@"; do
  rm -rf replays
  out=$(./check $p 2>&1 | grep -v "^KNOWN-FINDING" | tail -3 | tr '\n' ' ')
  echo "[$pf] $p: $out"
  ls replays/$p-0.json >/dev/null 2>&1 && python3 -c "
import json; r=json.load(open('replays/$p-0.json')); print('   replay:', (r.get('what') or str([ (b.get('kind'), b.get('count'), str((b.get('first') or [{}])[0])[:200], str(b.get('log',''))[-300:]) for b in r.get('broken',[])]) or str(r))[:700])"
done
git -C $d/repo checkout -q -- .
