"""flprog — translate the libm-free floating-point expressions of chosen source sites into Flocq (BinarySingleNaN) programs.

The IEEE-level theorems (Props/C03_fl, C07_fl, C11_fl, C12_fl) are about hand-written Flocq programs.  This translator
re-derives those programs from /repo's current source on every run (Gen/FlProg.v); Props/*_fl.v prove by `reflexivity`
that the generated program IS the hand-written one, so a change of the arithmetic in the source (operator, operand,
order, comparison) breaks a proof obligation.

Translation (Rust expression over `F: Float` -> Coq term over `binary_float prec emax`, round to nearest even):
    a + b, a - b, a * b, a / b   ->  Bplus / Bminus / Bmult / Bdiv mode_NE a b        (left associative, usual precedence)
    -a                           ->  Bopp a
    a <= b, a < b                ->  Bleb a b, Bltb a b          (a >= b, a > b are swapped);   c && d  ->  andb c d
    self.f, self.g.f, local x    ->  variable f, g_f, x
    F::one(), F::from(1.).unwrap() -> Bone;  F::zero() -> B754_zero false;  F::infinity() -> B754_infinity false
    x.sqrt()                     ->  Bsqrt mode_NE x             (correctly rounded IEEE operation)
    let x = e; ... tail          ->  let x := e in ... tail ;   if c { a } else { b }  ->  if c then a else b
    any other method call on a value (ln, exp, powf, tan, recip ...)  ->  an opaque float variable opq<k>, numbered by first occurrence
Parameters of the generated definition are its variables in order of first occurrence.
A site that cannot be found or parsed yields `Definition src_<name> : unit := tt.` so that exactly the theorems about it break.
"""
import os
from rs2coq import tokenize, strip_tests, functions


class Unsupported(Exception):
    pass


# ---------------------------------------------------------------- expression parser (Pratt)
BIN = {"*": 6, "/": 6, "+": 5, "-": 5, "<=": 3, "<": 3, ">=": 3, ">": 3, "==": 3, "!=": 3, "&&": 2}


class P:
    def __init__(self, toks):
        self.t, self.i = toks, 0

    def peek(self, k=0):
        return self.t[self.i + k][1] if self.i + k < len(self.t) else None

    def kind(self):
        return self.t[self.i][0] if self.i < len(self.t) else None

    def eat(self, v=None):
        if self.i >= len(self.t) or (v is not None and self.t[self.i][1] != v):
            raise Unsupported("expected %r at token %d (%r)" % (v, self.i, self.peek()))
        self.i += 1
        return self.t[self.i - 1][1]

    def args(self):
        self.eat("(")
        a = []
        while self.peek() != ")":
            a.append(self.expr(0))
            if self.peek() == ",": self.eat(",")
        self.eat(")")
        return a

    def block(self):
        """`let` statements followed by a trailing expression, up to the closing brace / end of the tokens"""
        lets = []
        while self.peek() == "let":
            self.eat("let")
            if self.peek() == "mut": self.eat("mut")
            name = self.eat()
            if self.peek() == ":":                 # type annotation: skip to `=`
                while self.peek() != "=": self.eat()
            self.eat("=")
            lets.append((name, self.expr(0)))
            self.eat(";")
        tail = self.expr(0)
        return ("block", lets, tail) if lets else tail

    def primary(self):
        v = self.peek()
        if v == "if":
            self.eat("if")
            c = self.expr(0)
            self.eat("{"); a = self.block(); self.eat("}")
            self.eat("else")
            self.eat("{"); b = self.block(); self.eat("}")
            return ("if", c, a, b)
        if v == "(":
            self.eat("(")
            e = self.expr(0)
            self.eat(")")
        elif v == "-":
            self.eat("-")
            e = ("neg", self.unary())
            return e
        elif self.kind() == "num":
            e = ("num", self.eat())
            if self.peek() == "." and not (self.i + 1 < len(self.t) and self.t[self.i + 1][0] == "id"):
                self.eat(".")                   # `1.` is tokenised as `1` `.`
                e = ("num", e[1] + ".")
        elif self.kind() == "id":
            path = [self.eat()]
            while self.peek() == "::":
                self.eat("::")
                if self.peek() == "<":      # turbofish: not needed at the chosen sites
                    raise Unsupported("turbofish")
                path.append(self.eat())
            if self.peek() == "(" and (len(path) > 1 or path[0][0].isupper()):
                e = ("call", "::".join(path), self.args())
            elif len(path) == 1:
                e = ("var", path[0])
            else:
                e = ("path", "::".join(path))
        else:
            raise Unsupported("unexpected token %r" % (v,))
        # postfix
        while self.peek() == ".":
            self.eat(".")
            name = self.eat()
            if self.peek() == "(":
                e = ("mcall", e, name, self.args())
            else:
                e = ("field", e, name)
        return e

    def unary(self):
        return self.primary()

    def expr(self, minp):
        lhs = self.unary()
        while True:
            op = self.peek()
            if op not in BIN or BIN[op] < minp:
                return lhs
            self.eat()
            rhs = self.expr(BIN[op] + 1)
            lhs = ("bin", op, lhs, rhs)


def parse_all(toks):
    p = P(toks)
    e = p.block()
    if p.i != len(toks):
        raise Unsupported("trailing tokens %r" % (toks[p.i:p.i + 4],))
    return e


# ---------------------------------------------------------------- lowering to Flocq
class Lower:
    def __init__(self):
        self.params, self.opq, self.bound = [], {}, []

    def var(self, name):
        if name in self.bound:
            return name
        if name not in self.params:
            self.params.append(name)
        return name

    def opaque(self, e):
        key = repr(e)
        if key not in self.opq:
            self.opq[key] = "opq%d" % (len(self.opq) + 1)
        return self.var(self.opq[key])

    def go(self, e):
        k = e[0]
        if k == "var":
            return self.var(e[1])
        if k == "field":
            names, x = [e[2]], e[1]
            while x[0] == "field":
                names.append(x[2]); x = x[1]
            if x == ("var", "self"):              # self.f -> f ; self.g.f -> g_f
                return self.var("_".join(reversed(names)))
            return self.opaque(e)
        if k == "block":
            out, n = "", 0
            for name, rhs in e[1]:
                r = self.go(rhs)
                out += "(let %s := %s in " % (name, r); n += 1
                self.bound.append(name)
            out += self.go(e[2]) + ")" * n
            for _ in range(n): self.bound.pop()
            return out
        if k == "if":
            c = self.go(e[1])
            a = self.go(e[2])
            b = self.go(e[3])
            return "(if %s then %s else %s)" % (c, a, b)
        if k == "neg":
            return "(Bopp %s)" % self.go(e[1])
        if k == "bin":
            op, a, b = e[1], e[2], e[3]
            if op in (">=", ">"):
                op, a, b = {">=": "<=", ">": "<"}[op], b, a
            if op == "&&":
                x = self.go(a)
                y = self.go(b)
                return "(andb %s %s)" % (x, y)
            f = {"+": "Bplus mode_NE", "-": "Bminus mode_NE", "*": "Bmult mode_NE", "/": "Bdiv mode_NE", "<=": "Bleb", "<": "Bltb"}.get(op)
            if f is None:
                raise Unsupported("operator %s" % op)
            x = self.go(a)
            y = self.go(b)
            return "(%s %s %s)" % (f, x, y)
        if k == "call":
            if e[1] in ("F::one",) and not e[2]:
                return "(@Bone prec emax Hp Hpe)"
            if e[1] == "F::zero" and not e[2]:
                return "(B754_zero false)"
            if e[1] == "F::infinity" and not e[2]:
                return "(B754_infinity false)"
            raise Unsupported("call %s" % e[1])
        if k == "mcall":
            # F::from(1.).unwrap()
            if e[2] == "unwrap" and e[1][0] == "call" and e[1][1] == "F::from" and len(e[1][2]) == 1:
                a = e[1][2][0]
                neg = a[0] == "neg"
                if neg: a = a[1]
                if a[0] != "num":
                    raise Unsupported("F::from of a non-literal")
                lit = a[1].replace("_", "")
                if float(lit) == 1.0:
                    return "(Bopp (@Bone prec emax Hp Hpe))" if neg else "(@Bone prec emax Hp Hpe)"
                if float(lit) == 2.0 and not neg:
                    return "(Btwo prec emax Hp Hpe)"
                raise Unsupported("literal %s" % lit)
            if e[2] == "sqrt" and not e[3]:       # correctly rounded IEEE operation, not libm
                return "(Bsqrt mode_NE %s)" % self.go(e[1])
            return self.opaque(e)
        raise Unsupported("expression %r" % (e,))


# ---------------------------------------------------------------- site selection
def vals(toks):
    return [v for _, v in toks]


def split_depth0(toks, seps):
    """indices of separator tokens at bracket depth 0"""
    d, res = 0, []
    for i, (_, v) in enumerate(toks):
        if v in ("(", "[", "{"): d += 1
        elif v in (")", "]", "}"): d -= 1
        elif d == 0 and v in seps: res.append(i)
    return res


def sel_tail(body):
    """the trailing expression of a block: after the last `;` / `}` at depth 0"""
    cut = split_depth0(body, (";",))
    start = cut[-1] + 1 if cut else 0
    return body[start:]


def sel_if_stmt(kw):
    """condition of the statement `if <cond> { kw; }`"""
    def f(body):
        v = vals(body)
        for i in range(len(v)):
            if v[i] == "if":
                j, d = i + 1, 0
                while j < len(v) and not (d == 0 and v[j] == "{"):
                    if v[j] in ("(", "["): d += 1
                    elif v[j] in (")", "]"): d -= 1
                    j += 1
                if v[j:j + 4] == ["{", kw, ";", "}"]:
                    return body[i + 1:j]
        raise Unsupported("no `if … { %s; }`" % kw)
    return f


sel_if_break = sel_if_stmt("break")


def sel_return_elem(k):
    """k-th element of the array literal in `return [ … ];`"""
    def f(body):
        v = vals(body)
        for i in range(len(v) - 1):
            if v[i] == "return" and v[i + 1] == "[":
                j, d, start, elems = i + 2, 0, i + 2, []
                while not (d == 0 and v[j] == "]"):
                    if v[j] in ("(", "[", "{"): d += 1
                    elif v[j] in (")", "]", "}"): d -= 1
                    elif v[j] == "," and d == 0:
                        elems.append(body[start:j]); start = j + 1
                    j += 1
                if start < j: elems.append(body[start:j])
                return elems[k]
        raise Unsupported("no `return [ … ]`")
    return f


def sel_tail_elem(k):
    """k-th element of the array literal that is the trailing expression of the function body"""
    def f(body):
        t = sel_tail(body)
        v = vals(t)
        if not v or v[0] != "[" or v[-1] != "]":
            raise Unsupported("the trailing expression is not an array literal")
        inner = t[1:-1]
        cuts = split_depth0(inner, (",",))
        elems, start = [], 0
        for c in cuts + [len(inner)]:
            if start < c: elems.append(inner[start:c])
            start = c + 1
        return elems[k]
    return f


def sel_assign(lhs):
    def f(body):
        v = vals(body)
        n = len(lhs)
        for i in range(len(v) - n):
            if v[i:i + n] == lhs and v[i + n] == "=" and (i == 0 or v[i - 1] in (";", "{", "}", "let")):
                j = i + n + 1
                d = 0
                while j < len(v) and not (d == 0 and v[j] == ";"):
                    if v[j] in ("(", "[", "{"): d += 1
                    elif v[j] in (")", "]", "}"): d -= 1
                    j += 1
                return body[i + n + 1:j]
        raise Unsupported("no assignment to %s" % "".join(lhs))
    return f


def sel_field_init(name):
    """initialiser of field `name` in a struct literal: `{ …, name: <expr>, … }`"""
    def f(body):
        v = vals(body)
        for i in range(1, len(v) - 1):
            if v[i] == name and v[i + 1] == ":" and v[i - 1] in ("{", ","):
                j, d = i + 2, 0
                while j < len(v) and not (d == 0 and v[j] in (",", "}")):
                    if v[j] in ("(", "[", "{"): d += 1
                    elif v[j] in (")", "]", "}"): d -= 1
                    j += 1
                return body[i + 2:j]
        raise Unsupported("no field initialiser %s" % name)
    return f


def sel_block_tail_after(prefix, else_branch=False):
    """trailing expression of the first block `{ … }` that follows the token sequence `prefix` (or of its `else { … }` block)"""
    def block_end(v, j):
        d = 0
        while True:
            if v[j] == "{": d += 1
            elif v[j] == "}":
                d -= 1
                if d == 0: return j
            j += 1

    def f(body):
        v = vals(body)
        n = len(prefix)
        for i in range(len(v) - n):
            if v[i:i + n] == prefix and v[i + n] == "{":
                a = i + n
                j = block_end(v, a)
                if else_branch:
                    if v[j + 1:j + 3] != ["else", "{"]:
                        raise Unsupported("no else block after %s" % " ".join(prefix))
                    a = j + 2
                    j = block_end(v, a)
                return sel_tail_block(body[a + 1:j])
        raise Unsupported("no block after %s" % " ".join(prefix))
    return f


def sel_tail_block(inner):
    """trailing expression of a block whose statements may themselves be blocks (`if … { … }` without `;`)"""
    d, start = 0, 0
    v = vals(inner)
    for i, t in enumerate(v):
        if t in ("(", "[", "{"): d += 1
        elif t in (")", "]"): d -= 1
        elif t == "}":
            d -= 1
            if d == 0: start = i + 1
        elif t == ";" and d == 0: start = i + 1
    return inner[start:]


# (definition name, file under src/, impl-name substring, fn name, selector)
SITES = [
    ("normal_from_zscore", "normal.rs", "Normal", "from_zscore", sel_tail),
    ("normal_from_mean_cv_std_dev", "normal.rs", "Normal", "from_mean_cv", sel_assign(["std_dev"])),
    ("cauchy_sample", "cauchy.rs", "Cauchy", "sample", sel_tail),
    ("gumbel_sample", "gumbel.rs", "Gumbel", "sample", sel_tail),
    ("frechet_sample", "frechet.rs", "Frechet", "sample", sel_tail),
    ("unit_disc_accept", "unit_disc.rs", "UnitDisc", "sample", sel_if_break),
    ("unit_ball_accept", "unit_ball.rs", "UnitBall", "sample", sel_if_break),
    ("unit_circle_sum", "unit_circle.rs", "UnitCircle", "sample", sel_assign(["sum"])),
    ("unit_circle_accept", "unit_circle.rs", "UnitCircle", "sample", sel_if_break),
    ("unit_circle_diff", "unit_circle.rs", "UnitCircle", "sample", sel_assign(["diff"])),
    ("unit_circle_c0", "unit_circle.rs", "UnitCircle", "sample", sel_tail_elem(0)),
    ("unit_circle_c1", "unit_circle.rs", "UnitCircle", "sample", sel_tail_elem(1)),
    ("unit_sphere_sum", "unit_sphere.rs", "UnitSphere", "sample", sel_assign(["sum"])),
    ("unit_sphere_reject", "unit_sphere.rs", "UnitSphere", "sample", sel_if_stmt("continue")),
    ("unit_sphere_factor", "unit_sphere.rs", "UnitSphere", "sample", sel_assign(["factor"])),
    ("unit_sphere_x", "unit_sphere.rs", "UnitSphere", "sample", sel_return_elem(0)),
    ("unit_sphere_y", "unit_sphere.rs", "UnitSphere", "sample", sel_return_elem(1)),
    ("unit_sphere_z", "unit_sphere.rs", "UnitSphere", "sample", sel_return_elem(2)),
    ("dirichlet_stick_out", "multi/dirichlet.rs", "DirichletFromBeta", "sample_to_slice", sel_assign(["*", "s"])),
    ("dirichlet_stick_acc", "multi/dirichlet.rs", "DirichletFromBeta", "sample_to_slice", sel_assign(["acc"])),
    ("triangular_sample", "triangular.rs", "Triangular", "sample", lambda body: body),
    ("pert_sample", "pert.rs", "Pert", "sample", sel_tail),
    ("pert_range", "pert.rs", "PertBuilder", "with_mode", sel_assign(["range"])),
    ("pert_v", "pert.rs", "PertBuilder", "with_mode", sel_assign(["v"])),
    ("pert_w", "pert.rs", "PertBuilder", "with_mode", sel_assign(["w"])),
    ("exp_new_lambda_inverse", "exponential.rs", "Exp", "new", sel_field_init("lambda_inverse")),
    ("weibull_new_inv_shape", "weibull.rs", "Weibull", "new", sel_field_init("inv_shape")),
    ("pareto_new_inv_neg_shape", "pareto.rs", "Pareto", "new", sel_field_init("inv_neg_shape")),
    ("exp_sample", "exponential.rs", "Exp", "sample", sel_tail),
    ("weibull_sample", "weibull.rs", "Weibull", "sample", sel_tail),
    ("pareto_sample", "pareto.rs", "Pareto", "sample", sel_tail),
    ("gamma_large_sample", "gamma.rs", "GammaLargeShape", "sample", sel_tail),
    ("gamma_small_sample", "gamma.rs", "GammaSmallShape", "sample", sel_tail),
    ("beta_final_plain", "beta.rs", "Beta", "sample", sel_block_tail_after(["if", "!", "self", ".", "switched_params"])),
    ("beta_final_switched", "beta.rs", "Beta", "sample", sel_block_tail_after(["if", "!", "self", ".", "switched_params"], else_branch=True)),
]

HEADER = """(* GENERATED by tools/rs2coq.py (tools/flprog.py) from src/**/*.rs — do not edit.
   The libm-free floating-point expressions of the listed source sites as Flocq programs; method calls on values are opaque
   float variables opq<k>; parameters in order of first occurrence. *)
From Coq Require Import ZArith Bool.
From Flocq Require Import Core.Core IEEE754.BinarySingleNaN.
From RD Require Import Proofs.FlConst.
"""


def find_fn(repo, rel, impl_sub, fn, cache={}):
    p = os.path.join(repo, "src", rel)
    if p not in cache:
        cache[p] = functions(tokenize(strip_tests(open(p).read())))
    hits = [(impl, body) for impl, name, sig, body in cache[p] if name == fn and (impl == impl_sub or impl.startswith(impl_sub + "_"))]
    if len(hits) != 1:
        # prefer the Distribution impl when several impls of the type define the function
        hits2 = [h for h in hits if "Distribution" in h[0]]
        if len(hits2) == 1:
            return hits2[0][1]
        raise Unsupported("%d candidates for %s::%s in %s" % (len(hits), impl_sub, fn, rel))
    return hits[0][1]


def gen_flprog(repo):
    out = [HEADER]
    report = []
    for name, rel, impl_sub, fn, sel in SITES:
        try:
            body = find_fn(repo, rel, impl_sub, fn, {})
            toks = sel(body)
            ast = parse_all(toks)
            lo = Lower()
            term = lo.go(ast)
            is_bool = ast[0] == "bin" and ast[1] in ("<=", "<", ">=", ">", "&&")
            params = " ".join(lo.params)
            out.append("(* src/%s %s::%s :  %s *)" % (rel, impl_sub, fn, " ".join(vals(toks)).replace("*)", "* )")))
            out.append("Definition src_%s (prec emax : Z) (Hp : Prec_gt_0 prec) (Hpe : Prec_lt_emax prec emax)%s : %s :=\n  %s.\n"
                       % (name, (" (%s : binary_float prec emax)" % params) if params else "", "bool" if is_bool else "binary_float prec emax", term))
            report.append((name, "ok"))
        except (Unsupported, OSError, IndexError, ValueError) as e:
            out.append("(* src/%s %s::%s : NOT TRANSLATED: %s *)" % (rel, impl_sub, fn, str(e).replace("*)", "* )")))
            out.append("Definition src_%s : unit := tt.\n" % name)
            report.append((name, "untranslated: %s" % e))
    return "\n".join(out), report


if __name__ == "__main__":
    import sys
    text, rep = gen_flprog(sys.argv[1] if len(sys.argv) > 1 else "/repo")
    print(text)
    for r in rep:
        print("(* %s: %s *)" % r)
