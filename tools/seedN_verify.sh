#!/bin/bash
# usage: seed3_verify.sh <Cxx> <A|B> [feature args for the demo]
# confirm a round-3 candidate from ${MUT:-/tmp/mut3}/<id>.out/<X>: suite passes with the change, demo fails with it, passes without it
id=$1; x=$2; shift 2; feat="$*"
wt=${MUT:-/tmp/mut3}/$id; out=${MUT:-/tmp/mut3}/$id.out/$x
cd $wt || exit 1
export CARGO_NET_OFFLINE=true
git checkout -q -- . ; rm -f tests/demo*.rs
git apply $out/patch.diff || { echo "PATCH DOES NOT APPLY"; exit 1; }
suite=$(cargo test --workspace --no-fail-fast --offline 2>&1 | grep -E "^test result|FAILED|^error" | tr '\n' ' ')
cp $out/demo.rs tests/demo.rs
with=$(timeout 900 cargo test --offline $feat --test demo 2>&1 | grep -E "^test result|^error" | tr '\n' ' ')
git checkout -q -- src
without=$(timeout 900 cargo test --offline $feat --test demo 2>&1 | grep -E "^test result|^error" | tr '\n' ' ')
rm -f tests/demo.rs
echo "SUITE with change : $suite"
echo "DEMO with change  : $with"
echo "DEMO without      : $without"
