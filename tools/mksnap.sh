#!/bin/bash
# usage: mksnap.sh <n> — private copy of /verif (with build output) and of /repo under /root/snap/<n>, paths re-pointed,
# so that seeded changes can be triaged without touching /repo or the Coq files being edited in /verif.
# (Triage only: results that are recorded come from /verif run against /repo itself.)
n=$1; d=/root/snap/$n
rm -rf $d; mkdir -p $d
rsync -a --exclude .git --exclude replays /verif/ $d/verif/
git clone -q /repo $d/repo
sed -i "s#\"/repo\"#\"$d/repo\"#" $d/verif/corr/common.py $d/verif/tools/rs2coq.py $d/verif/harness/Cargo.toml
sed -i "s#/verif/build/harness-target#$d/verif/build/harness-target#" $d/verif/harness/.cargo/config.toml
echo "snapshot $d ready"
