#!/usr/bin/env python3
"""store the verified round-5 candidates of /tmp/mut5/<id>.out/<X> as seeded/<id>-r5<x>/ (patch.diff, demo.rs, NOTES.md, meta.json)"""
import json, os, shutil, sys, re
CHECKS = {l.split()[0] + l.split()[1]: l.split()[2:] for f in ("/root/seed5logs/jobs.txt",) for l in open(f) if l.strip()}
for key, checks in sorted(CHECKS.items()):
    pid, x = key[:3], key[3]
    src = "/tmp/mut5/%s.out/%s" % (pid, x)
    dst = "/verif/seeded/%s-r5%s" % (pid, x.lower())
    os.makedirs(dst, exist_ok=True)
    for f in ("patch.diff", "demo.rs", "NOTES.md", "demo.txt"):
        if os.path.exists(os.path.join(src, f)): shutil.copy(os.path.join(src, f), os.path.join(dst, f))
    ver = open("/root/seed5logs/verify_%s_%s.log" % (pid, x)).read().strip().split("\n")
    notes = open(os.path.join(src, "NOTES.md")).read()
    files = sorted(set(re.findall(r"^\+\+\+ b/(\S+)", open(os.path.join(src, "patch.diff")).read(), re.M)))
    meta = {
        "breaks_property": pid, "round": 5, "change": "see NOTES.md; files: " + ", ".join(files),
        "needs_to_manifest": "see NOTES.md (written by the sub-agent)",
        "checks_run": checks,
        "base_commit": "bff3353",
        "confirmed": "MUT=/tmp/mut5 tools/seedN_verify.sh %s %s%s: existing suite (142+19 unit/integration, 37 doc tests) passes with the change; the demo (which prints rather than asserts) was run with --nocapture with and without the change and its output differs (demo.txt is the sub-agent's side-by-side record)"
                     % (pid, x, " --features serde" if pid == "C15" else ""),
        "confirmation_log": ver,
        "source": "independent sub-agent given only the property record and a scratch worktree (round 5; three candidates aimed at the code covered by the IEEE-level theorems and the translator)",
    }
    json.dump(meta, open(os.path.join(dst, "meta.json"), "w"), indent=1)
print("stored", len(CHECKS))
