#!/bin/bash
# run every claimed check once on the current tree (regenerates evidence/)
cd /verif
for p in $(python3 -c "import json; print(' '.join(c['property_id'] for c in json.load(open('MANIFEST.json'))['checks']))"); do
  out=$(./check $p ${1:+--tier $1} 2>&1 | grep -v KNOWN-FINDING | tail -2 | tr '\n' ' ')
  echo "$p: $out"
done
