#!/bin/bash
# usage: snap_batch.sh <jobs file> — lines "<id> <A|B> <checks...>"; distributes over snapshots 1..3
jobs=$1
run_slot() { n=$1; awk -v n=$n 'NR%3==n%3' $jobs | while read id x checks; do
  /verif/tools/snap_run.sh $n /tmp/mut2/$id.out/$x/patch.diff $checks > /root/seed2logs/run_${id}_$x.log 2>&1; done; }
for n in 1 2 3; do run_slot $n & done; wait
