#!/usr/bin/env python3
"""rs2coq — regenerates coq/Gen/*.v from /repo's current source on every run.

  ZigTables.v  the four 257-entry ziggurat tables and the two tail constants, each entry as the
               exact rational the decimal literal denotes AND the binary64 value it rounds to
  Consts.v     per function of src/: a fingerprint (hash of the comment/whitespace/variable-name
               insensitive token stream: literals, operators, calls, type names, keywords) and the
               ordered list of numeric literals as exact rationals
  Sigs.v       purity facts: receiver kinds of every sample method, crate attributes, tokens naming
               interior mutability / statics
  TyDesc.v     serde descriptions of every Serialize/Deserialize type
Files are rewritten only when their content changes (so `make` rebuilds only what the source touched).
usage: rs2coq.py [--repo /repo] [--out DIR]
"""
import sys, os, re, hashlib, json, struct
from fractions import Fraction

REPO = "/repo"
OUT = os.path.join(os.path.dirname(os.path.dirname(os.path.abspath(__file__))), "coq", "Gen")

TOK = re.compile(r"""
  (?P<ws>\s+)
 |(?P<lc>//[^\n]*)
 |(?P<bc>/\*.*?\*/)
 |(?P<str>b?"(?:\\.|[^"\\])*")
 |(?P<chr>'(?:\\.|[^'\\])')
 |(?P<life>'[A-Za-z_]\w*)
 |(?P<num>(?:0x[0-9a-fA-F_]+|0b[01_]+|\d[\d_]*(?:\.\d[\d_]*)?(?:[eE][+-]?\d+)?)(?:_?(?:f32|f64|u8|u16|u32|u64|u128|usize|i8|i16|i32|i64|i128|isize))?)
 |(?P<id>[A-Za-z_]\w*)
 |(?P<op><<=|>>=|\.\.=|\.\.\.|::|->|=>|<=|>=|==|!=|&&|\|\||<<|>>|\+=|-=|\*=|/=|%=|\^=|&=|\|=|\.\.|[-+*/%^!&|<>=@.,;:#$?~(){}\[\]])
""", re.X | re.S)

KEYWORDS = {"if", "else", "loop", "while", "for", "return", "continue", "break", "match", "as", "let", "mut",
            "fn", "impl", "struct", "enum", "pub", "where", "in", "ref", "static", "const", "unsafe", "mod", "use", "trait", "type"}


def tokenize(src):
    toks = []
    pos = 0
    while pos < len(src):
        m = TOK.match(src, pos)
        if not m:
            raise ValueError("cannot tokenize at %d: %r" % (pos, src[pos:pos + 40]))
        k = m.lastgroup
        if k not in ("ws", "lc", "bc"):
            toks.append((k, m.group(k)))
        pos = m.end()
    return toks


def strip_tests(src):
    """drop `#[cfg(test)] mod … { … }` blocks"""
    out = src
    while True:
        m = re.search(r"#\[cfg\(test\)\]\s*(?:#\[[^\]]*\]\s*)*mod\s+\w+\s*\{", out)
        if not m:
            return out
        i = m.end()
        depth = 1
        while depth and i < len(out):
            c = out[i]
            if c == "{": depth += 1
            elif c == "}": depth -= 1
            i += 1
        out = out[:m.start()] + out[i:]


def match_brace(toks, i):
    """toks[i] is '{' -> index of the matching '}'"""
    depth = 0
    while i < len(toks):
        if toks[i][1] == "{": depth += 1
        elif toks[i][1] == "}":
            depth -= 1
            if depth == 0:
                return i
        i += 1
    raise ValueError("unbalanced braces")


def functions(toks):
    """yield (impl_name, fn_name, signature_tokens, body_tokens) for every fn with a body"""
    res = []

    def walk(lo, hi, ctx):
        i = lo
        while i < hi:
            k, v = toks[i]
            if k == "id" and v in ("impl", "trait", "mod"):
                # find the '{' of this block (skipping generics / where clauses)
                j = i + 1
                name_toks = []
                depth = 0
                while j < hi and not (depth == 0 and toks[j][1] in ("{", ";")):
                    if toks[j][1] in ("[", "("): depth += 1
                    elif toks[j][1] in ("]", ")"): depth -= 1
                    name_toks.append(toks[j]); j += 1
                if j < hi and toks[j][1] == "{":
                    e = match_brace(toks, j)
                    nm = impl_name(v, name_toks)
                    walk(j + 1, e, ctx + [nm] if nm else ctx)
                    i = e + 1
                    continue
                i = j + 1
                continue
            if k == "id" and v == "fn" and i + 1 < hi and toks[i + 1][0] == "id":
                name = toks[i + 1][1]
                j = i + 2
                depth = 0
                while j < hi and not (depth == 0 and toks[j][1] in ("{", ";")):
                    if toks[j][1] in ("[", "("): depth += 1
                    elif toks[j][1] in ("]", ")"): depth -= 1
                    j += 1
                if j < hi and toks[j][1] == "{":
                    e = match_brace(toks, j)
                    res.append((".".join(ctx), name, toks[i:j], toks[j + 1:e]))
                    walk(j + 1, e, ctx + [name])   # nested fns (pdf, zero_case, …)
                    i = e + 1
                    continue
                i = j + 1
                continue
            if k == "id" and v == "macro_rules":
                j = i
                while j < hi and toks[j][1] != "{": j += 1
                if j < hi:
                    e = match_brace(toks, j)
                    res.append((".".join(ctx), "macro_" + toks[i + 2][1], [], toks[j + 1:e]))
                    i = e + 1
                    continue
            i += 1

    walk(0, len(toks), [])
    return res


def impl_name(kind, name_toks):
    ids = [v for k, v in name_toks if k == "id"]
    if kind == "mod":
        return ids[0] if ids else None
    # impl<…> Trait<…> for Type<…>  /  impl<…> Type<…>
    txt = [v for k, v in name_toks]
    # strip leading generic parameter list
    depth, out = 0, []
    started = False
    for t in txt:
        if not started and t == "<" and not out:
            depth += 1; continue
        if depth and not started:
            if t == "<": depth += 1
            elif t == ">":
                depth -= 1
                if depth == 0: started = True
            continue
        started = True
        out.append(t)
    if "where" in out:
        out = out[:out.index("where")]
    s = "".join(out)
    s = re.sub(r"<[^<>]*>", "", s)
    s = re.sub(r"<[^<>]*>", "", s)
    if "for" in out:
        # Trait for Type
        a = "".join(out[:out.index("for")]); b = "".join(out[out.index("for") + 1:])
        a = re.sub(r"<.*", "", a); b = re.sub(r"<.*", "", b)
        tr = a.split("::")[-1]
        inner = re.search(r"Distribution<([^<>]*)>", "".join(out[:out.index("for")]))
        suffix = ("_" + inner.group(1)) if inner and inner.group(1) not in ("F",) else ""
        return "%s_%s%s" % (b.split("::")[-1], tr, re.sub(r"\W", "", suffix))
    return re.sub(r"\W.*", "", s.split("::")[-1]) or None


def num_value(lit):
    """numeric literal -> Fraction (or None for hex/binary handled as ints)"""
    s = lit.replace("_", "")
    s = re.sub(r"(f32|f64|u8|u16|u32|u64|u128|usize|i8|i16|i32|i64|i128|isize)$", "", s)
    if s.startswith("0x"): return Fraction(int(s[2:], 16))
    if s.startswith("0b"): return Fraction(int(s[2:], 2))
    try:
        return Fraction(s)
    except Exception:
        return None


PRIM_TYPES = {"f32", "f64", "u8", "u16", "u32", "u64", "u128", "usize", "i8", "i16", "i32", "i64", "i128", "isize", "bool", "char", "str"}


def fingerprint_tokens(body):
    """normalised token stream: literals by value, operators, keywords, called names and capitalised names verbatim,
    primitive type names verbatim; every other lowercase identifier (local variable, field, parameter) is replaced by its
    first-occurrence number within the function, so that a consistent renaming is invisible but using one variable in
    the place of another (u for v, lambda_l for lambda_r) is not"""
    keep = []
    n = len(body)
    seen = {}
    for i, (k, v) in enumerate(body):
        if k == "num":
            f = num_value(v)
            keep.append("#%s" % (f if f is not None else v))
        elif k == "op":
            if v in ("(", ")", "{", "}", "[", "]", ",", ";", ":", "::", ".", "#", "$", "=>", "->", "?"):
                continue
            keep.append(v)
        elif k == "id":
            nxt = body[i + 1][1] if i + 1 < n else ""
            prv = body[i - 1][1] if i > 0 else ""
            if v in KEYWORDS:
                if v in ("let", "mut", "pub", "ref"): continue
                keep.append(v)
            elif nxt in ("(", "!") or (nxt == "::" and i + 2 < n and body[i + 2][1] == "<"):
                keep.append(v + "()")
            elif v[0].isupper() or v in PRIM_TYPES:
                keep.append(v)
            else:
                # lowercase identifiers that are not called: local variable / field names -> first-occurrence index
                if v not in seen:
                    seen[v] = len(seen)
                keep.append("v%d" % seen[v])
        elif k in ("str", "chr"):
            continue
    return keep


def coq_ident(s):
    return re.sub(r"\W", "_", s)


def zlit(n):
    return str(n) if n >= 0 else "(%d)" % n


def write_if_changed(path, text):
    old = open(path).read() if os.path.exists(path) else None
    if old != text:
        with open(path, "w") as fh:
            fh.write(text)
        return True
    return False


def f64_dyadic(x):
    """binary64 value -> (m, e) with x = m * 2^e exactly"""
    if x == 0.0:
        return (0, 0)
    bits = struct.unpack("<Q", struct.pack("<d", x))[0]
    sign = -1 if bits >> 63 else 1
    ex = (bits >> 52) & 0x7FF
    fr = bits & ((1 << 52) - 1)
    if ex == 0:
        m, e = fr, -1074
    else:
        m, e = fr | (1 << 52), ex - 1075
    while m % 2 == 0 and m:
        m //= 2; e += 1
    return (sign * m, e)


# ------------------------------------------------------------------ generators
def gen_zigtables(repo):
    src = open(os.path.join(repo, "src", "ziggurat_tables.rs")).read()
    out = ["(* GENERATED by tools/rs2coq.py from src/ziggurat_tables.rs — do not edit *)",
           "From Coq Require Import ZArith List.", "Import ListNotations.", "Open Scope Z_scope.", "",
           "(* each entry: (numerator, power-of-ten exponent k) meaning numerator / 10^k — the decimal literal;",
           "   and (m, e) meaning m * 2^e — the binary64 value the literal rounds to (round-to-nearest-even) *)"]
    names = []
    for m in re.finditer(r"pub\s+(?:static|const)\s+(\w+)\s*:\s*([^=]+)=\s*(\[[^;]*\]|[^;]+);", src, re.S):
        name, ty, val = m.group(1), m.group(2).strip(), m.group(3).strip()
        if name == "ZigTable":
            continue
        lits = re.findall(r"-?\d[\d_]*\.?\d*(?:[eE][+-]?\d+)?", val) if val.startswith("[") else [val.strip()]
        decs, dys = [], []
        for l in lits:
            l = l.replace("_", "")
            fr = Fraction(l)
            # decimal as numerator / 10^k
            if "." in l and "e" not in l.lower():
                k = len(l.split(".")[1])
            else:
                k = 0
                while (fr * 10**k).denominator != 1: k += 1
            decs.append((int(fr * 10**k), k))
            dys.append(f64_dyadic(float(l)))
        names.append(name)
        if val.startswith("["):
            out.append("Definition %s_dec : list (Z * Z) := [\n  %s].\n" % (
                name, ";\n  ".join("(%s, %d)" % (zlit(a), b) for a, b in decs)))
            out.append("Definition %s : list (Z * Z) := [\n  %s].\n" % (
                name, ";\n  ".join("(%s, %s)" % (zlit(a), zlit(b)) for a, b in dys)))
        else:
            out.append("Definition %s_dec : Z * Z := (%s, %d)." % (name, zlit(decs[0][0]), decs[0][1]))
            out.append("Definition %s : Z * Z := (%s, %s).\n" % (name, zlit(dys[0][0]), zlit(dys[0][1])))
    return "\n".join(out) + "\n"


def all_functions(repo):
    res = []
    srcdir = os.path.join(repo, "src")
    for root, dirs, files in os.walk(srcdir):
        for f in sorted(files):
            if not f.endswith(".rs"):
                continue
            p = os.path.join(root, f)
            rel = os.path.relpath(p, srcdir)
            src = strip_tests(open(p).read())
            toks = tokenize(src)
            for impl, name, sig, body in functions(toks):
                res.append((rel, impl, name, sig, body))
    return res


def gen_consts(repo):
    out = ["(* GENERATED by tools/rs2coq.py from src/**/*.rs — do not edit *)",
           "From Coq Require Import ZArith List String.", "Import ListNotations.", "Open Scope Z_scope.", "",
           "(* fp_<file>__<impl>__<fn> : 60-bit hash of the normalised token stream of the function body",
           "   lits_… : its numeric literals in order, as (numerator, denominator) *)"]
    seen = {}
    index = []
    for rel, impl, name, sig, body in all_functions(repo):
        base = coq_ident("%s__%s__%s" % (rel[:-3], impl, name))
        seen[base] = seen.get(base, 0) + 1
        if seen[base] > 1:
            base += "_%d" % seen[base]
        fp = fingerprint_tokens(body)
        h = int(hashlib.sha256(" ".join(fp).encode()).hexdigest()[:15], 16)
        lits = []
        for k, v in body:
            if k == "num":
                f = num_value(v)
                if f is not None:
                    lits.append((f.numerator, f.denominator))
        out.append("Definition fp_%s : Z := %d." % (base, h))
        out.append("Definition lits_%s : list (Z * Z) := [%s]." % (base, "; ".join("(%s, %d)" % (zlit(a), b) for a, b in lits)))
        index.append((base, h))
    out.append("")
    out.append("Definition all_fps : list (string * Z) := [\n  %s]." % ";\n  ".join('("%s"%%string, %d)' % (b, h) for b, h in index))
    return "\n".join(out) + "\n", index


PURITY_BAD = ["Cell", "RefCell", "UnsafeCell", "OnceCell", "LazyCell", "LazyLock", "OnceLock", "Mutex", "RwLock",
              "AtomicBool", "AtomicU8", "AtomicU16", "AtomicU32", "AtomicU64", "AtomicUsize", "AtomicI8", "AtomicI16",
              "AtomicI32", "AtomicI64", "AtomicIsize", "AtomicPtr", "thread_local", "static_mut", "Rc", "Arc",
              "lazy_static", "unsafe"]


def gen_sigs(repo):
    srcdir = os.path.join(repo, "src")
    lib = open(os.path.join(srcdir, "lib.rs")).read()
    forbid = bool(re.search(r"#!\[forbid\(unsafe_code\)\]", lib))
    samplers = []      # (file, impl, fn, receiver)
    bad = []           # (file, token)
    statics = []       # (file, name, mutable)
    for root, dirs, files in os.walk(srcdir):
        for f in sorted(files):
            if not f.endswith(".rs"): continue
            p = os.path.join(root, f)
            rel = os.path.relpath(p, srcdir)
            src = strip_tests(open(p).read())
            toks = tokenize(src)
            for i, (k, v) in enumerate(toks):
                if k == "id" and v in PURITY_BAD:
                    bad.append((rel, v))
                if k == "id" and v == "static" and i + 1 < len(toks) and not (i > 0 and toks[i - 1][1] in ("'", "&")):
                    nm = toks[i + 1][1]
                    if nm == "mut":
                        statics.append((rel, toks[i + 2][1], True)); bad.append((rel, "static_mut"))
                    elif toks[i - 1][0] != "life":
                        statics.append((rel, nm, False))
            for impl, name, sig, body in functions(toks):
                if name in ("sample", "try_sample", "sample_to_slice", "sample_unscaled", "from_zscore",
                            "sample_iter") or name.startswith("sample"):
                    s = " ".join(v for k, v in sig)
                    if re.search(r"\(\s*& self\b", s): rc = "RefSelf"
                    elif re.search(r"\(\s*& mut self\b", s): rc = "RefMutSelf"
                    elif re.search(r"\(\s*(mut )?self\b", s): rc = "ByValue"
                    else: rc = "NoSelf"
                    samplers.append((rel, impl, name, rc))
    out = ["(* GENERATED by tools/rs2coq.py — purity facts about src/**/*.rs — do not edit *)",
           "From Coq Require Import List String Bool.", "Import ListNotations.", "Open Scope string_scope.", "",
           "Inductive recv := RefSelf | RefMutSelf | ByValue | NoSelf.",
           "Definition forbid_unsafe_code : bool := %s." % ("true" if forbid else "false"),
           "Definition sample_receivers : list (string * string * string * recv) := [\n  %s]." % ";\n  ".join(
               '("%s", "%s", "%s", %s)' % s for s in samplers),
           "Definition interior_mutability_tokens : list (string * string) := [%s]." % "; ".join('("%s", "%s")' % b for b in bad),
           "Definition statics : list (string * string * bool) := [%s]." % "; ".join(
               '("%s", "%s", %s)' % (a, b, "true" if c else "false") for a, b, c in statics)]
    return "\n".join(out) + "\n"



# ------------------------------------------------------------------ serde type descriptions (C15)
PRIMS = {"f32": "TFloat 32", "f64": "TFloat 64", "bool": "TBool", "usize": "TInt false 64", "isize": "TInt true 64"}
for _b in (8, 16, 32, 64, 128):
    PRIMS["u%d" % _b] = "TInt false %d" % _b
    PRIMS["i%d" % _b] = "TInt true %d" % _b


class Unsupported(Exception):
    pass


def split_top(toks, sep=","):
    """split a token list at top-level separators (respecting <>, (), [], {})"""
    out, cur, depth = [], [], 0
    for t in toks:
        v = t[1]
        if v in ("<", "(", "[", "{"): depth += 1
        elif v in (">", ")", "]", "}"): depth -= 1
        if v == sep and depth == 0:
            out.append(cur); cur = []
        else:
            cur.append(t)
    if cur: out.append(cur)
    return out


def parse_items(toks):
    """top-level struct/enum items with their attributes: (kind, name, generics, body_kind, body_tokens, attrs)"""
    items = []
    i, n = 0, len(toks)
    attrs = []
    depth = 0
    while i < n:
        k, v = toks[i]
        if v == "#" and i + 1 < n and toks[i + 1][1] == "[":
            j = i + 1; d = 0
            while j < n:
                if toks[j][1] == "[": d += 1
                elif toks[j][1] == "]":
                    d -= 1
                    if d == 0: break
                j += 1
            attrs.append(toks[i + 2:j]); i = j + 1; continue
        if k == "id" and v in ("struct", "enum") and depth == 0:
            name = toks[i + 1][1]
            j = i + 2
            generics = []
            if j < n and toks[j][1] == "<":
                d = 0; g0 = j
                while j < n:
                    if toks[j][1] == "<": d += 1
                    elif toks[j][1] == ">":
                        d -= 1
                        if d == 0: break
                    j += 1
                generics = [g[0][1] for g in split_top(toks[g0 + 1:j]) if g and g[0][0] == "id"]
                j += 1
            # tuple struct / unit struct / braces (possibly after a where clause)
            body_kind, body = None, []
            if v == "struct" and j < n and toks[j][1] == "(":
                d = 0; b0 = j
                while j < n:
                    if toks[j][1] == "(": d += 1
                    elif toks[j][1] == ")":
                        d -= 1
                        if d == 0: break
                    j += 1
                body_kind, body = "tuple", toks[b0 + 1:j]
            else:
                while j < n and toks[j][1] not in ("{", ";"): j += 1
                if j < n and toks[j][1] == "{":
                    e = match_brace(toks, j)
                    body_kind, body = "brace", toks[j + 1:e]; j = e
                else:
                    body_kind = "unit"
            items.append((v, name, generics, body_kind, body, attrs))
            attrs = []; i = j + 1; continue
        if v == "{": depth += 1
        elif v == "}": depth -= 1
        if k == "id" and v in ("fn", "impl", "mod", "trait", "use", "const", "static", "type", "pub") :
            if v != "pub": attrs = []
        i += 1
    return items


def has_serde_derive(attrs):
    for a in attrs:
        txt = " ".join(v for k, v in a)
        if "derive" in txt and "Serialize" in txt and "Deserialize" in txt:
            return True
    return False


def serde_field_attrs(attr_list):
    """serde(...) attributes other than `bound` are outside the modelled universe"""
    bad = []
    for a in attr_list:
        txt = " ".join(v for k, v in a)
        if "serde" in txt and "derive" not in txt and "serde_as" != txt.strip():
            inner = re.sub(r"\s+", "", txt)
            if re.search(r"serde\((?!bound)", inner) or "serde_as(" in inner:
                bad.append(txt)
    return bad


def strip_attrs(toks):
    """remove #[...] groups from a token list, returning (tokens, [attr token lists])"""
    out, attrs, i = [], [], 0
    while i < len(toks):
        if toks[i][1] == "#" and i + 1 < len(toks) and toks[i + 1][1] == "[":
            j = i + 1; d = 0
            while j < len(toks):
                if toks[j][1] == "[": d += 1
                elif toks[j][1] == "]":
                    d -= 1
                    if d == 0: break
                j += 1
            attrs.append(toks[i + 2:j]); i = j + 1
        else:
            out.append(toks[i]); i += 1
    return out, attrs


class TyGen:
    def __init__(self, items):
        # items: (kind, name, generics, body_kind, body, attrs, file)
        self.by_file = {}
        self.by_name = {}
        for it in items:
            self.by_file.setdefault(it[6], {})[it[1]] = it
            self.by_name.setdefault(it[1], []).append(it)
        self.items = {it[1]: it for it in items}
        self.cur_file = None

    def lookup(self, head, module_hint):
        if module_hint:
            for f, d in self.by_file.items():
                if os.path.splitext(os.path.basename(f))[0] == module_hint and head in d:
                    return d[head]
        if self.cur_file in self.by_file and head in self.by_file[self.cur_file]:
            return self.by_file[self.cur_file][head]
        c = self.by_name.get(head, [])
        if len(c) == 1: return c[0]
        if len(c) > 1: raise Unsupported("ambiguous type name %s" % head)
        return None

    def ty(self, toks, env):
        toks = [t for t in toks if t[1] not in ("pub", "crate") and not (t[1] in ("(",) and False)]
        # drop visibility like pub(crate)
        txt = [t[1] for t in toks]
        while txt and txt[0] in ("pub", "(", "crate", ")", "super", "in"):
            txt.pop(0); toks = toks[1:]
        if not txt: raise Unsupported("empty type")
        # path: take the last segment before generics
        module_hint = None
        if "::" in txt:
            # keep from the last '::' that is at depth 0
            d, last = 0, -1
            for i, v in enumerate(txt):
                if v == "<": d += 1
                elif v == ">": d -= 1
                elif v == "::" and d == 0: last = i
            if last >= 1: module_hint = txt[last - 1]
            txt = txt[last + 1:]; toks = toks[last + 1:]
        head = txt[0]
        args = []
        if len(txt) > 1 and txt[1] == "<":
            args = split_top(toks[2:-1])
        if head in env: return env[head]
        if head in PRIMS: return PRIMS[head]
        if head in ("Vec",) : return "TSeq (%s)" % self.ty(args[0], env)
        if head == "Box":
            inner = args[0]
            if inner and inner[0][1] == "[": return "TSeq (%s)" % self.ty(inner[1:-1], env)
            return self.ty(inner, env)
        if head == "Uniform":
            a = self.ty(args[0], env)
            if a.startswith("TFloat"):
                return 'TStruct "UniformFloat" [("low", %s); ("scale", %s)]' % (a, a)
            return 'TStruct "UniformInt" [("low", %s); ("range", %s); ("thresh", %s)]' % (a, a, a)
        it = self.lookup(head, module_hint)
        if it is not None:
            if not has_serde_derive(it[5]): raise Unsupported("type %s used in a serde type does not derive Serialize/Deserialize" % head)
            sub = {}
            for g, a in zip(it[2], args):
                sub[g] = self.ty(a, env)
            return self.item(it, sub)
        raise Unsupported("unknown type %s" % " ".join(txt))

    def fields(self, body, env):
        res = []
        for f in split_top(body):
            f, attrs = strip_attrs(f)
            bad = serde_field_attrs(attrs)
            if bad: raise Unsupported("serde attribute outside the modelled universe: %s" % bad[0])
            f = [t for t in f]
            names = [t[1] for t in f]
            if not names: continue
            c = names.index(":")
            fname = [x for x in names[:c] if x not in ("pub", "(", ")", "crate")][-1]
            res.append((fname, self.ty(f[c + 1:], env)))
        return res

    def item(self, it, env):
        kind, name, generics, body_kind, body, attrs, file = it
        saved = self.cur_file
        self.cur_file = file
        try:
            return self.item1(it, env)
        finally:
            self.cur_file = saved

    def item1(self, it, env):
        kind, name, generics, body_kind, body, attrs, file = it
        bad = serde_field_attrs(attrs)
        if bad: raise Unsupported("serde attribute outside the modelled universe on %s: %s" % (name, bad[0]))
        if kind == "struct":
            if body_kind == "unit": return 'TUnitStruct "%s"' % name
            if body_kind == "tuple":
                ts = []
                for f in split_top(body):
                    f, at = strip_attrs(f)
                    if serde_field_attrs(at): raise Unsupported("serde attribute on tuple field of %s" % name)
                    ts.append(self.ty(f, env))
                if len(ts) == 1: return 'TNewtype "%s" (%s)' % (name, ts[0])
                return 'TTupleStruct "%s" [%s]' % (name, "; ".join(ts))
            return 'TStruct "%s" [%s]' % (name, "; ".join('("%s", %s)' % fl for fl in self.fields(body, env)))
        vs = []
        for v in split_top(body):
            v, at = strip_attrs(v)
            if serde_field_attrs(at): raise Unsupported("serde attribute on a variant of %s" % name)
            if not v: continue
            vname = v[0][1]
            if len(v) == 1: vs.append('("%s", VUnit)' % vname)
            elif v[1][1] == "(":
                ts = [self.ty(x, env) for x in split_top(v[2:-1])]
                vs.append('("%s", VNewtype (%s))' % (vname, ts[0]) if len(ts) == 1 else '("%s", VTuple [%s])' % (vname, "; ".join(ts)))
            elif v[1][1] == "{":
                vs.append('("%s", VStruct [%s])' % (vname, "; ".join('("%s", %s)' % fl for fl in self.fields(v[2:-1], env))))
            else:
                raise Unsupported("variant shape of %s::%s" % (name, vname))
        return 'TEnum "%s" [%s]' % (name, "; ".join(vs))


def gen_tydesc(repo):
    srcdir = os.path.join(repo, "src")
    items, dist_types = [], set()
    for root, dirs, files in os.walk(srcdir):
        for f in sorted(files):
            if not f.endswith(".rs"): continue
            src = strip_tests(open(os.path.join(root, f)).read())
            toks = tokenize(src)
            items += [it + (os.path.join(root, f),) for it in parse_items(toks)]
            for m in re.finditer(r"impl(?:<[^{;]*?>)?\s+(?:[\w:]+::)?Distribution<[^{;]*?>\s+for\s+(\w+)", src):
                dist_types.add(m.group(1))
            for m in re.finditer(r"impl(?:<[^{;]*?>)?\s+(?:[\w:]+::)?MultiDistribution<[^{;]*?>\s+for\s+(\w+)", src):
                dist_types.add(m.group(1))
    g = TyGen(items)
    entries, skipped = [], []
    for it in items:
        kind, name, generics, body_kind, body, attrs, file = it
        if not has_serde_derive(attrs): continue
        # instantiate type parameters: float-like parameters at f64 and f32, weight parameters at u32 and f64
        insts = [({}, "")]
        for gp in generics:
            if gp in ("F", "N"): choices = [("TFloat 64", "f64"), ("TFloat 32", "f32")]
            elif gp == "W": choices = [("TInt false 32", "u32"), ("TInt true 64", "i64"), ("TFloat 64", "f64")]
            else: choices = [("TFloat 64", "f64")]
            insts = [(dict(e, **{gp: c[0]}), (sfx + "_" + c[1]) if sfx else c[1]) for e, sfx in insts for c in choices]
        for env, sfx in insts:
            try:
                entries.append(("%s%s" % (name, ("<" + sfx + ">") if sfx else ""), g.item(it, env)))
            except Unsupported as e:
                skipped.append((name, str(e)))
    not_serde = sorted(t for t in dist_types if t in g.items and not has_serde_derive(g.items[t][5]))
    out = ["(* GENERATED by tools/rs2coq.py — serde descriptions of every type deriving Serialize/Deserialize — do not edit *)",
           "From Coq Require Import String ZArith List Bool.", "From RD Require Import Model.Serde.", "Import ListNotations.",
           "Open Scope string_scope.", "Open Scope Z_scope.", "",
           "Definition tydescs : list (string * tydesc) := [\n  %s]." % ";\n  ".join('("%s", %s)' % e for e in entries), "",
           "(* types with a Distribution impl that do not derive Serialize/Deserialize *)",
           "Definition not_serde_enabled : list string := [%s]." % "; ".join('"%s"' % t for t in not_serde),
           "(* serde-deriving types the generator could not describe (attributes outside the modelled universe): must be empty *)",
           "Definition undescribed : list (string * string) := [%s]." % "; ".join('("%s", "%s")' % (a, b.replace('"', "'")) for a, b in skipped)]
    return "\n".join(out) + "\n"



def gen_zig_norm_tail(repo):
    """the base strip of the normal ziggurat: X_1 F_1 + integral_r^40 exp(-x^2/2) dx = X_0 F_1 up to 1e-8 (the integral beyond 40 is < 1e-340)"""
    import decimal
    src = open(os.path.join(repo, "src", "ziggurat_tables.rs")).read()
    def arr(name):
        m = re.search(r"%s\s*:\s*\[f64;\s*257\]\s*=\s*\[(.*?)\];" % name, src, re.S)
        return [x.replace("_", "") for x in re.findall(r"-?\d[\d_]*\.?\d*(?:[eE][+-]?\d+)?", m.group(1))]
    X, Fv = arr("ZIG_NORM_X"), arr("ZIG_NORM_F")
    r = re.search(r"ZIG_NORM_R\s*:\s*f64\s*=\s*([\d\._]+)", src).group(1).replace("_", "")
    def dy(lit):
        m, e = f64_dyadic(float(lit))
        return "(%d / %d)" % (m, 2 ** (-e)) if e < 0 else "(%d)" % (m * 2 ** e)
    decimal.getcontext().prec = 60
    D = decimal.Decimal
    R = D(float(r))
    s_, term, n = D(0), R, 0
    while abs(term) > D("1e-55"):
        s_ += term / (2 * n + 1); n += 1; term = -term * R * R / (2 * n)
    T = (D(2).sqrt() * D("1.7724538509055160272981674833411451827975494561223871282138")) / 2 - s_
    lo, hi = T * (1 - D("1e-10")), T * (1 + D("1e-10"))
    fmt = lambda d: "(%d / 10^30)" % int(d * D(10) ** 30)
    out = ["(* GENERATED by tools/rs2coq.py from src/ziggurat_tables.rs — do not edit *)",
           "From Coq Require Import Reals ZArith List.", "From Coquelicot Require Import Coquelicot.", "From Interval Require Import Tactic.",
           "Import ListNotations.", "Open Scope R_scope.", "",
           "(* r = ZIG_NORM_R, x0 = ZIG_NORM_X[0], x1 = ZIG_NORM_X[1], f1 = ZIG_NORM_F[1]: the binary64 values of the source literals *)",
           "Definition zn_r : R := %s." % dy(r), "Definition zn_x0 : R := %s." % dy(X[0]), "Definition zn_x1 : R := %s." % dy(X[1]),
           "Definition zn_f1 : R := %s." % dy(Fv[1]),
           "Definition zn_dy : list (Z * Z) := [%s]%%Z." % "; ".join("(%d, %d)" % f64_dyadic(float(v)) for v in (r, X[0], X[1], Fv[1])),
           "Definition zn_lo : R := %s." % fmt(lo), "Definition zn_hi : R := %s." % fmt(hi), "",
           "Lemma norm_tail_40 : zn_lo <= RInt (fun x => exp (-(x*x)/2)) zn_r 40 <= zn_hi.",
           "Proof. unfold zn_lo, zn_hi, zn_r. integral with (i_prec 100, i_degree 20, i_fuel 4000). Qed.", "",
           "Lemma norm_base_area_of_tail : forall t, zn_lo <= t <= zn_hi -> Rabs ((zn_x1 * zn_f1 + t) / (zn_x0 * zn_f1) - 1) <= 1 / 10^8.",
           "Proof. intros t H. unfold zn_lo, zn_hi, zn_x0, zn_x1, zn_f1 in *. interval with (i_prec 100). Qed.", "",
           "Theorem norm_base_area : Rabs ((zn_x1 * zn_f1 + RInt (fun x => exp (-(x*x)/2)) zn_r 40) / (zn_x0 * zn_f1) - 1) <= 1 / 10^8.",
           "Proof. apply norm_base_area_of_tail. exact norm_tail_40. Qed."]
    return "\n".join(out) + "\n"


def main():
    repo, outd = REPO, OUT
    args = sys.argv[1:]
    while args:
        a = args.pop(0)
        if a == "--repo": repo = args.pop(0)
        elif a == "--out": outd = args.pop(0)
    os.makedirs(outd, exist_ok=True)
    changed = []
    try:
        z = gen_zigtables(repo)
        c, index = gen_consts(repo)
        s = gen_sigs(repo)
        t = gen_tydesc(repo)
        zt = gen_zig_norm_tail(repo)
        import flprog
        fl, fl_report = flprog.gen_flprog(repo)
    except Exception as e:
        write_if_changed(os.path.join(outd, "Unparsed.v"), "(* rs2coq could not process the source: %s *)\nDefinition unparsed : bool := true.\n" % str(e).replace("*)", "* )"))
        print("rs2coq: UNPARSED:", e)
        return 3
    for name, text in (("ZigTables.v", z), ("Consts.v", c), ("Sigs.v", s), ("TyDesc.v", t), ("ZigNormTail.v", zt), ("FlProg.v", fl)):
        if write_if_changed(os.path.join(outd, name), text):
            changed.append(name)
    up = os.path.join(outd, "Unparsed.v")
    if os.path.exists(up):
        os.unlink(up)
    print("rs2coq: %d functions; rewritten: %s" % (len(index), ", ".join(changed) or "nothing"))
    bad = [r for r in fl_report if r[1] != "ok"]
    if bad:
        print("rs2coq: float sites not translated: %s" % "; ".join("%s (%s)" % r for r in bad))
    return 0


if __name__ == "__main__":
    sys.exit(main())
