#!/usr/bin/env python3
"""rs2coq — regenerates coq/Gen/*.v from /repo's current source on every run.

  ZigTables.v  the four 257-entry ziggurat tables and the two tail constants, each entry as the
               exact rational the decimal literal denotes AND the binary64 value it rounds to
  Consts.v     per function of src/: a fingerprint (hash of the comment/whitespace/variable-name
               insensitive token stream: literals, operators, calls, type names, keywords) and the
               ordered list of numeric literals as exact rationals
  Sigs.v       purity facts: receiver kinds of every sample method, crate attributes, tokens naming
               interior mutability / statics
  TyDesc.v     serde descriptions of every Serialize/Deserialize type
Files are rewritten only when their content changes (so `make` rebuilds only what the source touched).
usage: rs2coq.py [--repo /repo] [--out DIR]
"""
import sys, os, re, hashlib, json, struct
from fractions import Fraction

REPO = "/repo"
OUT = os.path.join(os.path.dirname(os.path.dirname(os.path.abspath(__file__))), "coq", "Gen")

TOK = re.compile(r"""
  (?P<ws>\s+)
 |(?P<lc>//[^\n]*)
 |(?P<bc>/\*.*?\*/)
 |(?P<str>b?"(?:\\.|[^"\\])*")
 |(?P<chr>'(?:\\.|[^'\\])')
 |(?P<life>'[A-Za-z_]\w*)
 |(?P<num>(?:0x[0-9a-fA-F_]+|0b[01_]+|\d[\d_]*(?:\.\d[\d_]*)?(?:[eE][+-]?\d+)?)(?:_?(?:f32|f64|u8|u16|u32|u64|u128|usize|i8|i16|i32|i64|i128|isize))?)
 |(?P<id>[A-Za-z_]\w*)
 |(?P<op><<=|>>=|\.\.=|\.\.\.|::|->|=>|<=|>=|==|!=|&&|\|\||<<|>>|\+=|-=|\*=|/=|%=|\^=|&=|\|=|\.\.|[-+*/%^!&|<>=@.,;:#$?~(){}\[\]])
""", re.X | re.S)

KEYWORDS = {"if", "else", "loop", "while", "for", "return", "continue", "break", "match", "as", "let", "mut",
            "fn", "impl", "struct", "enum", "pub", "where", "in", "ref", "static", "const", "unsafe", "mod", "use", "trait", "type"}


def tokenize(src):
    toks = []
    pos = 0
    while pos < len(src):
        m = TOK.match(src, pos)
        if not m:
            raise ValueError("cannot tokenize at %d: %r" % (pos, src[pos:pos + 40]))
        k = m.lastgroup
        if k not in ("ws", "lc", "bc"):
            toks.append((k, m.group(k)))
        pos = m.end()
    return toks


def strip_tests(src):
    """drop `#[cfg(test)] mod … { … }` blocks"""
    out = src
    while True:
        m = re.search(r"#\[cfg\(test\)\]\s*(?:#\[[^\]]*\]\s*)*mod\s+\w+\s*\{", out)
        if not m:
            return out
        i = m.end()
        depth = 1
        while depth and i < len(out):
            c = out[i]
            if c == "{": depth += 1
            elif c == "}": depth -= 1
            i += 1
        out = out[:m.start()] + out[i:]


def match_brace(toks, i):
    """toks[i] is '{' -> index of the matching '}'"""
    depth = 0
    while i < len(toks):
        if toks[i][1] == "{": depth += 1
        elif toks[i][1] == "}":
            depth -= 1
            if depth == 0:
                return i
        i += 1
    raise ValueError("unbalanced braces")


def functions(toks):
    """yield (impl_name, fn_name, signature_tokens, body_tokens) for every fn with a body"""
    res = []

    def walk(lo, hi, ctx):
        i = lo
        while i < hi:
            k, v = toks[i]
            if k == "id" and v in ("impl", "trait", "mod"):
                # find the '{' of this block (skipping generics / where clauses)
                j = i + 1
                name_toks = []
                while j < hi and toks[j][1] not in ("{", ";"):
                    name_toks.append(toks[j]); j += 1
                if j < hi and toks[j][1] == "{":
                    e = match_brace(toks, j)
                    nm = impl_name(v, name_toks)
                    walk(j + 1, e, ctx + [nm] if nm else ctx)
                    i = e + 1
                    continue
                i = j + 1
                continue
            if k == "id" and v == "fn" and i + 1 < hi and toks[i + 1][0] == "id":
                name = toks[i + 1][1]
                j = i + 2
                while j < hi and toks[j][1] not in ("{", ";"):
                    j += 1
                if j < hi and toks[j][1] == "{":
                    e = match_brace(toks, j)
                    res.append((".".join(ctx), name, toks[i:j], toks[j + 1:e]))
                    walk(j + 1, e, ctx + [name])   # nested fns (pdf, zero_case, …)
                    i = e + 1
                    continue
                i = j + 1
                continue
            if k == "id" and v == "macro_rules":
                j = i
                while j < hi and toks[j][1] != "{": j += 1
                if j < hi:
                    e = match_brace(toks, j)
                    res.append((".".join(ctx), "macro_" + toks[i + 2][1], [], toks[j + 1:e]))
                    i = e + 1
                    continue
            i += 1

    walk(0, len(toks), [])
    return res


def impl_name(kind, name_toks):
    ids = [v for k, v in name_toks if k == "id"]
    if kind == "mod":
        return ids[0] if ids else None
    # impl<…> Trait<…> for Type<…>  /  impl<…> Type<…>
    txt = [v for k, v in name_toks]
    # strip leading generic parameter list
    depth, out = 0, []
    started = False
    for t in txt:
        if not started and t == "<" and not out:
            depth += 1; continue
        if depth and not started:
            if t == "<": depth += 1
            elif t == ">":
                depth -= 1
                if depth == 0: started = True
            continue
        started = True
        out.append(t)
    if "where" in out:
        out = out[:out.index("where")]
    s = "".join(out)
    s = re.sub(r"<[^<>]*>", "", s)
    s = re.sub(r"<[^<>]*>", "", s)
    if "for" in out:
        # Trait for Type
        a = "".join(out[:out.index("for")]); b = "".join(out[out.index("for") + 1:])
        a = re.sub(r"<.*", "", a); b = re.sub(r"<.*", "", b)
        tr = a.split("::")[-1]
        inner = re.search(r"Distribution<([^<>]*)>", "".join(out[:out.index("for")]))
        suffix = ("_" + inner.group(1)) if inner and inner.group(1) not in ("F",) else ""
        return "%s_%s%s" % (b.split("::")[-1], tr, re.sub(r"\W", "", suffix))
    return re.sub(r"\W.*", "", s.split("::")[-1]) or None


def num_value(lit):
    """numeric literal -> Fraction (or None for hex/binary handled as ints)"""
    s = lit.replace("_", "")
    s = re.sub(r"(f32|f64|u8|u16|u32|u64|u128|usize|i8|i16|i32|i64|i128|isize)$", "", s)
    if s.startswith("0x"): return Fraction(int(s[2:], 16))
    if s.startswith("0b"): return Fraction(int(s[2:], 2))
    try:
        return Fraction(s)
    except Exception:
        return None


def fingerprint_tokens(body):
    keep = []
    n = len(body)
    for i, (k, v) in enumerate(body):
        if k == "num":
            f = num_value(v)
            keep.append("#%s" % (f if f is not None else v))
        elif k == "op":
            if v in ("(", ")", "{", "}", "[", "]", ",", ";", ":", "::", ".", "#", "$", "=>", "->", "?"):
                continue
            keep.append(v)
        elif k == "id":
            nxt = body[i + 1][1] if i + 1 < n else ""
            prv = body[i - 1][1] if i > 0 else ""
            if v in KEYWORDS:
                if v in ("let", "mut", "pub", "ref"): continue
                keep.append(v)
            elif nxt in ("(", "!") or (nxt == "::" and i + 2 < n and body[i + 2][1] == "<"):
                keep.append(v + "()")
            elif v[0].isupper():
                keep.append(v)
            # lowercase identifiers that are not called: local variable / field names -> dropped
        elif k in ("str", "chr"):
            continue
    return keep


def coq_ident(s):
    return re.sub(r"\W", "_", s)


def zlit(n):
    return str(n) if n >= 0 else "(%d)" % n


def write_if_changed(path, text):
    old = open(path).read() if os.path.exists(path) else None
    if old != text:
        with open(path, "w") as fh:
            fh.write(text)
        return True
    return False


def f64_dyadic(x):
    """binary64 value -> (m, e) with x = m * 2^e exactly"""
    if x == 0.0:
        return (0, 0)
    bits = struct.unpack("<Q", struct.pack("<d", x))[0]
    sign = -1 if bits >> 63 else 1
    ex = (bits >> 52) & 0x7FF
    fr = bits & ((1 << 52) - 1)
    if ex == 0:
        m, e = fr, -1074
    else:
        m, e = fr | (1 << 52), ex - 1075
    while m % 2 == 0 and m:
        m //= 2; e += 1
    return (sign * m, e)


# ------------------------------------------------------------------ generators
def gen_zigtables(repo):
    src = open(os.path.join(repo, "src", "ziggurat_tables.rs")).read()
    out = ["(* GENERATED by tools/rs2coq.py from src/ziggurat_tables.rs — do not edit *)",
           "From Coq Require Import ZArith List.", "Import ListNotations.", "Open Scope Z_scope.", "",
           "(* each entry: (numerator, power-of-ten exponent k) meaning numerator / 10^k — the decimal literal;",
           "   and (m, e) meaning m * 2^e — the binary64 value the literal rounds to (round-to-nearest-even) *)"]
    names = []
    for m in re.finditer(r"pub\s+(?:static|const)\s+(\w+)\s*:\s*([^=]+)=\s*(\[[^;]*\]|[^;]+);", src, re.S):
        name, ty, val = m.group(1), m.group(2).strip(), m.group(3).strip()
        if name == "ZigTable":
            continue
        lits = re.findall(r"-?\d[\d_]*\.?\d*(?:[eE][+-]?\d+)?", val) if val.startswith("[") else [val.strip()]
        decs, dys = [], []
        for l in lits:
            l = l.replace("_", "")
            fr = Fraction(l)
            # decimal as numerator / 10^k
            if "." in l and "e" not in l.lower():
                k = len(l.split(".")[1])
            else:
                k = 0
                while (fr * 10**k).denominator != 1: k += 1
            decs.append((int(fr * 10**k), k))
            dys.append(f64_dyadic(float(l)))
        names.append(name)
        if val.startswith("["):
            out.append("Definition %s_dec : list (Z * Z) := [\n  %s].\n" % (
                name, ";\n  ".join("(%s, %d)" % (zlit(a), b) for a, b in decs)))
            out.append("Definition %s : list (Z * Z) := [\n  %s].\n" % (
                name, ";\n  ".join("(%s, %s)" % (zlit(a), zlit(b)) for a, b in dys)))
        else:
            out.append("Definition %s_dec : Z * Z := (%s, %d)." % (name, zlit(decs[0][0]), decs[0][1]))
            out.append("Definition %s : Z * Z := (%s, %s).\n" % (name, zlit(dys[0][0]), zlit(dys[0][1])))
    return "\n".join(out) + "\n"


def all_functions(repo):
    res = []
    srcdir = os.path.join(repo, "src")
    for root, dirs, files in os.walk(srcdir):
        for f in sorted(files):
            if not f.endswith(".rs"):
                continue
            p = os.path.join(root, f)
            rel = os.path.relpath(p, srcdir)
            src = strip_tests(open(p).read())
            toks = tokenize(src)
            for impl, name, sig, body in functions(toks):
                res.append((rel, impl, name, sig, body))
    return res


def gen_consts(repo):
    out = ["(* GENERATED by tools/rs2coq.py from src/**/*.rs — do not edit *)",
           "From Coq Require Import ZArith List String.", "Import ListNotations.", "Open Scope Z_scope.", "",
           "(* fp_<file>__<impl>__<fn> : 60-bit hash of the normalised token stream of the function body",
           "   lits_… : its numeric literals in order, as (numerator, denominator) *)"]
    seen = {}
    index = []
    for rel, impl, name, sig, body in all_functions(repo):
        base = coq_ident("%s__%s__%s" % (rel[:-3], impl, name))
        seen[base] = seen.get(base, 0) + 1
        if seen[base] > 1:
            base += "_%d" % seen[base]
        fp = fingerprint_tokens(body)
        h = int(hashlib.sha256(" ".join(fp).encode()).hexdigest()[:15], 16)
        lits = []
        for k, v in body:
            if k == "num":
                f = num_value(v)
                if f is not None:
                    lits.append((f.numerator, f.denominator))
        out.append("Definition fp_%s : Z := %d." % (base, h))
        out.append("Definition lits_%s : list (Z * Z) := [%s]." % (base, "; ".join("(%s, %d)" % (zlit(a), b) for a, b in lits)))
        index.append((base, h))
    out.append("")
    out.append("Definition all_fps : list (string * Z) := [\n  %s]." % ";\n  ".join('("%s"%%string, %d)' % (b, h) for b, h in index))
    return "\n".join(out) + "\n", index


PURITY_BAD = ["Cell", "RefCell", "UnsafeCell", "OnceCell", "LazyCell", "LazyLock", "OnceLock", "Mutex", "RwLock",
              "AtomicBool", "AtomicU8", "AtomicU16", "AtomicU32", "AtomicU64", "AtomicUsize", "AtomicI8", "AtomicI16",
              "AtomicI32", "AtomicI64", "AtomicIsize", "AtomicPtr", "thread_local", "static_mut", "Rc", "Arc",
              "lazy_static", "unsafe"]


def gen_sigs(repo):
    srcdir = os.path.join(repo, "src")
    lib = open(os.path.join(srcdir, "lib.rs")).read()
    forbid = bool(re.search(r"#!\[forbid\(unsafe_code\)\]", lib))
    samplers = []      # (file, impl, fn, receiver)
    bad = []           # (file, token)
    statics = []       # (file, name, mutable)
    for root, dirs, files in os.walk(srcdir):
        for f in sorted(files):
            if not f.endswith(".rs"): continue
            p = os.path.join(root, f)
            rel = os.path.relpath(p, srcdir)
            src = strip_tests(open(p).read())
            toks = tokenize(src)
            for i, (k, v) in enumerate(toks):
                if k == "id" and v in PURITY_BAD:
                    bad.append((rel, v))
                if k == "id" and v == "static" and i + 1 < len(toks) and not (i > 0 and toks[i - 1][1] in ("'", "&")):
                    nm = toks[i + 1][1]
                    if nm == "mut":
                        statics.append((rel, toks[i + 2][1], True)); bad.append((rel, "static_mut"))
                    elif toks[i - 1][0] != "life":
                        statics.append((rel, nm, False))
            for impl, name, sig, body in functions(toks):
                if name in ("sample", "try_sample", "sample_to_slice", "sample_unscaled", "from_zscore",
                            "sample_iter") or name.startswith("sample"):
                    s = " ".join(v for k, v in sig)
                    if re.search(r"\(\s*& self\b", s): rc = "RefSelf"
                    elif re.search(r"\(\s*& mut self\b", s): rc = "RefMutSelf"
                    elif re.search(r"\(\s*(mut )?self\b", s): rc = "ByValue"
                    else: rc = "NoSelf"
                    samplers.append((rel, impl, name, rc))
    out = ["(* GENERATED by tools/rs2coq.py — purity facts about src/**/*.rs — do not edit *)",
           "From Coq Require Import List String Bool.", "Import ListNotations.", "Open Scope string_scope.", "",
           "Inductive recv := RefSelf | RefMutSelf | ByValue | NoSelf.",
           "Definition forbid_unsafe_code : bool := %s." % ("true" if forbid else "false"),
           "Definition sample_receivers : list (string * string * string * recv) := [\n  %s]." % ";\n  ".join(
               '("%s", "%s", "%s", %s)' % s for s in samplers),
           "Definition interior_mutability_tokens : list (string * string) := [%s]." % "; ".join('("%s", "%s")' % b for b in bad),
           "Definition statics : list (string * string * bool) := [%s]." % "; ".join(
               '("%s", "%s", %s)' % (a, b, "true" if c else "false") for a, b, c in statics)]
    return "\n".join(out) + "\n"


def main():
    repo, outd = REPO, OUT
    args = sys.argv[1:]
    while args:
        a = args.pop(0)
        if a == "--repo": repo = args.pop(0)
        elif a == "--out": outd = args.pop(0)
    os.makedirs(outd, exist_ok=True)
    changed = []
    try:
        z = gen_zigtables(repo)
        c, index = gen_consts(repo)
        s = gen_sigs(repo)
    except Exception as e:
        write_if_changed(os.path.join(outd, "Unparsed.v"), "(* rs2coq could not process the source: %s *)\nDefinition unparsed : bool := true.\n" % str(e).replace("*)", "* )"))
        print("rs2coq: UNPARSED:", e)
        return 3
    for name, text in (("ZigTables.v", z), ("Consts.v", c), ("Sigs.v", s)):
        if write_if_changed(os.path.join(outd, name), text):
            changed.append(name)
    up = os.path.join(outd, "Unparsed.v")
    if os.path.exists(up):
        os.unlink(up)
    print("rs2coq: %d functions; rewritten: %s" % (len(index), ", ".join(changed) or "nothing"))
    return 0


if __name__ == "__main__":
    sys.exit(main())
