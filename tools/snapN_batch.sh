#!/bin/bash
# usage: snap3_batch.sh <jobs file> <nslots> — lines "<id> <A|B> <checks...>"; distributes over snapshots 1..nslots
jobs=$1; ns=${2:-4}
run_slot() { n=$1; awk -v n=$n -v ns=$ns 'NR%ns==n%ns' $jobs | while read id x checks; do
  /verif/tools/snap_run.sh $n ${MUT:-/tmp/mut3}/$id.out/$x/patch.diff $checks > ${LOGD:-/root/seed3logs}/run_${id}_$x.log 2>&1; done; }
for n in $(seq 1 $ns); do run_slot $n & done; wait
