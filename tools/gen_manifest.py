#!/usr/bin/env python3
"""Regenerates /verif/MANIFEST.json from the table below (kept here so the file stays valid and consistent)."""
import json, os
ROOT = os.path.dirname(os.path.dirname(os.path.abspath(__file__)))
props = [json.loads(l) for l in open(os.path.join(ROOT, "properties.jsonl"))]

CHECKS = {
 "C02": dict(
   category="proof",
   text="Coq (about 75 theorems, all parameters): on the EXECUTABLE models that are run against the crate, BINV returns x exactly when the uniform lies in the x-th cell of the binomial cdf, HIN exactly on the x-th cell of the hypergeometric cdf, Knuth returns k after exactly k+1 words with the k-th partial product above and the (k+1)-st not above exp(-lambda), the two counting loops of Geometric return the number of leading uniforms above p resp. below (1-p)^(2^k), Zeta and Zipf return x only for a proposal floor(u^(-1/(s-1))) resp. floor(H^-1(p t)+1) accepted with v <= zeta_accept resp. y < ratio (Props/C02_model.v); and as real-number identities: BINV's recurrence equals the binomial pmf and the coded loop returns x exactly on the x-th cell of the cdf; the p>0.5 flip; the geometric power-of-two block decomposition and the leading-zero counts of StandardGeometric; both hypergeometric symmetries, the bijection of the coded affine reflection (all four swap combinations, integer tie rule) onto the support, HIN recurrence and start values; Zeta proposal mass x acceptance = C x^-s with acceptance <= 1; Zipf hat mass, inverse and acceptance mass; Knuth's product form. All seven samplers (incl. BTPE, H2PE, Ahrens-Dieter PD) are modelled as decision trees and tied to the code pathwise: same integer and same number of RNG words on identical parameter bits and words, on exhaustive small parameter sets and grids on both sides of every method switch.",
   note="Not proved: that the BTPE/H2PE/PD hats dominate and their Stirling squeezes (paper lemmas); those samplers are tied pathwise only. Probability bridge B1-B4 not formalised. Known finding F10 (Zeta precision loss for huge proposals).",
   technique="Coq proof (pmf recurrences, reflection bijection, rejection identities) + pathwise model/implementation correspondence",
   design="DESIGN.md §6 C02"),
 "C04": dict(
   category="proof",
   text="Coq/Flocq (Props/C04_fl.v): Normal::from_mean_cv stores exactly fl(cv*mean) (site translated from the source). Coq (Flocq IEEE binary32/binary64): for each of 28 public constructor entry points a theorem over ALL values of the argument types: the model of the validation code agrees with the documented domain (MustErr with an allowed variant / MustOk / Unspecified regions listed), never panics, nested unwrap()/unreachable!() unreachable; LogNormal::from_mean_cv and Hypergeometric::new are proved outside explicit decidable known-defect classes and refuted inside them. The hand models are tied to the code by regenerated fingerprints and by correspondence on the special-value lattice cross product; the documented spec is also evaluated on every tuple directly against the real constructor (independent of the model).",
   note="Trusted: Coq kernel, Flocq + classical real axioms; hand models (tied by correspondence); the spec file is our reading of the doc comments (DESIGN.md App. B); libm contracts for ln/powf in two constructors.",
   technique="Coq proof over IEEE floats (Flocq) of model = documented spec + lattice correspondence + spec oracle on the real constructors",
   design="DESIGN.md §6 C04, App. B"),
 "C05": dict(
   category="proof",
   text="Coq: ziggurat first-pass return probability from the regenerated tables (>= 0.985 / 0.977), word bounds of rand's Canon and Lemire reductions, termination of the tree descent, and (Props/C02_identities.v) the inner-loop characterisations of BINV, Knuth and the geometric split; on the executable models every proposal of BTPE and of H2PE reads exactly two words and nothing else reads any, for every word list and all parameters; every sampler model carries explicit loop fuel and C01/C02's correspondence compares word consumption on every case. The parts that are NOT proved (acceptance constants of the paper-grade rejection samplers, CPU time) are decided by the direct oracle: counting RNG with a 10^5-word limit and a wall-clock watchdog around the real sample() over parameter grids incl. the integer extremes, random and single-word-adversarial streams, mean words <= 24.",
   note="Partial by design: loop-bound theorems where elementary, exploration (watchdog) for the rest. Known finding F9 (Binomial u64::MAX walk) listed. Out-of-envelope observation: Poisson PD step H acceptance collapses for lambda > 1e17 (DESIGN.md).",
   technique="Coq proof (table reflection, range-reduction word bounds) + counting-RNG/watchdog exploration on the real code",
   design="DESIGN.md §6 C05"),
 "C07": dict(
   category="proof",
   text="Scale families (Props/C07_scale.v): the last operation of Exp/Weibull/Pareto/Gamma sampling and the constructors' reciprocals, translated from the source on every run (tools/flprog.py -> Gen/FlProg.v, equality by reflexivity), are single rounded operations: sample = rnd(scale*g), error <= u|scale g| + eta, exact for power-of-two scales, monotone, Exp(lambda) = Exp1/lambda up to two roundings. Coq/Flocq (Props/C07_fl.v): the IEEE program Bplus(mean, Bmult(sd, z)) of Normal::from_zscore equals the nested rounding, is within u|m+sz| + u(2+u)|sz| + (1+u)eta of the real affine map, scales exactly by powers of two, propagates NaN, maps z=+-inf to the signed infinity and sd=0 to mean, for every binary format. Coq: on the sampler models the decision tree for (location, scale) IS the decision tree of the standard sampler with the affine expression applied at the leaves (syntactic equality of trees; for inverse Gaussian, triangular and Pert a semantic simulation): identical decisions, identical words consumed, value = loc + scale * standard value as reals; from_zscore is literally mean + std_dev * z. Normal, LogNormal, Exp, Cauchy, Gumbel, Frechet, Pareto, Weibull, SkewNormal, Gamma (3 representations), InverseGaussian, Triangular, Pert. Direct oracle on the real crate: paired sample() calls on identical streams, exact recomputation of the map on the standard sample (bit equality where the map is the last IEEE operations), equal word counts.",
   note="Models tied to the code by C01's pathwise correspondence; python float arithmetic is IEEE binary64.",
   technique="Coq proof (tree-map equalities / simulation) + paired-sampling oracle with exact IEEE recomputation",
   design="DESIGN.md §6 C07"),
 "C11": dict(
   category="proof",
   text="The two assignments of the stick-breaking loop are translated from the source on every run (C11_fl_source). Coq/Flocq (Props/C11_fl.v): for the stick-breaking loop of DirichletFromBeta every component is a finite float in [0,1] and the real sum of the float components is within len*(2u+3eta) of 1, for vectors of any length. Coq: reverse cumulative sum specification (entry i = sum_{j>i} alpha_j) so the stick-breaking chain uses Beta(alpha_i, tail_i); stick-breaking and gamma-normalisation outputs lie on the simplex (exact sum 1) for all inputs, lifted to every result of the Dirichlet model for both methods; method switch iff all alpha_i <= fl(0.1); at the IEEE level (Flocq, binary32/binary64, Props/C11_fl.v) the libm-free stick-breaking loop turns Beta draws that are finite floats in [0,1] (C03_beta_final_in_unit) into exactly len+1 components each of which is a finite float in [0,1], for vectors of any length. Model tied pathwise to the crate on identical alpha bits and words; simplex predicate and sample() = sample_to_slice() on the real output.",
   note="Known finding F19 (Dirichlet<f32>, gamma path, an alpha below 0.19: underflow gives [inf, NaN] on about 5e-7 of the streams) is replayed on every run and printed as KNOWN-FINDING. Marginal/ratio laws reduce to C01's Beta/Gamma results by classical theorems not formalised (B-class).",
   technique="Coq proof (list recursion spec, simplex lemmas lifted over the model) + pathwise correspondence",
   design="DESIGN.md §6 C11"),
 "C12": dict(
   category="proof",
   text="UnitSphere's libm-free transform (six translated sites) yields finite components, z in [-1,1] exactly (C12_sphere_fl_finite); the acceptance tests are translated from the source (C12_fl_source) and a python IEEE oracle decides boundary candidates exactly. Coq/Flocq (Props/C12_fl.v): the IEEE acceptance tests x1*x1+x2*x2[+x3*x3] <= 1 of UnitDisc/UnitBall never overflow on [-1,1] coordinates and an accepted candidate has real squared norm <= 1+4u resp. 1+6u (u=2^-prec) in binary32 and binary64. Coq: norm identities of the circle/sphere transforms, angle doubling, z = 1-2s, accepted points inside the disc/ball, the exact [-1,1) draw, all lifted by induction over the rejection loop to every result of the four sampler models; the rejection stage of each model is characterised completely (Props/C12_events.v): the iteration that draws a candidate returns it (or its transform) exactly when it passes the test of the code and otherwise the loop behaves as the loop on the remaining words, so the output is the first candidate of the stream inside the region; models tied pathwise to the crate; norm predicate (4 ulp) on the real output incl. adversarial words.",
   note="Uniformity reduces to classical geometric facts not formalised (B-class).",
   technique="Coq proof (real algebra lifted over the loop) + pathwise correspondence + norm oracle",
   design="DESIGN.md §6 C12"),
 "C13": dict(
   category="proof",
   text="Coq: the six single-draw samplers consume exactly one word and their transform is the documented quantile (C01 theorems, re-stated); the Kolmogorov distance of the empirical measure of N outputs from a monotone CDF is bounded by the finite step formula (ks_step_formula, with ties), which is attained (ks_sup_exact), and is bounded by 1/N + e + delta*M from pointwise accuracy (ks_from_pointwise). Decision on the real crate: ALL 2^24 first-word patterns per (family, parameter point) enumerated: finite, in support, monotone, one word; pointwise accuracy against the Coq model enclosure at stratified draws (both ends dense).",
   note="The enumeration of the 2^24 outputs is exhaustive; the numerical Kolmogorov bound derived in the quick tier is sound but coarser than the 2^-24-level constant (gap between stratified draws), stated as such. Known finding F4/F11 (draw 1.0) listed.",
   technique="Coq proof (KS step formula, pointwise-to-KS bound, one-word theorems) + exhaustive enumeration of all 2^24 draws on the real code",
   design="DESIGN.md §6 C13"),
 "C14": dict(
   category="proof",
   text="Coq theorems (closed under the global context) for every program of the type sampler: determinism, sampling leaves the value unchanged, clones and rebuilds give the same sequence, interleaving independence over several objects and streams, sample_iter = repeated sample, stream position. The tie to the code is (a) purity facts regenerated from the source on every run and re-proved (all sampling methods take &self, forbid(unsafe_code), no interior-mutability/static-mut token) and (b) differential histories on the real crate run seven ways (twice, fresh objects, expanded sample_iter, projected per stream), incl. long runs.",
   note="The theorem carries least and the tie most for this property (as DESIGN.md says): Rust's aliasing guarantee for safe code is trusted; the token list is a syntactic check.",
   technique="Coq proof over an abstract sampler type + regenerated syntactic purity facts + differential history testing",
   design="DESIGN.md §6 C14"),
 "C15": dict(
   category="proof",
   text="Coq (closed under the global context): for every well-formed serde type description and every well-typed value with finite floats, decode(encode v) = Some v, encode is injective; the descriptions of all serde-deriving types are regenerated from the source on every run, proved well formed, and any serde attribute outside the modelled universe fails the obligation. Every serde-enabled type and internal variant is round-tripped through serde_json on the real crate (PartialEq, 100 identical samples) and its JSON tree must decode and re-encode identically at the regenerated description.",
   note="Trusted: that the derive macro implements the conventions of Model/Serde.v (checked on every type/variant, not proved); serde_json float I/O (float_roundtrip feature).",
   technique="Coq proof (round-trip theorem over a type-description universe) + regenerated descriptions + JSON tree correspondence",
   design="DESIGN.md §6 C15"),
 "C03": dict(
   category="proof",
   text="Coq/Flocq (Props/C03_fl.v): Triangular::sample (libm-free; whole body translated from the source by tools/flprog.py and proved equal to triangular_fl by reflexivity) returns a finite float, never NaN, >= min / <= max exactly per branch, for every draw and all parameters up to 2^510, tied bit-for-bit to the crate by a python IEEE oracle; Pert's last step is >= min exactly and <= max + (u+u^2)(max-min) + u|max|; Beta's last step lies in [0,1]. Coq theorems for the integer-exact part (weighted alias/tree indices always in range with non-zero weight, no panic); on the EXECUTABLE models of all seven discrete samplers (the decision trees run against the crate), for every word list and all valid parameters, every returned value is in the support and the panic sites (u64 underflow, 1 << 64, overflowing add, f64_to_u64 assertions, negative table index) are unreachable under the exact real semantics: StandardGeometric, Geometric, Zeta, Zipf (integer n), Poisson (Knuth, PD), Binomial (constant, Poisson limit, BINV, BTPE regions 1-4 and steps 5.1-5.3, flip), Hypergeometric (HIN, H2PE incl. its unguarded region 1, all four reflections; N < 2^51) (Props/C03_discrete.v); on the ideal real-number models of the continuous samplers, support theorems for Beta, Exp, Gamma, ChiSquared, FisherF, LogNormal, InverseGaussian, Weibull, Pareto, Frechet, Triangular, Pert (Props/C03_support.v); at the IEEE level (Flocq, binary32/binary64) the libm-free last step of Beta::sample - the `w == inf` guard and the reflection - returns a finite float in [0, 1] for every finite b > 0 and every w that is +inf or finite >= 0 (Props/C03_fl.v); the rest of the IEEE-level part of the property is decided by the direct oracle on the real code: support predicate + catch_unwind over the single-word-adversarial lattice (about 200 boundary words x positions) x parameter points of envelope E incl. integer extremes, seeded random streams, and the exhaustive sweep of all 2^24 high-bit patterns of one word for every f32 sampler, in debug and release builds. Known findings (Frechet, Gumbel, Exp1 tail, Zipf) are matched by class.",
   note="The theorem part does not cover float rounding at the extreme draws; that part is exploration (exhaustive for f32 single positions). Trusted: harness support predicates, catch_unwind, watchdog.",
   technique="Coq proof (integer/ideal parts) + exhaustive f32 draw enumeration and adversarial-word lattice on the real code",
   design="DESIGN.md §6 C03"),
 "C01": dict(
   category="proof",
   text="Coq: every continuous sampler (20 families, f32 and f64) is modelled as a decision tree over exact real expressions, one node per rounded float operation of the source; for the six single-draw inverse-CDF families the model is proved to consume exactly one word and the event equivalence Q(u) <= x <-> u <= F(x) (resp. 1-F(x) <= u) is proved for all parameters, which is the documented law; the interval evaluator used to run the models is proved sound (evalI_sound). Every model is tied to the code pathwise: on identical parameter bits and RNG words the crate's value must lie in the rounding-inflated enclosure of the model and consume the same number of words (no statistics). Rejection samplers (Gamma, Beta, ziggurat primitives via C06, ...) have their models tied the same way; on the EXECUTABLE models of the Marsaglia-Tsang loop and of Cheng's BB loop a proposal is returned exactly when it lies in the exact acceptance event - soundness for every fuel and word list (also when accepted by a quick test), completeness per iteration (Props/C01_model.v) - and the accepted-density identities, envelopes and squeezes behind those events are proved as real-number theorems (Props/C01_identities.v, incl. the kernel identity of the shape < 1 boost); what remains cited only is listed in DESIGN.md (partial).",
   note="Trusted: Coq kernel, Coq-Interval's verified operations, stdlib real axioms; hand models tied by pathwise correspondence + regenerated fingerprints; libm within per-operation budgets; probability bridge B1-B4 not formalised.",
   technique="Coq proof (event equivalences for inverse-CDF families, sound interval evaluation) + pathwise model/implementation correspondence",
   design="DESIGN.md §6 C01"),
 "C06": dict(
   category="proof",
   text="Coq: all 4x257 ziggurat table entries regenerated from the source on every run satisfy monotonicity, F_i = f(X_i) to 1e-14, equal layer areas to 1e-8 and the end-point equations (proof by reflection through the verified interval evaluator); the exponential base strip + tail equals the layer area; the bit-slicing of the RNG word gives independent uniform layer index and mantissa (exactly 16 preimages each); the accepted sub-density of one ziggurat pass equals f(x)/(N v) for exact tables (telescoping identity, one- and two-sided, tail layer); on the EXECUTABLE model of the loop every returned value comes from the tail routine, the rectangle test or (layer >= 1, rectangle failed) the wedge test, i.e. from the three events of that identity (Props/C06_model.v); Marsaglia's normal tail and the exponential tail transforms are proved. The sampler model is tied pathwise incl. crafted words per layer/branch; compiled table bits are read through the hook and compared with the regenerated literals.",
   note="Trusted: Coq kernel, Interval ops, stdlib real axioms; rs2coq table translation (cross-checked against compiled bits); normal base-strip integral checked numerically only; perturbation bound from 1e-8 table tolerance to the law not formalised.",
   technique="Coq proof by reflection over regenerated tables + algebraic density identity + pathwise correspondence",
   design="DESIGN.md §6 C06"),
 "C08": dict(
   category="proof",
   text="Coq theorems over unbounded Z for every integer weight vector: new() returns InvalidInput / InvalidWeight / InsufficientNonZero exactly on the documented conditions and otherwise Ok, never panicking (no intermediate leaves the weight type, the pairing loop terminates); for every constructed table: mass conservation odds_i + aliased mass = n*w_i, leftover columns have odds exactly sum (the u32::MAX sentinel is never dereferenced), weights() returns the input, exactly n*w_i of the n*sum (column,threshold) pairs select i, zero weights are never returned; Lemire range sampling stays in range. The model is tied to the code by comparing the Debug-printed aliases/no_alias_odds, weights() and samples on scripted words for exhaustive small-alphabet vectors and random vectors.",
   note="Trusted: Coq kernel; hand model coq/Model/Alias.v tied by correspondence; rand's Uniform modelled. Float weights: direct oracle + known finding F8.",
   technique="Coq proof (loop invariant on small/big stacks, mass conservation, counting) + model/implementation correspondence",
   design="DESIGN.md §6 C08"),
 "C09": dict(
   category="proof",
   text="Coq theorems over unbounded Z and arbitrary finite histories: every reachable WeightedTreeIndex state (integer weights) refines the plain weight list, equals a fresh build of it (rep_unique), errors are atomic, Overflow is exact, no panic for in-range arguments. The hand-written model is tied to the code by running identical histories through the real crate and the model (every return value and the subtotals after every step).",
   note="Trusted: Coq kernel+vm_compute; hand model coq/Model/Tree.v (tied by correspondence, not generated); harness. Float weight types are covered by the direct oracle only.",
   technique="Coq proof (Rep invariant, refinement to list spec, induction over histories) + model/implementation correspondence",
   design="DESIGN.md §6 C09"),
 "C10": dict(
   category="proof",
   text="Coq theorems: for every state satisfying the C09 invariant (hence every reachable state) the descent of try_sample maps the targets [0,total) onto indices with exactly w_j targets per index j, never returns a zero-weight index, both internal assertions hold, zero total gives InsufficientNonZero; rand's Canon range reduction is modelled and proved to stay in range. Correspondence on (history, RNG words) incl. both Canon paths, and exact enumeration of all targets of small trees against the real crate.",
   note="Trusted: Coq kernel; hand models Tree.v/Uniform.v tied by correspondence; uniformity of rand's target up to rand's documented bias. Float weights: direct oracle + known finding F7.",
   technique="Coq proof (descent partition via enumeration list, counting lemma) + correspondence + exhaustive target enumeration",
   design="DESIGN.md §6 C10"),
}

man = {
 "version": 1,
 "setup_cmd": "./setup.sh",
 "hooks": {"guard": "rand_distr_verif",
           "enable": "RUSTFLAGS=\"--cfg rand_distr_verif\" cargo build --offline (the harness crate depends on rand_distr by path=/repo)",
           "baseline_off_cmd": "cd /repo && cargo test --workspace --no-fail-fast --offline",
           "source_commits": [], "add_only": True},
 "engines": [
   {"name": "coq", "path": "coq", "serves_properties": sorted(CHECKS), "kind_free_text": "Coq 8.16.1 development: executable models (Model/), proofs (Proofs/), property statements (Props/)"},
   {"name": "rdh", "path": "harness", "serves_properties": sorted(CHECKS), "kind_free_text": "Rust correspondence harness with scripted RNG, linked against /repo's working tree"},
 ],
 "checks": [],
 "not_applicable": [],
 "notes": "Properties are moved from not_applicable to checks as their models, proofs and correspondence land; see DESIGN.md.",
}
hooks_file = os.path.join(ROOT, "hooks_commits.txt")
if os.path.exists(hooks_file):
    man["hooks"]["source_commits"] = [l.strip() for l in open(hooks_file) if l.strip()]
for p in props:
    pid = p["id"]
    if pid in CHECKS:
        c = CHECKS[pid]
        man["checks"].append({
          "property_id": pid,
          "quick_cmd": "./check %s --tier quick" % pid,
          "thorough_cmd": "./check %s --tier thorough" % pid,
          "evidence_file": "evidence/%s.json" % pid,
          "replay_cmd_template": "./check %s --replay {path}" % pid,
          "engine": "coq",
          "level_claimed": {"category": c["category"], "text": c["text"], "design_ref": c["design"]},
          "level_note": c["note"],
          "technique": c["technique"],
        })
    else:
        man["not_applicable"].append({"property_id": pid, "reason": "check not built yet in this revision (work in progress; DESIGN.md §10 build order)"})
json.dump(man, open(os.path.join(ROOT, "MANIFEST.json"), "w"), indent=1)
print("MANIFEST.json:", len(man["checks"]), "checks,", len(man["not_applicable"]), "not_applicable")
